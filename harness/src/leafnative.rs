//! Honest leaf inputs built natively (bytes, as a wallet would) together with the flat
//! reference assignment `LeafA` describing the same statement.
use crate::cx::{u, F};
use crate::leafref::*;
use wormhole_circuit::inputs::{CircuitInputs, PrivateCircuitInputs, PublicCircuitInputs};
use zk_circuits_common::utils::BytesDigest;

pub fn limbs_to_bytes(d: [u64; 4]) -> [u8; 32] {
    let mut b = [0u8; 32];
    for i in 0..4 {
        b[i * 8..i * 8 + 8].copy_from_slice(&d[i].to_le_bytes());
    }
    b
}
pub fn bytes_to_limbs(b: &[u8; 32]) -> [u64; 4] {
    let mut d = [0u64; 4];
    for i in 0..4 {
        d[i] = u64::from_le_bytes(b[i * 8..i * 8 + 8].try_into().unwrap());
    }
    d
}
fn bd(d: [u64; 4]) -> BytesDigest {
    BytesDigest::try_from(limbs_to_bytes(d)).expect("canonical")
}

#[derive(Clone, Debug)]
pub struct HonestParams {
    pub seed: u64,
    pub depth: usize,
    /// wanted sorted rank of the running hash at each level
    pub positions: Vec<u8>,
    pub asset: u32,
    pub input: u32,
    pub fee: u32,
    pub out1: u32,
    pub out2: u32,
    pub tc: u64,
    pub block_number: u32,
}

pub struct Honest {
    pub inputs: CircuitInputs,
    pub a: LeafA,
    /// unsorted siblings per level as a chain node would hand them out
    pub unsorted_siblings: Vec<[[u8; 32]; 3]>,
    pub leaf_hash: [u8; 32],
}

/// Build an honest real statement. Siblings are searched deterministically so that the
/// byte-lexicographic sorted rank of the running hash (the chain's node order) is the wanted
/// position at every level.
pub fn build(p: &HonestParams) -> Honest {
    build_ext(p, None, None, p.seed)
}

/// Leaf hash of the deposit the parameters describe (needed to place it in a shared tree).
pub fn leaf_hash_of(p: &HonestParams) -> [u64; 4] {
    let secret = h(&[0xC05, p.seed, 1]);
    let account = account_of(&secret);
    let mut pre = account.to_vec();
    pre.extend_from_slice(&[p.tc >> 32, p.tc & 0xFFFF_FFFF, p.asset as u64, p.input as u64]);
    h(&pre)
}

/// Sorted-sibling path of one leaf inside a shared tree: (sorted siblings, positions, root).
pub type Path = (Vec<[[u8; 32]; 3]>, Vec<u8>, [u64; 4]);

/// A depth-2 4-ary tree over up to 16 leaf hashes (the rest filled), children hashed in
/// byte-sorted order like the chain does. Returns one path per supplied leaf.
pub fn shared_tree(block_seed: u64, leaf_hashes: &[[u64; 4]]) -> Vec<Path> {
    assert!(leaf_hashes.len() <= 16);
    let mut leaves: Vec<[u8; 32]> = (0..16u64).map(|i| limbs_to_bytes(h(&[0xF111, block_seed, i]))).collect();
    for (i, lh) in leaf_hashes.iter().enumerate() {
        leaves[i] = limbs_to_bytes(*lh);
    }
    let node = |ch: &[[u8; 32]]| -> [u8; 32] {
        let mut c = ch.to_vec();
        c.sort();
        limbs_to_bytes(h(&c.iter().flat_map(bytes_to_limbs).collect::<Vec<_>>()))
    };
    let groups: Vec<[u8; 32]> = (0..4).map(|g| node(&leaves[g * 4..g * 4 + 4])).collect();
    let root = bytes_to_limbs(&node(&groups));
    let path_level = |all: &[[u8; 32]], me: [u8; 32]| -> ([[u8; 32]; 3], u8) {
        let mut c = all.to_vec();
        c.sort();
        let pos = c.iter().position(|x| *x == me).unwrap();
        c.remove(pos);
        ([c[0], c[1], c[2]], pos as u8)
    };
    (0..leaf_hashes.len())
        .map(|i| {
            let g = i / 4;
            let (s0, p0) = path_level(&leaves[g * 4..g * 4 + 4], leaves[i]);
            let (s1, p1) = path_level(&groups, groups[g]);
            (vec![s0, s1], vec![p0, p1], root)
        })
        .collect()
}

/// `build` with an optional externally supplied tree path (shared block), explicit exit
/// accounts, and a header seed shared by all leaves of one block.
pub fn build_ext(p: &HonestParams, path: Option<&Path>, exits: Option<([u64; 4], [u64; 4])>, header_seed: u64) -> Honest {
    let g = |k: u64| -> [u64; 4] { h(&[0xC05, p.seed, k]) };
    let hg = |k: u64| -> [u64; 4] { h(&[0xC05, header_seed, k]) };
    let secret = g(1);
    let account = account_of(&secret);
    let tc = [p.tc >> 32, p.tc & 0xFFFF_FFFF]; // high limb first, as the chain encodes u64
    let mut a = LeafA::zero();
    a.v[ASSET] = p.asset as u64;
    a.v[OUT1] = p.out1 as u64;
    a.v[OUT2] = p.out2 as u64;
    a.v[FEE] = p.fee as u64;
    a.v[INPUT] = p.input as u64;
    a.set4(SECN, secret);
    a.set4(SECA, secret);
    a.v[TCN] = tc[0];
    a.v[TCN + 1] = tc[1];
    a.v[TCL] = tc[0];
    a.v[TCL + 1] = tc[1];
    a.set4(ACC, account);
    a.set4(TO, account);
    a.set4(EXIT1, exits.map(|e| e.0).unwrap_or(g(2)));
    a.set4(EXIT2, exits.map(|e| e.1).unwrap_or(g(3)));
    a.v[BN] = p.block_number as u64;
    let depth = path.map(|x| x.0.len()).unwrap_or(p.depth);
    a.v[DEPTH] = depth as u64;
    let mut cur = a.leaf_hash();
    let leaf_hash = limbs_to_bytes(cur);
    let mut unsorted = Vec::new();
    let mut sorted_sibs: Vec<[[u8; 32]; 3]> = Vec::new();
    for l in 0..(if path.is_some() { 0 } else { p.depth }) {
        let want = p.positions[l] as usize;
        // construct `want` siblings below the running hash and 3-want above it (byte order)
        let curb = limbs_to_bytes(cur);
        let sibs: Vec<[u8; 32]> = (0..3usize)
            .map(|j| {
                let mut c = limbs_to_bytes(h(&[0x51B, p.seed, l as u64, j as u64]));
                if j < want {
                    let i = curb.iter().position(|&b| b != 0).expect("running hash is not all-zero");
                    for b in c.iter_mut().take(i) {
                        *b = 0;
                    }
                    c[i] %= curb[i];
                } else {
                    let i = curb.iter().position(|&b| b != 255).expect("running hash is not all-ones");
                    assert!(i < 7, "degenerate running hash");
                    for b in c.iter_mut().take(i) {
                        *b = 255;
                    }
                    c[i] = curb[i] + 1 + c[i] % (255 - curb[i]);
                }
                assert!(zk_circuits_common::zk_merkle::is_canonical_hash(&c), "constructed sibling must be canonical");
                c
            })
            .collect();
        {
            let mut all = vec![curb, sibs[0], sibs[1], sibs[2]];
            all.sort();
            assert_eq!(all.iter().position(|x| *x == curb).unwrap(), want);
        }
        // hand the siblings out in a scrambled (unsorted) order
        let scr = [sibs[(l + 1) % 3], sibs[(l + 2) % 3], sibs[l % 3]];
        unsorted.push(scr);
        let mut srt = sibs.clone();
        srt.sort();
        a.v[POS + l] = want as u64;
        for s in 0..3 {
            a.set4(SIB + (l * 3 + s) * 4, bytes_to_limbs(&srt[s]));
        }
        sorted_sibs.push([srt[0], srt[1], srt[2]]);
        let mut all = vec![limbs_to_bytes(cur), srt[0], srt[1], srt[2]];
        all.sort();
        let pre: Vec<u64> = all.iter().flat_map(|b| bytes_to_limbs(b)).collect();
        cur = h(&pre);
    }
    let mut positions_used: Vec<u8> = p.positions.iter().take(depth).cloned().collect();
    if let Some((sibs, pos, root)) = path {
        for l in 0..depth {
            a.v[POS + l] = pos[l] as u64;
            for s in 0..3 {
                a.set4(SIB + (l * 3 + s) * 4, bytes_to_limbs(&sibs[l][s]));
            }
        }
        sorted_sibs = sibs.clone();
        positions_used = pos.clone();
        cur = a.fold();
        assert_eq!(cur, *root, "shared tree path must fold to the shared root");
    }
    a.set4(ROOT, cur);
    a.set4(ZKROOT, cur);
    a.set4(PARENT, hg(4));
    a.set4(STATE, hg(5));
    a.set4(EXTR, hg(6));
    let mut digest = [0u8; 110];
    for (i, b) in digest.iter_mut().enumerate() {
        *b = (hg(7 + (i / 32) as u64)[(i / 8) % 4] >> ((i % 8) * 8)) as u8;
    }
    let dfelts: Vec<F> = zk_circuits_common::utils::bytes_to_felts(&digest).unwrap();
    assert_eq!(dfelts.len(), 28);
    for i in 0..28 {
        a.v[DIGEST + i] = u(dfelts[i]);
    }
    let bh = a.header_hash();
    a.set4(BH, bh);
    let n = nullifier_of(&secret, &tc);
    a.set4(NULL, n);

    let inputs = CircuitInputs {
        public: PublicCircuitInputs {
            asset_id: p.asset,
            output_amount_1: p.out1,
            output_amount_2: p.out2,
            volume_fee_bps: p.fee,
            nullifier: bd(n),
            exit_account_1: bd(a.d4(EXIT1)),
            exit_account_2: bd(a.d4(EXIT2)),
            block_hash: bd(bh),
            block_number: p.block_number,
        },
        private: PrivateCircuitInputs {
            secret: wormhole_circuit::nullifier::Secret::from(bd(secret)),
            transfer_count: p.tc,
            unspendable_account: bd(account),
            parent_hash: bd(a.d4(PARENT)),
            state_root: bd(a.d4(STATE)),
            extrinsics_root: bd(a.d4(EXTR)),
            digest,
            input_amount: p.input,
            zk_tree_root: limbs_to_bytes(cur),
            zk_merkle_siblings: sorted_sibs,
            zk_merkle_positions: positions_used,
        },
    };
    Honest { inputs, a, unsorted_siblings: unsorted, leaf_hash }
}
