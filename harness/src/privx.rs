//! Private-batch wrapper exploration shared by C06-C09 (and the export for C34): slot
//! alphabets, vector sets, evaluation through CX on the wrapper-only circuit.
use crate::cx::{Cx, Verdict, P};
use crate::leafref::h;
use crate::mcx::product_indices;
use crate::wrapref::*;
use rayon::prelude::*;

pub const TWO32: u64 = 1 << 32;

pub fn dig(tag: u64) -> D4 {
    h(&[0x5107, tag])
}
pub fn bump(mut d: D4, limb: usize) -> D4 {
    d[limb] = (d[limb] + 1) % P;
    d
}
/// A different digest with the same limb sum (limb 0 + 1, limb 1 - 1): separates a
/// limb-wise comparison from one that aggregates the limb differences first.
/// Non-zero digests that a careless zero test classifies as zero: limbs summing to 0 mod p,
/// and a single non-zero limb in the last / first position.
pub const ZSUM: D4 = [1, P - 1, 0, 0];
pub const ZLAST: D4 = [0, 0, 0, 5];
pub const ZFIRST: D4 = [5, 0, 0, 0];
pub fn shift(mut d: D4) -> D4 {
    d[0] = (d[0] + 1) % P;
    d[1] = if d[1] == 0 { P - 1 } else { d[1] - 1 };
    d
}

/// Field alphabets of a slot (index vector -> Slot).
pub struct Alpha {
    pub bh: Vec<D4>,
    pub asset: Vec<u64>,
    pub fee: Vec<u64>,
    pub nullifier: Vec<D4>,
    pub exits: Vec<D4>,
    pub amounts: Vec<u64>,
    pub pre: Vec<D4>,
    pub dnum: Vec<u64>,
}
pub const NFIELDS: usize = 10;
impl Alpha {
    pub fn new() -> Self {
        let b1 = dig(1);
        let x = dig(10);
        Self {
            bh: vec![Z4, b1, dig(2), bump(b1, 3), shift(b1), bump(b1, 0), bump(b1, 1), bump(b1, 2), ZSUM],
            asset: vec![0, 1],
            fee: vec![0, 7],
            nullifier: vec![dig(20), dig(21), bump(dig(20), 2), dig(22), shift(dig(20)), bump(dig(20), 0), bump(dig(20), 1), bump(dig(20), 3)],
            exits: vec![Z4, x, dig(11), bump(x, 1), shift(x), bump(x, 0), bump(x, 2), bump(x, 3), ZSUM],
            amounts: vec![0, 1, 5, 1 << 31, TWO32 - 1],
            pre: vec![dig(30), dig(31)],
            dnum: vec![0, 77],
        }
    }
    pub fn sizes(&self) -> [usize; NFIELDS] {
        [self.bh.len(), self.asset.len(), self.fee.len(), self.nullifier.len(), self.exits.len(), self.exits.len(), self.amounts.len(), self.amounts.len(), self.pre.len(), self.dnum.len()]
    }
    /// order: bh, asset, fee, nullifier, e1, e2, a1, a2, pre, dnum
    pub fn slot(&self, ix: &[usize]) -> Slot {
        let bh = self.bh[ix[0]];
        // the leaf circuit binds the block number to a non-zero block hash: number = g(hash)
        let number = if bh == Z4 { self.dnum[ix[9]] } else { 100 * ix[0] as u64 };
        Slot {
            asset: self.asset[ix[1]],
            fee: self.fee[ix[2]],
            nullifier: self.nullifier[ix[3]],
            e1: self.exits[ix[4]],
            e2: self.exits[ix[5]],
            a1: self.amounts[ix[6]],
            a2: self.amounts[ix[7]],
            bh,
            number,
            pre: self.pre[ix[8]],
        }
    }
    pub fn full(&self) -> Vec<Vec<usize>> {
        let mut out = Vec::new();
        product_indices(&self.sizes(), |ix| {
            // dnum only distinguishes dummies
            if ix[0] != 0 && ix[9] != 0 {
                return;
            }
            out.push(ix.to_vec())
        });
        out
    }
    /// Greedy pairwise cover of the field alphabets (deterministic).
    pub fn pairwise_cover(&self) -> Vec<Vec<usize>> {
        let full = self.full();
        let sizes = self.sizes();
        let mut covered = std::collections::HashSet::new();
        let mut need = 0usize;
        for i in 0..NFIELDS {
            for j in i + 1..NFIELDS {
                need += sizes[i] * sizes[j];
            }
        }
        // dnum pairs with real block hashes cannot occur
        let mut out: Vec<Vec<usize>> = Vec::new();
        let stride = 7919usize;
        let mut k = 0usize;
        let mut tried = 0usize;
        while covered.len() < need && tried < full.len() {
            let ix = &full[k % full.len()];
            k += stride;
            tried += 1;
            let mut newp = Vec::new();
            for i in 0..NFIELDS {
                for j in i + 1..NFIELDS {
                    let key = (i, ix[i], j, ix[j]);
                    if !covered.contains(&key) {
                        newp.push(key);
                    }
                }
            }
            if newp.len() >= 3 || (tried > full.len() / 2 && !newp.is_empty()) {
                for key in newp {
                    covered.insert(key);
                }
                out.push(ix.clone());
            }
        }
        out
    }
    pub fn bases(&self) -> Vec<Vec<usize>> {
        vec![
            vec![1, 0, 0, 0, 1, 2, 2, 1, 0, 0], // real A: B1, n1, X<-5, Y<-1
            vec![1, 0, 0, 1, 1, 0, 3, 4, 1, 0], // real B: B1, n2, X<-2^31, Z<-2^32-1
            vec![0, 0, 0, 0, 0, 0, 0, 0, 0, 0], // clean dummy
            vec![0, 0, 1, 1, 1, 3, 2, 4, 1, 1], // garbage dummy: fee 7, accounts, amounts, number 77
        ]
    }
    /// bases + all their single-field variations + the pairwise cover
    pub fn mid(&self) -> Vec<Vec<usize>> {
        let sizes = self.sizes();
        let mut out = self.bases();
        for b in self.bases() {
            for fi in 0..NFIELDS {
                for a in 0..sizes[fi] {
                    if a != b[fi] {
                        let mut v = b.clone();
                        v[fi] = a;
                        if v[0] != 0 {
                            v[9] = 0;
                        }
                        out.push(v);
                    }
                }
            }
        }
        out.extend(self.pairwise_cover());
        out.sort();
        out.dedup();
        out
    }
    pub fn small(&self) -> Vec<Vec<usize>> {
        let mut out = self.bases();
        // a second nullifier-colliding real, a different block, a different asset, a different fee,
        // big amounts to one account, duplicates inside a slot
        out.extend(vec![
            vec![1, 0, 0, 0, 2, 2, 4, 1, 1, 0],
            vec![2, 0, 0, 1, 1, 2, 2, 2, 0, 0],
            vec![3, 0, 0, 2, 3, 1, 1, 0, 0, 0],
            vec![1, 1, 0, 1, 1, 2, 2, 1, 0, 0],
            vec![1, 0, 1, 2, 2, 1, 1, 2, 0, 0],
            vec![1, 0, 0, 2, 1, 1, 3, 3, 1, 0],
            vec![1, 0, 0, 1, 0, 0, 4, 2, 0, 0],
            vec![0, 1, 0, 2, 2, 2, 1, 1, 1, 0],
        ]);
        for c in self.pairwise_cover() {
            if out.len() >= 24 {
                break;
            }
            if !out.contains(&c) {
                out.push(c);
            }
        }
        out
    }
}

#[derive(Clone, Debug)]
pub struct Eval {
    pub slots: Vec<Slot>,
    pub accept: bool,
    pub pis: Vec<u64>,
    pub reject: String,
}

pub fn eval_vectors(w: &PrivWrap, cx: &Cx, vectors: &[Vec<Slot>]) -> Vec<Eval> {
    vectors
        .par_iter()
        .map(|slots| {
            let out = cx.run(&w.inputs(slots), &[], &[], false);
            match out.verdict {
                Verdict::Accept { pis, .. } => Eval { slots: slots.clone(), accept: true, pis, reject: String::new() },
                Verdict::Reject(r) => Eval { slots: slots.clone(), accept: false, pis: vec![], reject: format!("{r:?}") },
            }
        })
        .collect()
}

/// Parsed output of an accepted private batch.
pub struct Parsed {
    pub header: Vec<u64>,
    pub slots: Vec<(u64, D4)>,
    pub nullifiers: Vec<D4>,
    pub padding: Vec<u64>,
}
pub fn parse_out(pis: &[u64], n: usize) -> Parsed {
    let header = pis[..8].to_vec();
    let mut slots = Vec::new();
    for s in 0..2 * n {
        let b = 8 + s * 5;
        slots.push((pis[b], [pis[b + 1], pis[b + 2], pis[b + 3], pis[b + 4]]));
    }
    let mut nullifiers = Vec::new();
    for k in 0..n {
        let b = 8 + 10 * n + 4 * k;
        nullifiers.push([pis[b], pis[b + 1], pis[b + 2], pis[b + 3]]);
    }
    Parsed { header, slots, nullifiers, padding: pis[8 + 14 * n..].to_vec() }
}
