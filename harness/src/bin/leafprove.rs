//! C05: leaf proving is complete, exposes the documented public inputs, rejects malformed
//! paths with an error. Real prover + pinned verifier + both parsers, plus CX on every case.
use plonky2::field::types::PrimeField64;
use rayon::prelude::*;
use serde_json::json;
use vharness::cx::{Cx, Verdict};
use vharness::leafnative::{build, HonestParams};
use vharness::leafx::{explore, LeafCtx};
use vharness::mcx::*;
use wormhole_circuit::inputs::{ParsePublicInputs, PublicCircuitInputs};
use wormhole_prover::WormholeProver;
use wormhole_verifier::WormholeVerifier;

fn patterns(depth: usize, full_upto: usize) -> Vec<Vec<u8>> {
    if depth <= full_upto {
        let mut out = vec![];
        product_indices(&vec![4usize; depth], |ix| out.push(ix.iter().map(|&x| x as u8).collect()));
        if depth == 0 {
            out = vec![vec![]];
        }
        out
    } else {
        let mut out: Vec<Vec<u8>> = (0..4u8).map(|c| vec![c; depth]).collect();
        out.push((0..depth).map(|i| (i % 4) as u8).collect());
        out.push((0..depth).map(|i| (3 - i % 4) as u8).collect());
        out
    }
}

fn main() {
    quiet_panics();
    let tier = tier_from_args();
    let thorough = tier == "thorough";
    let rep = Report::new("C05", "exploration", &tier);
    let ctx = LeafCtx::new();
    let cx = Cx::new(&ctx.data);

    // the CX completeness/PI-order half shared with the C01..C04 exploration
    {
        let d: Vec<Report> = (0..4).map(|i| Report::new(&format!("_d{i}"), "model_checking", &tier)).collect();
        explore(&ctx, "quick", &[&d[0], &d[1], &d[2], &d[3], &rep]);
    }

    // pinned verifier from freshly built canonical bytes
    let vdata = wormhole_circuit::circuit::circuit_logic::WormholeCircuit::default().build_verifier();
    let common_bytes = vdata.common.to_bytes(&plonky2::util::serialization::DefaultGateSerializer).unwrap();
    let verifier_bytes = vdata.verifier_only.to_bytes().unwrap();
    let verifier = match WormholeVerifier::new_from_bytes(&verifier_bytes, &common_bytes) {
        Ok(v) => Some(v),
        Err(e) => {
            rep.violation(
                "pinned-verifier-rejects-fresh-build",
                &format!("the pinned leaf verifier loader rejects the circuit the prover builds: {e}"),
                json!({"error": e.to_string()}),
            );
            None
        }
    };

    // ---- honest cases ----
    let full_upto = if thorough { 4 } else { 3 };
    let corners: Vec<(u32, u32, u32, u32)> = vec![
        // (input, fee, out1, out2)
        (1_000_000, 10, 600_000, 399_000),
        (u32::MAX, 0, 1 << 31, (1u32 << 31) - 1),
        (10_000, 1, 9_999, 0),
        (10_000, 9_999, 1, 0),
        (123_456, 10_000, 0, 0),
        (0, 0, 0, 0),
        (u32::MAX, 10_000, 0, 0),
        (7, 3, 3, 3),
        // maximal slack of the fee rule: the largest deposit claiming nothing / almost nothing
        (u32::MAX, 0, 0, 0),
        (u32::MAX, 0, 1, 0),
        (3_518_437_209, 0, 0, 0),
    ];
    let tcs: Vec<u64> = vec![0, u32::MAX as u64, 1 << 32, u64::MAX];
    let mut cases: Vec<HonestParams> = Vec::new();
    for depth in 0..=16usize {
        for (pi, pat) in patterns(depth, full_upto).into_iter().enumerate() {
            // every pattern once with a rotating corner; extra corners on a few
            let ncorner = if pi < 2 || thorough { corners.len() } else { 1 };
            for ci in 0..ncorner {
                let c = corners[(ci + pi + depth) % corners.len()];
                let seed = (depth * 1000 + pi * 10 + ci) as u64;
                cases.push(HonestParams {
                    seed,
                    depth,
                    positions: pat.clone(),
                    asset: if ci % 3 == 1 { 7 } else { 0 },
                    input: c.0,
                    fee: c.1,
                    out1: c.2,
                    out2: c.3,
                    tc: tcs[(pi + ci) % tcs.len()],
                    block_number: if ci % 2 == 0 { 1 + seed as u32 } else { u32::MAX },
                });
            }
        }
    }
    // real proofs on a deterministic subset; CX on all
    let prove_every = if thorough { 3 } else { 12 };
    let n_proved = std::sync::atomic::AtomicU64::new(0);
    cases.par_iter().enumerate().for_each(|(i, p)| {
        let hst = build(p);
        rep.eval(1);
        rep.distinct(hash64(&hst.a.v));
        let case = json!({"params": format!("{p:?}")});
        if !hst.a.hon() {
            machinery_error(&format!("honest builder produced a statement outside Hon: {p:?} {:?}", hst.a.p_violations()));
        }
        // CX
        match cx.run(&hst.a.to_inputs(&ctx.targets), &[], &[], false).verdict {
            Verdict::Accept { pis, .. } => {
                if pis != hst.a.expected_pis() {
                    rep.violation(&format!("cx-pis:{i}"), "circuit public inputs differ from the documented order", case.clone());
                }
            }
            Verdict::Reject(r) => {
                rep.violation(&format!("cx-reject:{:?}", p), &format!("honest input rejected by the circuit: {r:?}"), case.clone());
            }
        }
        let must_prove = i % prove_every == 0 || p.depth == 16 || p.depth == 0;
        // commit must accept every honest input (cheap), prove on the subset
        let r = catch(|| -> Result<Option<plonky2::plonk::proof::ProofWithPublicInputs<_, _, 2>>, String> {
            let prover = WormholeProver::new(zk_circuits_common::circuit::wormhole_leaf_circuit_config()).map_err(|e| e.to_string())?;
            let c = prover.commit(&hst.inputs).map_err(|e| format!("commit: {e}"))?;
            if must_prove {
                Ok(Some(c.prove().map_err(|e| format!("prove: {e}"))?))
            } else {
                Ok(None)
            }
        });
        match r {
            Err(p) => rep.violation(&format!("prover-panic:{i}"), &format!("leaf prover panicked on an honest input: {p}"), case.clone()),
            Ok(Err(e)) => rep.violation(&format!("prover-err:{i}"), &format!("leaf prover failed on an honest input: {e}"), case.clone()),
            Ok(Ok(None)) => {}
            Ok(Ok(Some(proof))) => {
                n_proved.fetch_add(1, std::sync::atomic::Ordering::Relaxed);
                let pis: Vec<u64> = proof.public_inputs.iter().map(|x| x.to_canonical_u64()).collect();
                if pis.len() != 21 || pis != hst.a.expected_pis() {
                    rep.violation(&format!("pi-order:{i}"), "proof public inputs are not (asset,out1,out2,fee,nullifier,exit1,exit2,block hash,block number)", json!({"params": format!("{p:?}"), "pis": pis}));
                }
                // parsers
                let p1 = <PublicCircuitInputs as ParsePublicInputs>::try_from_felts(&proof.public_inputs);
                let p2 = PublicCircuitInputs::try_from_u64_slice(&pis);
                let want = &hst.inputs.public;
                let same = |q: &PublicCircuitInputs| {
                    q.asset_id == want.asset_id
                        && q.output_amount_1 == want.output_amount_1
                        && q.output_amount_2 == want.output_amount_2
                        && q.volume_fee_bps == want.volume_fee_bps
                        && q.nullifier == want.nullifier
                        && q.exit_account_1 == want.exit_account_1
                        && q.exit_account_2 == want.exit_account_2
                        && q.block_hash == want.block_hash
                        && q.block_number == want.block_number
                };
                match (&p1, &p2) {
                    (Ok(a), Ok(b)) if same(a) && same(b) => {}
                    _ => rep.violation(&format!("parse-back:{i}"), "public inputs do not parse back to the input statement", case.clone()),
                }
                if let Some(v) = &verifier {
                    let vp = wormhole_verifier::ProofWithPublicInputs::from_bytes(proof.to_bytes(), &v.circuit_data.common);
                    match vp {
                        Ok(vp) => {
                            if let Err(e) = v.verify(vp) {
                                rep.violation(&format!("verify:{i}"), &format!("pinned verifier rejects an honest proof: {e}"), case.clone());
                            }
                        }
                        Err(e) => rep.violation(&format!("verify-de:{i}"), &format!("honest proof does not deserialize for the verifier: {e}"), case.clone()),
                    }
                }
            }
        }
        if i % (cases.len() / 6 + 1) == 0 {
            rep.sample(json!({"honest": format!("{p:?}"), "proved": must_prove}));
        }
    });

    // ---- malformed path vectors ----
    let base = HonestParams { seed: 9, depth: 3, positions: vec![1, 2, 0], asset: 0, input: 1000, fee: 10, out1: 500, out2: 400, tc: 5, block_number: 9 };
    let mut malformed: Vec<(String, Vec<[[u8; 32]; 3]>, Vec<u8>)> = Vec::new();
    let sib = [[1u8; 32], [2u8; 32], [3u8; 32]];
    for ns in 0..=18usize {
        for np in 0..=18usize {
            malformed.push((format!("len(siblings)={ns},len(positions)={np}"), vec![sib; ns], vec![0u8; np]));
        }
    }
    for ns in [64usize, 1000] {
        malformed.push((format!("depth {ns}"), vec![sib; ns], vec![0u8; ns]));
    }
    for lvl in 0..3 {
        for bad in [4u8, 5, 255] {
            let mut pos = vec![1u8, 2, 0];
            pos[lvl] = bad;
            malformed.push((format!("position {bad} at level {lvl}"), vec![sib; 3], pos));
        }
    }
    let n_mal = malformed.len();
    malformed.par_iter().for_each(|(label, sibs, pos)| {
        rep.eval(1);
        let mut hst = build(&base);
        hst.inputs.private.zk_merkle_siblings = sibs.clone();
        hst.inputs.private.zk_merkle_positions = pos.clone();
        let well_formed = sibs.len() <= 16 && pos.len() == sibs.len() && pos.iter().all(|&p| p <= 3);
        rep.distinct(hash64(&(label, 0xBAD)));
        let r = catch(|| {
            let prover = WormholeProver::new(zk_circuits_common::circuit::wormhole_leaf_circuit_config()).unwrap();
            match prover.commit(&hst.inputs) {
                Err(e) => Err(e.to_string()),
                Ok(c) => Ok(c.prove().is_ok()),
            }
        });
        match r {
            Err(p) => rep.violation(&format!("malformed-panic:{label}"), &format!("leaf prover panicked on malformed path ({label}): {p}"), json!({"case": label})),
            Ok(Err(_)) => {} // rejected with an error: fine for malformed; well-formed-but-wrong paths may also be refused
            Ok(Ok(proved)) => {
                if !well_formed {
                    rep.violation(&format!("malformed-accepted:{label}"), &format!("commit accepted a malformed path ({label}); prove succeeded: {proved}"), json!({"case": label}));
                }
            }
        }
    });
    rep.sample(json!({"malformed": malformed[20].0}));

    rep.extra("honest_cases", json!(cases.len()));
    rep.extra("real_proofs_proved_and_verified", json!(n_proved.load(std::sync::atomic::Ordering::Relaxed)));
    rep.extra("malformed_cases", json!(n_mal));
    rep.extra("bounds", json!({"depths": "0..16", "all 4^d position patterns for d <=": full_upto, "deeper": "4 constant patterns, rotating, reverse", "corners": corners.len(), "transfer counts": tcs}));
    rep.rule("honest case = (depth, position pattern realised by searching siblings whose sorted rank is the wanted position, amount/fee corner, transfer count, asset, block number); each is run through CX (must ACCEPT with the documented PIs), through WormholeProver::commit (must be Ok) and a deterministic subset through prove + pinned verifier + both parsers; malformed = every (len siblings, len positions) in 0..18^2, depth 64/1000, position 4/5/255 at each level. distinct = distinct statements / malformed shapes");
    rep.assume("real proving is run on a subset (every k-th case plus all depth-0 and depth-16 cases); CX acceptance is checked on all");
    std::process::exit(rep.finish());
}
