//! C19, C20, C21, C22 — explicit-state model checker for the real `ProofPool`.
//!
//! Subject: `wormhole_aggregator::pool::ProofPool` over a tiny free-public-input circuit
//! with the private-batch layout for 2 leaves (50 public inputs), driven through the
//! `verif-hooks` seams (virtual clock, verification-call counter, `verif_view`,
//! `verif_preflight`). A naive reference model (vectors, linear scans, `u128`) runs in lock
//! step; model and implementation are compared on EVERY transition.
//!
//! Search: level-synchronous breadth-first search over operation histories from the empty
//! pool, deduplicated on a canonical state (so every distinct state is expanded exactly once,
//! at its smallest depth = with the largest remaining depth). The live pool is cloned for
//! every operation; frontier nodes keep their pool while a memory budget lasts and are
//! otherwise rebuilt by re-executing their history from scratch. Everything that reaches the
//! evidence (state/transition counts, which history represents a state, the violations) is
//! independent of thread scheduling.
use std::collections::{BTreeMap, HashMap, HashSet};
use std::sync::atomic::{AtomicUsize, Ordering};
use std::sync::Mutex;
use std::time::{Duration, Instant};

use plonky2::field::types::{Field, PrimeField64};
use plonky2::iop::target::Target;
use plonky2::iop::witness::{PartialWitness, WitnessWrite};
use plonky2::plonk::circuit_builder::CircuitBuilder;
use plonky2::plonk::circuit_data::{CircuitConfig, CircuitData, VerifierCircuitData};
use plonky2::plonk::proof::ProofWithPublicInputs;
use qp_wormhole_inputs::BytesDigest;
use serde_json::{json, Value};
use vharness::mcx::*;
use wormhole_aggregator::pool::{BatchKey, PoolLimits, ProofPool};
use wormhole_aggregator::private_batch::circuit::constants::aggregated_output as layout;
use wormhole_aggregator::public_batch::prover::lib::verif_preflight;
use wormhole_aggregator::verif_hooks as vh;
use zk_circuits_common::circuit::{C, D, F};

type Proof = ProofWithPublicInputs<F, C, D>;

// ---------------------------------------------------------------------------------
// Fixed parameters of the exploration
// ---------------------------------------------------------------------------------

/// Documented private-batch public-input layout for 2 leaves, written out independently of
/// the repo constants (asserted equal at start-up).
const NUM_LEAVES: usize = 2;
const PI_LEN: usize = 50;
const OFF_NUM_EXIT_SLOTS: usize = 0;
const OFF_ASSET: usize = 1;
const OFF_FEE: usize = 2;
const OFF_BLOCK_HASH: usize = 3;
const OFF_BLOCK_NUMBER: usize = 7;
const OFF_EXIT_SLOTS: usize = 8;
const EXIT_SLOT_LEN: usize = 5;
const NUM_EXIT_SLOTS: usize = 4;
const OFF_NULLIFIERS: usize = 28;

const BATCH: usize = 2;
/// Half a verification window: the time unit of the exploration. W = 2 units.
const HALF: Duration = Duration::from_secs(30);
const W_UNITS: u64 = 2;
const AGE_CAP: u64 = 3;

const P19: usize = 0;
const P20: usize = 1;
const P21: usize = 2;
const P22: usize = 3;
const PROPS: [&str; 4] = ["C19", "C20", "C21", "C22"];

/// (max_proofs, max_buckets, budget)
const SETTINGS: [(usize, usize, usize); 4] = [(3, 2, 2), (2, 1, 3), (4, 3, 1), (3, 2, 64)];

// ---------------------------------------------------------------------------------
// Alphabet
// ---------------------------------------------------------------------------------

struct KeySpec {
    name: &'static str,
    block: [u64; 4],
    asset: u64,
    fee: u64,
}
const K1: usize = 0;
const K2: usize = 1;
const K3: usize = 2;
const K4: usize = 3;
const K0: usize = 4;
const K9: usize = 5;
const KEYS: [KeySpec; 6] = [
    KeySpec { name: "K1", block: [11, 12, 13, 14], asset: 0, fee: 10 },
    KeySpec { name: "K2", block: [21, 22, 23, 24], asset: 0, fee: 10 },
    KeySpec { name: "K3", block: [11, 12, 13, 14], asset: 1, fee: 10 },
    KeySpec { name: "K4", block: [41, 42, 43, 44], asset: 0, fee: 10 },
    KeySpec { name: "K0", block: [0, 0, 0, 0], asset: 0, fee: 10 },
    KeySpec { name: "K9", block: [91, 92, 93, 94], asset: 0, fee: 10 },
];

struct ProofSpec {
    name: &'static str,
    key: usize,
    nulls: [u64; 2],
    sums: [u64; 4],
    tamper: bool,
    pop: bool,
}
const B63: u64 = 1 << 63;
// nullifier seeds: a = 101/102, b = 111/112, f = 121/122, c = 131/132, d = 141/(a's first),
// h = 151/151, e = 161/162, g = 171/172
const A: usize = 0;
const B: usize = 1;
const FF: usize = 2;
const CC: usize = 3;
const DD: usize = 4;
const H: usize = 5;
const G: usize = 7;
const B_BAD: usize = 8;
const A_BAD: usize = 9;
const G_BAD: usize = 10;
const SPECS: [ProofSpec; 13] = [
    ProofSpec { name: "a", key: K1, nulls: [101, 102], sums: [B63, B63, 0, 0], tamper: false, pop: false },
    ProofSpec { name: "b", key: K1, nulls: [111, 112], sums: [B63, 5, 0, 0], tamper: false, pop: false },
    ProofSpec { name: "f", key: K1, nulls: [121, 122], sums: [B63, 7, 0, 0], tamper: false, pop: false },
    ProofSpec { name: "c", key: K2, nulls: [131, 132], sums: [100, 50, 0, 0], tamper: false, pop: false },
    ProofSpec { name: "d", key: K2, nulls: [141, 101], sums: [9, 0, 0, 0], tamper: false, pop: false },
    ProofSpec { name: "h", key: K1, nulls: [151, 151], sums: [1, 2, 3, 4], tamper: false, pop: false },
    ProofSpec { name: "e", key: K3, nulls: [161, 162], sums: [1 << 62, 0, 0, 1], tamper: false, pop: false },
    ProofSpec { name: "g", key: K4, nulls: [171, 172], sums: [70, 0, 0, 0], tamper: false, pop: false },
    ProofSpec { name: "b!", key: K1, nulls: [111, 112], sums: [B63, 5, 0, 0], tamper: true, pop: false },
    ProofSpec { name: "a!", key: K1, nulls: [101, 102], sums: [B63, B63, 0, 0], tamper: true, pop: false },
    ProofSpec { name: "g!", key: K4, nulls: [171, 172], sums: [70, 0, 0, 0], tamper: true, pop: false },
    ProofSpec { name: "s49", key: K1, nulls: [181, 182], sums: [1, 0, 0, 0], tamper: false, pop: true },
    ProofSpec { name: "z0", key: K0, nulls: [191, 192], sums: [1, 0, 0, 0], tamper: false, pop: false },
];

fn null_felts(seed: u64) -> [u64; 4] {
    [seed, seed + 1000, 7, 1]
}

/// 4 canonical field elements -> 32 bytes, 8 little-endian bytes per element (the documented
/// digest encoding), written independently of the repo helper.
fn digest_of(f: [u64; 4]) -> BytesDigest {
    let mut b = [0u8; 32];
    for i in 0..4 {
        b[i * 8..i * 8 + 8].copy_from_slice(&f[i].to_le_bytes());
    }
    BytesDigest::try_from(b).unwrap_or_else(|_| machinery_error("alphabet digest out of field range"))
}

struct AProof {
    name: &'static str,
    proof: Proof,
    pis: Vec<u64>,
    valid: bool,
    well_formed: bool,
    key_id: usize,
    dummy: bool,
    nulls: Vec<BytesDigest>,
    volume: u64,
}

#[derive(Clone, Copy, Debug)]
enum Op {
    Push(usize),
    Settle(usize),
    Expire(u64),
    Snap(usize),
    Remove(usize),
    Tick(u64),
}

struct Ctx {
    verifier: VerifierCircuitData<F, C, D>,
    alphabet: Vec<AProof>,
    by_pis: HashMap<Vec<u64>, usize>,
    keys: Vec<BatchKey>,
    settle_sets: Vec<(String, HashSet<BytesDigest>)>,
    ops: Vec<(String, Op)>,
    base: Instant,
    preflight_memo: Mutex<HashMap<Vec<u8>, Result<(), String>>>,
    preflight_real: AtomicUsize,
    preflight_hits: AtomicUsize,
}

fn build_circuit() -> (CircuitData<F, C, D>, Vec<Target>) {
    let config = CircuitConfig::standard_recursion_config();
    let mut builder = CircuitBuilder::<F, D>::new(config);
    let pis = builder.add_virtual_targets(PI_LEN);
    builder.range_check(pis[OFF_NUM_EXIT_SLOTS], 32);
    builder.register_public_inputs(&pis);
    (builder.build::<C>(), pis)
}

fn build_ctx() -> Ctx {
    // the harness's own layout numbers must be the repo's
    if layout::pi_len(NUM_LEAVES) != PI_LEN
        || layout::ASSET_ID_OFFSET != OFF_ASSET
        || layout::VOLUME_FEE_BPS_OFFSET != OFF_FEE
        || layout::BLOCK_HASH_OFFSET != OFF_BLOCK_HASH
        || layout::BLOCK_NUMBER_OFFSET != OFF_BLOCK_NUMBER
        || layout::exit_slots_start() != OFF_EXIT_SLOTS
        || layout::EXIT_SLOT_LEN != EXIT_SLOT_LEN
        || layout::exit_slots_count(NUM_LEAVES) != NUM_EXIT_SLOTS
        || layout::nullifiers_start(NUM_LEAVES) != OFF_NULLIFIERS
        || layout::nullifiers_count(NUM_LEAVES) != 2
    {
        machinery_error("private-batch public-input layout changed; the pool harness hard-codes the documented one");
    }
    for (i, n) in [(A, "a"), (B, "b"), (FF, "f"), (CC, "c"), (DD, "d"), (H, "h"), (G, "g"), (B_BAD, "b!"), (A_BAD, "a!"), (G_BAD, "g!")] {
        if SPECS[i].name != n {
            machinery_error("alphabet index constants out of step with SPECS");
        }
    }
    if KEYS[K3].name != "K3" || KEYS[K4].name != "K4" || KEYS[K9].name != "K9" {
        machinery_error("key index constants out of step with KEYS");
    }
    let (data, targets) = build_circuit();
    let keys: Vec<BatchKey> = KEYS
        .iter()
        .map(|k| BatchKey { block_hash: digest_of(k.block), asset_id: k.asset, volume_fee_bps: k.fee })
        .collect();
    let mut alphabet = Vec::new();
    for s in SPECS.iter() {
        let k = &KEYS[s.key];
        let mut v = vec![0u64; PI_LEN];
        v[OFF_NUM_EXIT_SLOTS] = NUM_EXIT_SLOTS as u64;
        v[OFF_ASSET] = k.asset;
        v[OFF_FEE] = k.fee;
        v[OFF_BLOCK_HASH..OFF_BLOCK_HASH + 4].copy_from_slice(&k.block);
        v[OFF_BLOCK_NUMBER] = 77;
        for i in 0..NUM_EXIT_SLOTS {
            v[OFF_EXIT_SLOTS + i * EXIT_SLOT_LEN] = s.sums[i];
            for j in 1..EXIT_SLOT_LEN {
                v[OFF_EXIT_SLOTS + i * EXIT_SLOT_LEN + j] = 500 + (i * 10 + j) as u64;
            }
        }
        for n in 0..2 {
            v[OFF_NULLIFIERS + n * 4..OFF_NULLIFIERS + n * 4 + 4].copy_from_slice(&null_felts(s.nulls[n]));
        }
        for (j, x) in v.iter_mut().enumerate().skip(OFF_NULLIFIERS + 8) {
            *x = 900 + j as u64;
        }
        let mut pw = PartialWitness::new();
        for (t, x) in targets.iter().zip(v.iter()) {
            pw.set_target(*t, F::from_canonical_u64(*x)).unwrap();
        }
        let mut proof = data.prove(pw).unwrap_or_else(|e| machinery_error(&format!("alphabet proof {} failed: {e}", s.name)));
        if s.tamper {
            // flips a public input that is neither key nor nullifier nor amount
            proof.public_inputs[OFF_BLOCK_NUMBER] = F::from_canonical_u64(78);
        }
        if s.pop {
            proof.public_inputs.pop();
        }
        let pis: Vec<u64> = proof.public_inputs.iter().map(|f| f.to_canonical_u64()).collect();
        let vol: u128 = s.sums.iter().map(|&x| x as u128).sum();
        alphabet.push(AProof {
            name: s.name,
            proof,
            pis,
            valid: !s.tamper && !s.pop,
            well_formed: !s.pop,
            key_id: s.key,
            dummy: s.key == K0,
            nulls: s.nulls.iter().map(|&n| digest_of(null_felts(n))).collect(),
            volume: vol.min(u64::MAX as u128) as u64,
        });
    }
    // alphabet sanity (machinery, not a verdict): validity flags are what the real verifier says
    let verifier = data.verifier_data();
    for a in &alphabet {
        let ok = a.well_formed && verifier.verify(a.proof.clone()).is_ok();
        if ok != a.valid {
            machinery_error(&format!("alphabet proof {}: verifier says {ok}, spec says {}", a.name, a.valid));
        }
    }
    let mut by_pis = HashMap::new();
    for (i, a) in alphabet.iter().enumerate() {
        if by_pis.insert(a.pis.clone(), i).is_some() {
            machinery_error("alphabet proofs must have pairwise distinct public inputs");
        }
    }
    let settle_sets: Vec<(String, HashSet<BytesDigest>)> = vec![
        ("a1".into(), [alphabet[A].nulls[0]].into_iter().collect()),
        ("b1,c1".into(), [alphabet[B].nulls[0], alphabet[CC].nulls[0]].into_iter().collect()),
        ("unknown".into(), [digest_of(null_felts(999))].into_iter().collect()),
        // both nullifiers of one proof plus a nullifier of the proof queued behind it in the same
        // bucket (a miner's own public batch settling): one proof is hit twice by one set
        ("a1,a2,b1".into(), [alphabet[A].nulls[0], alphabet[A].nulls[1], alphabet[B].nulls[0]].into_iter().collect()),
    ];
    let mut ops: Vec<(String, Op)> = Vec::new();
    for (i, a) in alphabet.iter().enumerate() {
        ops.push((format!("push:{}", a.name), Op::Push(i)));
    }
    for (i, s) in settle_sets.iter().enumerate() {
        ops.push((format!("settle:{{{}}}", s.0), Op::Settle(i)));
    }
    ops.push(("expire:0".into(), Op::Expire(0)));
    ops.push(("expire:W/2".into(), Op::Expire(1)));
    ops.push(("expire:W".into(), Op::Expire(2)));
    for k in [K1, K2, K9] {
        ops.push((format!("snap:{}", KEYS[k].name), Op::Snap(k)));
    }
    for k in [K1, K2] {
        ops.push((format!("rm:{}", KEYS[k].name), Op::Remove(k)));
    }
    ops.push(("tick:W/2".into(), Op::Tick(1)));
    ops.push(("tick:W".into(), Op::Tick(2)));
    vh::reset_clock();
    let base = vh::clock::Instant::now();
    Ctx {
        verifier,
        alphabet,
        by_pis,
        keys,
        settle_sets,
        ops,
        base,
        preflight_memo: Mutex::new(HashMap::new()),
        preflight_real: AtomicUsize::new(0),
        preflight_hits: AtomicUsize::new(0),
    }
}

fn op_kind(op: Op) -> &'static str {
    match op {
        Op::Push(_) => "push",
        Op::Settle(_) => "evict_settled",
        Op::Expire(_) => "evict_older_than",
        Op::Snap(_) => "snapshot_batch",
        Op::Remove(_) => "remove_bucket",
        Op::Tick(_) => "tick",
    }
}

fn set_clock(units: u64) {
    vh::reset_clock();
    vh::advance_clock(HALF * units as u32);
}

fn ns(units: u64) -> i128 {
    HALF.as_nanos() as i128 * units as i128
}

// ---------------------------------------------------------------------------------
// Reference model (deliberately naive)
// ---------------------------------------------------------------------------------

#[derive(Clone, Debug, PartialEq)]
struct MBucket {
    key: usize,
    proofs: Vec<(usize, u64)>, // (alphabet id, admission time in units), admission order
    snap: Option<u64>,
}
#[derive(Clone, Debug, PartialEq)]
struct Model {
    buckets: Vec<MBucket>, // creation order, never empty
    wstart: u64,
    wcount: usize,
}

#[derive(Clone, Copy, Debug, PartialEq)]
enum Rej {
    Full,
    Shape,
    Dummy,
    Budget,
    Invalid,
    BucketCap,
    Duplicate,
}

#[derive(Clone, Debug, PartialEq)]
enum Exp {
    Push(Result<usize, Rej>),
    Count(usize),
    Snap(Option<Vec<usize>>),
    Removed(Vec<usize>),
    Tick,
}

struct ModelOut {
    exp: Exp,
    calls: u64,
    reset: bool,
    /// push only: the bucket-cap or the duplicate-nullifier condition holds for this proof
    state_rule: bool,
    label: String,
    witnesses: Vec<&'static str>,
}

impl Model {
    fn new() -> Self {
        Model { buckets: vec![], wstart: 0, wcount: 0 }
    }
    fn len(&self) -> usize {
        self.buckets.iter().map(|b| b.proofs.len()).sum()
    }
    fn pooled_ids(&self) -> Vec<usize> {
        let mut v: Vec<usize> = self.buckets.iter().flat_map(|b| b.proofs.iter().map(|p| p.0)).collect();
        v.sort();
        v
    }
    fn nullifier_pooled(&self, ctx: &Ctx, n: &BytesDigest) -> bool {
        self.buckets.iter().any(|b| b.proofs.iter().any(|p| ctx.alphabet[p.0].nulls.contains(n)))
    }
    fn drop_empty(&mut self) {
        self.buckets.retain(|b| !b.proofs.is_empty());
    }
}

fn model_step(ctx: &Ctx, lim: (usize, usize, usize), m: &mut Model, now: &mut u64, op: Op) -> ModelOut {
    let mut w: Vec<&'static str> = vec![];
    match op {
        Op::Push(id) => {
            let a = &ctx.alphabet[id];
            let mut calls = 0;
            let mut reset = false;
            let mut state_rule = false;
            let r: Result<usize, Rej> = (|| {
                if m.len() >= lim.0 {
                    return Err(Rej::Full);
                }
                if !a.well_formed {
                    return Err(Rej::Shape);
                }
                if a.dummy {
                    return Err(Rej::Dummy);
                }
                let wage = *now - m.wstart;
                if wage >= W_UNITS {
                    if wage == W_UNITS {
                        w.push(if m.wcount >= lim.2 {
                            "window restarts at age exactly W with the budget exhausted"
                        } else {
                            "window restarts at age exactly W"
                        });
                    }
                    m.wstart = *now;
                    m.wcount = 0;
                    reset = true;
                }
                if m.wcount >= lim.2 {
                    w.push(if wage == 1 {
                        "budget exhausted at window age W/2: rejected without verifying"
                    } else {
                        "budget exhausted: rejected without verifying"
                    });
                    return Err(Rej::Budget);
                }
                m.wcount += 1;
                calls = 1;
                let key_present = m.buckets.iter().any(|b| b.key == a.key_id);
                let at_cap = !key_present && m.buckets.len() >= lim.1;
                let dup = a.nulls.iter().any(|n| m.nullifier_pooled(ctx, n));
                state_rule = at_cap || dup;
                if !a.valid {
                    if at_cap {
                        w.push("invalid proof with a novel key at the bucket cap: verified, charged, rejected as invalid");
                    }
                    if dup {
                        w.push("invalid proof reusing a pooled nullifier: verified, charged, rejected as invalid");
                    }
                    return Err(Rej::Invalid);
                }
                if at_cap {
                    return Err(Rej::BucketCap);
                }
                if dup {
                    if !m.nullifier_pooled(ctx, &a.nulls[0]) {
                        w.push("duplicate through the SECOND nullifier only (cross-bucket)");
                    }
                    return Err(Rej::Duplicate);
                }
                if id == H {
                    w.push("proof whose two nullifiers are equal admitted");
                }
                match m.buckets.iter_mut().find(|b| b.key == a.key_id) {
                    Some(b) => {
                        if b.proofs.len() >= BATCH {
                            w.push("bucket queues deeper than one batch");
                        }
                        b.proofs.push((id, *now))
                    }
                    None => m.buckets.push(MBucket { key: a.key_id, proofs: vec![(id, *now)], snap: None }),
                }
                Ok(a.key_id)
            })();
            let label = match &r {
                Ok(_) => "admitted".to_string(),
                Err(e) => format!("rejected:{e:?}"),
            };
            ModelOut { exp: Exp::Push(r), calls, reset, state_rule, label, witnesses: w }
        }
        Op::Settle(si) => {
            let set = &ctx.settle_sets[si].1;
            let mut n = 0;
            let mut touched = 0;
            for b in m.buckets.iter_mut() {
                let before = b.proofs.len();
                b.proofs.retain(|p| !ctx.alphabet[p.0].nulls.iter().any(|x| set.contains(x)));
                if b.proofs.len() != before {
                    touched += 1;
                    if si == 0 && b.key == K2 {
                        w.push("settlement evicts a proof through its SECOND nullifier");
                    }
                }
                n += before - b.proofs.len();
            }
            if touched >= 2 {
                w.push("one settlement set evicts from two buckets");
            }
            m.drop_empty();
            ModelOut { exp: Exp::Count(n), calls: 0, reset: false, state_rule: false, label: format!("evicted:{n}"), witnesses: w }
        }
        Op::Expire(age) => {
            let mut n = 0;
            for b in m.buckets.iter_mut() {
                let before = b.proofs.len();
                if b.proofs.iter().any(|p| *now - p.1 == age && age > 0) {
                    w.push("proof aged exactly max_age is kept by expiry");
                }
                b.proofs.retain(|p| !(*now - p.1 > age));
                if !b.proofs.is_empty() && b.proofs.len() != before {
                    w.push("expiry removes part of a bucket (per proof, not per bucket)");
                }
                n += before - b.proofs.len();
            }
            m.drop_empty();
            ModelOut { exp: Exp::Count(n), calls: 0, reset: false, state_rule: false, label: format!("expired:{n}"), witnesses: w }
        }
        Op::Snap(k) => {
            let r = m.buckets.iter_mut().find(|b| b.key == k).map(|b| {
                b.snap = Some(*now);
                if b.proofs.len() > BATCH {
                    w.push("snapshot of a bucket deeper than one batch returns the oldest two");
                }
                b.proofs.iter().take(BATCH).map(|p| p.0).collect::<Vec<_>>()
            });
            let label = match &r {
                None => "none".to_string(),
                Some(v) => format!("some:{}", v.len()),
            };
            ModelOut { exp: Exp::Snap(r), calls: 0, reset: false, state_rule: false, label, witnesses: w }
        }
        Op::Remove(k) => {
            let mut out = vec![];
            if let Some(pos) = m.buckets.iter().position(|b| b.key == k) {
                let b = m.buckets.remove(pos);
                out = b.proofs.iter().map(|p| p.0).collect();
            }
            let label = format!("removed:{}", out.len());
            ModelOut { exp: Exp::Removed(out), calls: 0, reset: false, state_rule: false, label, witnesses: w }
        }
        Op::Tick(d) => {
            *now += d;
            ModelOut { exp: Exp::Tick, calls: 0, reset: false, state_rule: false, label: "ok".into(), witnesses: w }
        }
    }
}

// ---------------------------------------------------------------------------------
// Observation of the implementation
// ---------------------------------------------------------------------------------

#[derive(Clone, Debug, PartialEq)]
struct ObsProof {
    id: Option<usize>,
    nulls: Vec<BytesDigest>,
    volume: u64,
    at_ns: i128,
}
#[derive(Clone, Debug, PartialEq)]
struct ObsBucket {
    key: BatchKey,
    proofs: Vec<ObsProof>,
    snap_ns: Option<i128>,
}
#[derive(Clone, Debug, PartialEq)]
struct ObsStat {
    key: BatchKey,
    num_proofs: usize,
    batch_size: usize,
    oldest_age_ns: u128,
    total_volume: u64,
    last_snapshot_age_ns: Option<u128>,
}
#[derive(Clone, Debug, PartialEq)]
struct Obs {
    buckets: Vec<ObsBucket>,
    index: Vec<(BytesDigest, BatchKey)>,
    wstart_ns: i128,
    wcount: usize,
    stats: Vec<ObsStat>,
    len: usize,
    num_buckets: usize,
    is_empty: bool,
}

fn inst_ns(ctx: &Ctx, i: Instant) -> i128 {
    match i.checked_duration_since(ctx.base) {
        Some(d) => d.as_nanos() as i128,
        None => -(ctx.base.duration_since(i).as_nanos() as i128),
    }
}

fn observe(ctx: &Ctx, pool: &ProofPool) -> Obs {
    let v = pool.verif_view();
    let mut buckets: Vec<ObsBucket> = v
        .buckets
        .iter()
        .map(|(k, ps, snap)| ObsBucket {
            key: *k,
            proofs: ps
                .iter()
                .map(|(pis, nulls, vol, at)| ObsProof {
                    id: ctx.by_pis.get(pis).copied(),
                    nulls: nulls.clone(),
                    volume: *vol,
                    at_ns: inst_ns(ctx, *at),
                })
                .collect(),
            snap_ns: snap.map(|s| inst_ns(ctx, s)),
        })
        .collect();
    buckets.sort_by(|a, b| a.key.cmp(&b.key));
    let mut index = v.nullifier_index.clone();
    index.sort();
    let mut stats: Vec<ObsStat> = pool
        .bucket_stats()
        .into_iter()
        .map(|s| ObsStat {
            key: s.key,
            num_proofs: s.num_proofs,
            batch_size: s.batch_size,
            oldest_age_ns: s.oldest_age.as_nanos(),
            total_volume: s.total_volume,
            last_snapshot_age_ns: s.last_snapshot_age.map(|d| d.as_nanos()),
        })
        .collect();
    stats.sort_by(|a, b| a.key.cmp(&b.key));
    Obs {
        buckets,
        index,
        wstart_ns: inst_ns(ctx, v.verify_window_started),
        wcount: v.verifies_in_window,
        stats,
        len: pool.len(),
        num_buckets: pool.num_buckets(),
        is_empty: pool.is_empty(),
    }
}

/// What the implementation must show for model state `m` at time `now`.
fn expected_obs(ctx: &Ctx, m: &Model, now: u64) -> Obs {
    let mut buckets: Vec<ObsBucket> = m
        .buckets
        .iter()
        .map(|b| ObsBucket {
            key: ctx.keys[b.key],
            proofs: b
                .proofs
                .iter()
                .map(|p| ObsProof {
                    id: Some(p.0),
                    nulls: ctx.alphabet[p.0].nulls.clone(),
                    volume: ctx.alphabet[p.0].volume,
                    at_ns: ns(p.1),
                })
                .collect(),
            snap_ns: b.snap.map(ns),
        })
        .collect();
    buckets.sort_by(|a, b| a.key.cmp(&b.key));
    let mut idx: BTreeMap<BytesDigest, BatchKey> = BTreeMap::new();
    for b in &m.buckets {
        for p in &b.proofs {
            for n in &ctx.alphabet[p.0].nulls {
                idx.insert(*n, ctx.keys[b.key]);
            }
        }
    }
    let mut stats: Vec<ObsStat> = m
        .buckets
        .iter()
        .map(|b| {
            let oldest = b.proofs.iter().map(|p| now - p.1).max().unwrap_or(0);
            let vol: u128 = b.proofs.iter().map(|p| ctx.alphabet[p.0].volume as u128).sum();
            ObsStat {
                key: ctx.keys[b.key],
                num_proofs: b.proofs.len(),
                batch_size: BATCH,
                oldest_age_ns: ns(oldest) as u128,
                total_volume: vol.min(u64::MAX as u128) as u64,
                last_snapshot_age_ns: b.snap.map(|s| ns(now - s) as u128),
            }
        })
        .collect();
    stats.sort_by(|a, b| a.key.cmp(&b.key));
    Obs {
        buckets,
        index: idx.into_iter().collect(),
        wstart_ns: ns(m.wstart),
        wcount: m.wcount,
        stats,
        len: m.len(),
        num_buckets: m.buckets.len(),
        is_empty: m.buckets.is_empty(),
    }
}

fn key_name(ctx: &Ctx, k: &BatchKey) -> String {
    match ctx.keys.iter().position(|x| x == k) {
        Some(i) => KEYS[i].name.to_string(),
        None => format!("{k:?}"),
    }
}

fn obs_json(ctx: &Ctx, o: &Obs) -> Value {
    let half = HALF.as_nanos() as f64;
    json!({
        "buckets": o.buckets.iter().map(|b| json!({
            "key": key_name(ctx, &b.key),
            "proofs": b.proofs.iter().map(|p| json!({
                "proof": p.id.map(|i| ctx.alphabet[i].name.to_string()).unwrap_or("?".into()),
                "admitted_at_half_windows": p.at_ns as f64 / half,
                "volume": p.volume,
            })).collect::<Vec<_>>(),
            "last_snapshot_at_half_windows": b.snap_ns.map(|s| s as f64 / half),
        })).collect::<Vec<_>>(),
        "nullifier_index_entries": o.index.len(),
        "nullifier_index": o.index.iter().map(|(n, k)| format!("{:02x}{:02x}..->{}", n[0], n[1], key_name(ctx, k))).collect::<Vec<_>>(),
        "window_start_half_windows": o.wstart_ns as f64 / half,
        "verifies_in_window": o.wcount,
        "bucket_stats": o.stats.iter().map(|s| json!({
            "key": key_name(ctx, &s.key), "num_proofs": s.num_proofs, "batch_size": s.batch_size,
            "oldest_age_half_windows": s.oldest_age_ns as f64 / half, "total_volume": s.total_volume,
            "last_snapshot_age_half_windows": s.last_snapshot_age_ns.map(|x| x as f64 / half),
        })).collect::<Vec<_>>(),
        "len": o.len, "num_buckets": o.num_buckets, "is_empty": o.is_empty,
    })
}

// ---------------------------------------------------------------------------------
// One transition: real operation + model + comparison
// ---------------------------------------------------------------------------------

#[derive(Clone)]
struct Node {
    pool: ProofPool,
    model: Model,
    now: u64,
    /// the implementation's verification window has already been reported as different from
    /// the model's (a C22 violation): from here on the window's (start, count) is not compared
    /// again, the model keeps its own fixed-window bookkeeping, and only results, verification
    /// calls and pool contents are compared. Never set on a tree without violations.
    wdiv: bool,
}

enum Got {
    Push(Result<BatchKey, String>),
    Count(usize),
    Snap(Option<Vec<Proof>>, Option<Result<(), String>>),
    Removed(Vec<Proof>),
    Tick,
}

struct StepOut {
    /// (property index, description). Empty = implementation and model agree on everything.
    mismatches: Vec<(usize, String)>,
    label: String,
    witnesses: Vec<&'static str>,
    obs: Option<Obs>,
    expected: Obs,
    got_text: String,
    exp_text: String,
    /// the only mismatch is the verification window's (start, count): the search goes on below
    /// this step (window no longer compared, see Node::wdiv) so that the consequences of a
    /// drifting window - pushes admitted or refused against the fixed-window budget rule - are
    /// attributed as well. Never set on a tree without violations.
    resynced: bool,
}

fn new_node(ctx: &Ctx, lim: (usize, usize, usize)) -> Node {
    set_clock(0);
    let limits = PoolLimits {
        max_proofs: lim.0,
        max_buckets: lim.1,
        max_verifies_per_window: lim.2,
        verify_window: HALF * W_UNITS as u32,
    };
    let pool = ProofPool::new(ctx.verifier.clone(), NUM_LEAVES, BATCH, limits)
        .unwrap_or_else(|e| machinery_error(&format!("ProofPool::new failed for {lim:?}: {e}")));
    Node { pool, model: Model::new(), now: 0, wdiv: false }
}

/// The real public-batch preflight on a snapshot. The preflight is a pure function of the
/// proof list (no pool state, no clock), so a list that is BITWISE a list already judged is
/// answered from the memo; every distinct list (and every list containing a proof that is not
/// bitwise one of the alphabet proofs) goes through the real function.
fn preflight(ctx: &Ctx, v: &[Proof]) -> Result<(), String> {
    let ids = ids_of(ctx, v);
    let memo_key: Option<Vec<u8>> = ids.iter().map(|i| i.map(|x| x as u8)).collect();
    if let Some(k) = &memo_key {
        if let Some(r) = ctx.preflight_memo.lock().unwrap().get(k) {
            ctx.preflight_hits.fetch_add(1, Ordering::Relaxed);
            return r.clone();
        }
    }
    ctx.preflight_real.fetch_add(1, Ordering::Relaxed);
    let r = verif_preflight(v, BATCH, &ctx.verifier).map_err(|e| e.to_string());
    if let Some(k) = memo_key {
        ctx.preflight_memo.lock().unwrap().insert(k, r.clone());
    }
    r
}

fn ids_of(ctx: &Ctx, v: &[Proof]) -> Vec<Option<usize>> {
    v.iter()
        .map(|p| {
            let pis: Vec<u64> = p.public_inputs.iter().map(|f| f.to_canonical_u64()).collect();
            // bitwise the admitted proof, not only the same public inputs
            ctx.by_pis.get(&pis).copied().filter(|&i| ctx.alphabet[i].proof == *p)
        })
        .collect()
}
fn names(ctx: &Ctx, v: &[Option<usize>]) -> String {
    let s: Vec<String> = v.iter().map(|i| i.map(|i| ctx.alphabet[i].name.to_string()).unwrap_or("?".into())).collect();
    format!("[{}]", s.join(","))
}
fn names_u(ctx: &Ctx, v: &[usize]) -> String {
    names(ctx, &v.iter().map(|&i| Some(i)).collect::<Vec<_>>())
}

fn step(ctx: &Ctx, lim: (usize, usize, usize), node: &mut Node, opi: usize) -> StepOut {
    let op = ctx.ops[opi].1;
    let pre = node.model.clone();
    let pre_now = node.now;
    let mut now = node.now;
    let mo = model_step(ctx, lim, &mut node.model, &mut now, op);

    set_clock(pre_now);
    let calls0 = vh::verify_calls();
    let pool = &mut node.pool;
    let got: Result<Got, String> = catch(|| match op {
        Op::Push(i) => Got::Push(pool.push(ctx.alphabet[i].proof.clone()).map_err(|e| e.to_string())),
        Op::Settle(s) => Got::Count(pool.evict_settled(&ctx.settle_sets[s].1)),
        Op::Expire(a) => Got::Count(pool.evict_older_than(HALF * a as u32)),
        Op::Snap(k) => {
            let r = pool.snapshot_batch(&ctx.keys[k]);
            let pf = r.as_ref().filter(|v| !v.is_empty()).map(|v| preflight(ctx, v));
            Got::Snap(r, pf)
        }
        Op::Remove(k) => Got::Removed(pool.remove_bucket(&ctx.keys[k])),
        Op::Tick(_) => Got::Tick,
    });
    let calls = vh::verify_calls() - calls0;
    node.now = now;
    set_clock(now);
    let obs: Result<Obs, String> = catch(|| observe(ctx, &node.pool));
    if inst_ns(ctx, vh::clock::Instant::now()) != ns(now) {
        machinery_error("virtual clock was disturbed during an operation (thread-local clock shared between tasks?)");
    }
    let expected = expected_obs(ctx, &node.model, now);

    let mut mm: Vec<(usize, String)> = vec![];
    let mut add = |p: usize, s: String| {
        if !mm.iter().any(|x| x.0 == p) {
            mm.push((p, s));
        }
    };
    let owner = match op {
        Op::Push(_) => P19,
        Op::Tick(_) => P20,
        _ => P21,
    };
    let exp_text = match &mo.exp {
        Exp::Push(Ok(k)) => format!("Ok({})", KEYS[*k].name),
        Exp::Push(Err(e)) => format!("Err({e:?})"),
        Exp::Count(n) => format!("{n}"),
        Exp::Snap(None) => "None".into(),
        Exp::Snap(Some(v)) => format!("Some({})", names_u(ctx, v)),
        Exp::Removed(v) => names_u(ctx, v),
        Exp::Tick => "-".into(),
    };
    let got_text = match &got {
        Err(p) => format!("panic: {p}"),
        Ok(Got::Push(Ok(k))) => format!("Ok({})", key_name(ctx, k)),
        Ok(Got::Push(Err(e))) => format!("Err(\"{}\")", e.chars().take(70).collect::<String>()),
        Ok(Got::Count(n)) => format!("{n}"),
        Ok(Got::Snap(None, _)) => "None".into(),
        Ok(Got::Snap(Some(v), _)) => format!("Some({})", names(ctx, &ids_of(ctx, v))),
        Ok(Got::Removed(v)) => names(ctx, &ids_of(ctx, v)),
        Ok(Got::Tick) => "-".into(),
    };

    let got = match got {
        Err(p) => {
            add(owner, format!("{} panicked: {p}", op_kind(op)));
            return StepOut { mismatches: mm, label: mo.label, witnesses: mo.witnesses, obs: obs.ok(), expected, got_text, exp_text, resynced: false };
        }
        Ok(g) => g,
    };
    let obs = match obs {
        Err(p) => {
            add(P20, format!("verif_view/bucket_stats/len panicked after {}: {p}", op_kind(op)));
            return StepOut { mismatches: mm, label: mo.label, witnesses: mo.witnesses, obs: None, expected, got_text, exp_text, resynced: false };
        }
        Ok(o) => o,
    };

    // ---- C20: invariants of the observed state on their own (no model involved) ----
    for s in invariants(ctx, lim, &obs, now) {
        add(P20, s);
    }

    // ---- C22 / C19: verification calls and window bookkeeping ----
    let mut expected = expected;
    if node.wdiv {
        expected.wstart_ns = obs.wstart_ns;
        expected.wcount = obs.wcount;
    }
    let win_ok = obs.wstart_ns == expected.wstart_ns && obs.wcount == expected.wcount;
    let mut window_only = false;
    let win_txt = format!(
        "window (start,count) expected ({},{}) observed ({},{}) [start in half-windows]",
        expected.wstart_ns as f64 / HALF.as_nanos() as f64,
        expected.wcount,
        obs.wstart_ns as f64 / HALF.as_nanos() as f64,
        obs.wcount
    );
    if let Exp::Push(r) = &mo.exp {
        if calls != mo.calls {
            match r {
                Err(Rej::Budget) => add(P22, format!("budget exhausted ({} of {} used in the window) but push performed {calls} verification(s)", pre.wcount, lim.2)),
                Err(Rej::Full) | Err(Rej::Shape) | Err(Rej::Dummy) => add(P19, format!("push performed {calls} verification(s) although the earlier rule {:?} rejects it", r.as_ref().err().unwrap())),
                _ => {
                    // not explained by a pool-state rule running early: only the budget can have rejected it
                    let stuck = mo.reset && !mo.state_rule && pre.wcount >= lim.2 && obs.wstart_ns == ns(pre.wstart) && obs.wcount == pre.wcount;
                    if calls == 0 && stuck {
                        add(P22, format!("a full window has elapsed since the window start (age {} half-windows) but the budget was not restored: push rejected without verifying", pre_now - pre.wstart));
                    } else if calls == 0 {
                        add(P19, format!("push must reach verification (no earlier rule rejects) but performed none; result {got_text}; {win_txt}"));
                    } else {
                        add(P22, format!("push performed {calls} verifications, expected {}", mo.calls));
                    }
                }
            }
        } else if !win_ok {
            add(P22, format!("after push: {win_txt}"));
            window_only = true;
        }
    } else {
        if calls != 0 {
            add(P22, format!("{} performed {calls} verification(s)", op_kind(op)));
        }
        if !win_ok {
            add(P22, format!("{} changed the verification window: {win_txt}", op_kind(op)));
            window_only = calls == 0;
        }
    }

    // ---- results ----
    match (&mo.exp, &got) {
        (Exp::Push(e), Got::Push(g)) => {
            let same = match (e, g) {
                (Ok(k), Ok(gk)) => ctx.keys[*k] == *gk,
                (Err(_), Err(_)) => true,
                _ => false,
            };
            if !same {
                add(P19, format!("push result: expected {exp_text}, observed {got_text}"));
            }
        }
        (Exp::Count(e), Got::Count(g)) => {
            if e != g {
                add(P21, format!("{} reported {g} removed proofs, exactly {e} are targeted", op_kind(op)));
            }
        }
        (Exp::Snap(e), Got::Snap(g, pf)) => {
            let gi = g.as_ref().map(|v| ids_of(ctx, v));
            let ei = e.as_ref().map(|v| v.iter().map(|&i| Some(i)).collect::<Vec<_>>());
            if gi != ei {
                add(P21, format!("snapshot must be the oldest min(len,{BATCH}) proofs in admission order: expected {exp_text}, observed {got_text}"));
            }
            if let Some(Err(e)) = pf {
                add(P21, format!("public-batch preflight refuses the snapshot {got_text}: {e}"));
            }
        }
        (Exp::Removed(e), Got::Removed(g)) => {
            let gi = ids_of(ctx, g);
            let ei: Vec<Option<usize>> = e.iter().map(|&i| Some(i)).collect();
            if gi != ei {
                add(P21, format!("remove_bucket must return exactly the bucket's proofs: expected {exp_text}, observed {got_text}"));
            }
        }
        (Exp::Tick, Got::Tick) => {}
        _ => machinery_error("model and implementation executed different operation kinds"),
    }

    // ---- pooled contents ----
    let pre_ids = pre.pooled_ids();
    let exp_ids = node.model.pooled_ids();
    let mut obs_ids: Vec<Option<usize>> = obs.buckets.iter().flat_map(|b| b.proofs.iter().map(|p| p.id)).collect();
    obs_ids.sort();
    let diff = |a: &[Option<usize>], b: &[Option<usize>]| -> Vec<Option<usize>> {
        let mut b = b.to_vec();
        let mut out = vec![];
        for x in a {
            match b.iter().position(|y| y == x) {
                Some(p) => {
                    b.remove(p);
                }
                None => out.push(*x),
            }
        }
        out
    };
    let some = |v: &[usize]| v.iter().map(|&i| Some(i)).collect::<Vec<_>>();
    let (pre_s, exp_s) = (some(&pre_ids), some(&exp_ids));
    let lost_obs = diff(&pre_s, &obs_ids);
    let lost_exp = diff(&pre_s, &exp_s);
    let gained_obs = diff(&obs_ids, &pre_s);
    let gained_exp = diff(&exp_s, &pre_s);
    let strip = |bs: &[ObsBucket]| -> Vec<(BatchKey, Vec<ObsProof>)> { bs.iter().map(|b| (b.key, b.proofs.clone())).collect() };
    let same_proofs = lost_obs == lost_exp && gained_obs == gained_exp;
    if lost_obs != lost_exp {
        add(P21, format!("{} {}: pooled proofs that left the pool {} but exactly {} may leave", op_kind(op), ctx.ops[opi].0, names(ctx, &lost_obs), names(ctx, &lost_exp)));
    }
    if gained_obs != gained_exp {
        let p = if matches!(op, Op::Push(_)) { P19 } else { P20 };
        add(p, format!("{}: proofs that entered the pool {} expected {}", ctx.ops[opi].0, names(ctx, &gained_obs), names(ctx, &gained_exp)));
    }
    if let Exp::Push(Err(_)) = &mo.exp {
        if obs.buckets != expected.buckets || obs.index != expected.index {
            add(P19, "a rejected push changed the pool beyond the budget counter".to_string());
        }
    }
    // ---- placement, order, ages, snapshot marks, index, statistics against the model. Only
    // when the pooled proofs are the expected ones: otherwise these are consequences of the
    // mismatch already attributed above (the C20 invariants on the observed state alone were
    // checked unconditionally). ----
    if same_proofs {
        if strip(&obs.buckets) != strip(&expected.buckets) {
            add(P20, "pooled contents (bucket of each proof, admission order, admission time, stored nullifiers, stored volume) differ from the reference model".to_string());
        }
        let snaps = |bs: &[ObsBucket]| -> Vec<(BatchKey, Option<i128>)> { bs.iter().map(|b| (b.key, b.snap_ns)).collect() };
        if snaps(&obs.buckets) != snaps(&expected.buckets) {
            add(P20, "last-snapshot instants differ from the reference model".to_string());
        }
        if obs.index != expected.index {
            add(P20, format!("nullifier index has {} entries, the pooled proofs have {} distinct nullifiers (or a mapping differs)", obs.index.len(), expected.index.len()));
        }
        if obs.stats != expected.stats {
            add(P20, format!("bucket_stats differ from the statistics recomputed from the pooled contents: expected {:?} observed {:?}", stat_txt(ctx, &expected.stats), stat_txt(ctx, &obs.stats)));
        }
        if (obs.len, obs.num_buckets, obs.is_empty) != (expected.len, expected.num_buckets, expected.is_empty) {
            add(P20, format!("len/num_buckets/is_empty = {:?}, expected {:?}", (obs.len, obs.num_buckets, obs.is_empty), (expected.len, expected.num_buckets, expected.is_empty)));
        }
    }
    // nothing may be left unexplained: the full observation must equal the expectation
    if mm.is_empty() && obs != expected {
        machinery_error("observation differs from the model in a component no check covers");
    }
    let mut resynced = false;
    if mm.len() == 1 && window_only {
        node.wdiv = true;
        resynced = true;
    }
    StepOut { mismatches: mm, label: mo.label, witnesses: mo.witnesses, obs: Some(obs), expected, got_text, exp_text, resynced }
}

fn stat_txt(ctx: &Ctx, s: &[ObsStat]) -> Vec<String> {
    let half = HALF.as_nanos() as f64;
    s.iter()
        .map(|x| {
            format!(
                "{}:n={},batch={},oldest={},vol={},snap_age={:?}",
                key_name(ctx, &x.key),
                x.num_proofs,
                x.batch_size,
                x.oldest_age_ns as f64 / half,
                x.total_volume,
                x.last_snapshot_age_ns.map(|a| a as f64 / half)
            )
        })
        .collect()
}

/// C20 stated on the observed state alone.
fn invariants(ctx: &Ctx, lim: (usize, usize, usize), o: &Obs, now: u64) -> Vec<String> {
    let mut out = vec![];
    let mut want: BTreeMap<BytesDigest, BatchKey> = BTreeMap::new();
    let mut owners: BTreeMap<BytesDigest, usize> = BTreeMap::new();
    let mut total = 0usize;
    for b in &o.buckets {
        if b.proofs.is_empty() {
            out.push(format!("bucket {} is empty", key_name(ctx, &b.key)));
        }
        for p in &b.proofs {
            total += 1;
            match p.id {
                None => out.push("a pooled proof is none of the pushed proofs".to_string()),
                Some(i) => {
                    let a = &ctx.alphabet[i];
                    if ctx.keys[a.key_id] != b.key {
                        out.push(format!("proof {} sits in bucket {} but its key is {}", a.name, key_name(ctx, &b.key), KEYS[a.key_id].name));
                    }
                    if p.nulls != a.nulls {
                        out.push(format!("stored nullifiers of {} are not the nullifiers in its public inputs", a.name));
                    }
                    if p.volume != a.volume {
                        out.push(format!("stored volume of {} is {}, the saturating sum of its exit amounts is {}", a.name, p.volume, a.volume));
                    }
                    let mut seen: Vec<BytesDigest> = vec![];
                    for n in &a.nulls {
                        want.insert(*n, b.key);
                        if !seen.contains(n) {
                            seen.push(*n);
                            *owners.entry(*n).or_insert(0) += 1;
                        }
                    }
                }
            }
        }
    }
    if let Some((n, c)) = owners.iter().find(|(_, &c)| c > 1) {
        out.push(format!("{c} pooled proofs share nullifier {:02x}{:02x}..", n[0], n[1]));
    }
    let want: Vec<(BytesDigest, BatchKey)> = want.into_iter().collect();
    if owners.values().all(|&c| c == 1) && want != o.index {
        out.push(format!(
            "nullifier index ({} entries) is not exactly the pooled nullifiers mapped to their buckets ({} entries)",
            o.index.len(),
            want.len()
        ));
    }
    if total > lim.0 {
        out.push(format!("{total} proofs pooled, limit {}", lim.0));
    }
    if o.buckets.len() > lim.1 {
        out.push(format!("{} buckets, limit {}", o.buckets.len(), lim.1));
    }
    if o.len != total || o.num_buckets != o.buckets.len() || o.is_empty != o.buckets.is_empty() {
        out.push("len()/num_buckets()/is_empty() disagree with the pooled contents".to_string());
    }
    // statistics recomputed from the observed contents
    let now_ns = ns(now);
    let recomputed: Vec<ObsStat> = o
        .buckets
        .iter()
        .map(|b| {
            let vol: u128 = b.proofs.iter().map(|p| p.id.map(|i| ctx.alphabet[i].volume).unwrap_or(p.volume) as u128).sum();
            ObsStat {
                key: b.key,
                num_proofs: b.proofs.len(),
                batch_size: BATCH,
                oldest_age_ns: b.proofs.iter().map(|p| (now_ns - p.at_ns).max(0) as u128).max().unwrap_or(0),
                total_volume: vol.min(u64::MAX as u128) as u64,
                last_snapshot_age_ns: b.snap_ns.map(|s| (now_ns - s).max(0) as u128),
            }
        })
        .collect();
    if recomputed != o.stats {
        out.push(format!(
            "bucket_stats do not match the pooled contents: recomputed {:?} reported {:?}",
            stat_txt(ctx, &recomputed),
            stat_txt(ctx, &o.stats)
        ));
    }
    out
}

// ---------------------------------------------------------------------------------
// Canonical state
// ---------------------------------------------------------------------------------

fn canon(m: &Model, now: u64) -> Box<[u8]> {
    let mut bs: Vec<&MBucket> = m.buckets.iter().collect();
    bs.sort_by_key(|b| b.key);
    let mut v: Vec<u8> = Vec::with_capacity(24);
    for b in bs {
        v.push(0xF0 | b.key as u8);
        for p in &b.proofs {
            v.push(p.0 as u8);
            v.push((now - p.1).min(AGE_CAP) as u8);
        }
        v.push(match b.snap {
            None => 0xE0,
            Some(s) => 0xE1 + (now - s).min(AGE_CAP) as u8,
        });
    }
    v.push(0xFF);
    v.push((now - m.wstart).min(AGE_CAP) as u8);
    v.push(m.wcount as u8);
    v.into_boxed_slice()
}

fn canon_text(ctx: &Ctx, m: &Model, now: u64) -> String {
    let mut bs: Vec<&MBucket> = m.buckets.iter().collect();
    bs.sort_by_key(|b| b.key);
    let mut s = String::new();
    for b in bs {
        s.push_str(&format!(
            "{}[{}]snap={} ",
            KEYS[b.key].name,
            b.proofs.iter().map(|p| format!("{}@age{}", ctx.alphabet[p.0].name, (now - p.1).min(AGE_CAP))).collect::<Vec<_>>().join(","),
            b.snap.map(|x| format!("age{}", (now - x).min(AGE_CAP))).unwrap_or("never".into())
        ));
    }
    s.push_str(&format!("window(age{},count{})", (now - m.wstart).min(AGE_CAP), m.wcount));
    s
}

// ---------------------------------------------------------------------------------
// Parallel map on plain threads (the virtual clock and the call counter are thread-local;
// a worker runs one closure at a time and is never lent to another task meanwhile)
// ---------------------------------------------------------------------------------

fn par_map_threads<T: Send, R: Send>(items: Vec<T>, threads: usize, f: impl Fn(usize, T) -> R + Sync) -> Vec<R> {
    let n = items.len();
    let slots: Vec<Mutex<Option<T>>> = items.into_iter().map(|t| Mutex::new(Some(t))).collect();
    let out: Vec<Mutex<Option<R>>> = (0..n).map(|_| Mutex::new(None)).collect();
    let next = AtomicUsize::new(0);
    std::thread::scope(|s| {
        for _ in 0..threads.min(n.max(1)) {
            s.spawn(|| loop {
                let i = next.fetch_add(1, Ordering::Relaxed);
                if i >= n {
                    break;
                }
                let t = slots[i].lock().unwrap().take().unwrap();
                let r = f(i, t);
                *out[i].lock().unwrap() = Some(r);
            });
        }
    });
    out.into_iter().map(|m| m.into_inner().unwrap().expect("worker result")).collect()
}

// ---------------------------------------------------------------------------------
// Exploration of one limit setting
// ---------------------------------------------------------------------------------

struct FNode {
    hist: Vec<u8>,
    node: Option<Box<Node>>,
}

#[derive(Clone)]
struct Found {
    setting: usize,
    hist: Vec<u8>,
    prop: usize,
    what: String,
}

struct Child {
    op: u8,
    key: Box<[u8]>,
    node: Option<Box<Node>>,
}
struct Expanded {
    hist: Vec<u8>,
    children: Vec<Child>,
    found: Vec<(u8, usize, String)>,
    labels: Vec<(u8, String)>,
    witnesses: Vec<(u8, &'static str)>,
    executed: u64,
    replayed: u64,
}

fn hist_names(ctx: &Ctx, h: &[u8]) -> Vec<String> {
    h.iter().map(|&o| ctx.ops[o as usize].0.clone()).collect()
}
fn setting_name(si: usize) -> String {
    let s = SETTINGS[si];
    format!("limits(max_proofs={},max_buckets={},budget={})", s.0, s.1, s.2)
}
fn vkey(ctx: &Ctx, si: usize, h: &[u8]) -> String {
    format!("{}|{}", setting_name(si), hist_names(ctx, h).join(">"))
}

/// Re-execute a history from a fresh pool; every step is compared. Returns the node, or the
/// index of the first step with a mismatch and that step's output.
fn run_history(ctx: &Ctx, si: usize, hist: &[u8]) -> Result<Node, (usize, StepOut)> {
    let lim = SETTINGS[si];
    let mut node = new_node(ctx, lim);
    for (i, &o) in hist.iter().enumerate() {
        let so = step(ctx, lim, &mut node, o as usize);
        if !so.mismatches.is_empty() && !(so.resynced && i + 1 < hist.len()) {
            return Err((i, so));
        }
    }
    Ok(node)
}

fn expand(ctx: &Ctx, si: usize, f: FNode, visited: &HashSet<Box<[u8]>>, keep_nodes: bool) -> Expanded {
    let lim = SETTINGS[si];
    let mut replayed = 0;
    let parent: Box<Node> = match f.node {
        Some(n) => n,
        None => {
            replayed = f.hist.len() as u64;
            match run_history(ctx, si, &f.hist) {
                Ok(n) => Box::new(n),
                Err((i, so)) => machinery_error(&format!(
                    "history {} validated when first executed but diverged at step {i} on re-execution: {:?}",
                    vkey(ctx, si, &f.hist),
                    so.mismatches
                )),
            }
        }
    };
    set_clock(parent.now);
    let parent_obs = observe(ctx, &parent.pool);
    let parent_key = canon(&parent.model, parent.now);
    let mut out = Expanded { hist: f.hist, children: vec![], found: vec![], labels: vec![], witnesses: vec![], executed: 0, replayed };
    let mut work: Option<Box<Node>> = None;
    for opi in 0..ctx.ops.len() {
        let mut child = work.take().unwrap_or_else(|| parent.clone());
        let so = step(ctx, lim, &mut child, opi);
        out.executed += 1;
        out.labels.push((opi as u8, so.label.clone()));
        for w in &so.witnesses {
            out.witnesses.push((opi as u8, *w));
        }
        if !so.mismatches.is_empty() {
            for (p, s) in &so.mismatches {
                out.found.push((opi as u8, *p, s.clone()));
            }
            if !so.resynced {
                continue; // model and implementation have diverged: nothing below is meaningful
            }
        }
        let key = canon(&child.model, child.now);
        // a step that diverged in the window only (resynced) is never "unchanged": the model moved even
        // if the implementation's observable state did not (e.g. a verification it failed to count); below
        // such a step (wdiv) the model's window runs on its own, so observations no longer stand for the key
        let unchanged = so.mismatches.is_empty() && !child.wdiv && child.now == parent.now && so.obs.as_ref() == Some(&parent_obs);
        if unchanged {
            // the complete private state equals the parent's: the clone can serve the next operation
            if key != parent_key {
                machinery_error("identical observations with different canonical states");
            }
            work = Some(child);
            continue;
        }
        if visited.contains(&key) {
            continue;
        }
        out.children.push(Child { op: opi as u8, key, node: if keep_nodes { Some(child) } else { None } });
    }
    out
}

#[derive(Default)]
struct SettingResult {
    level_states: Vec<u64>,
    states: u64,
    executed: u64,
    replayed: u64,
    depth_completed: usize,
    depth_target: usize,
    capped: bool,
    wall: f64,
    labels: BTreeMap<(String, String), u64>,
    by_op: BTreeMap<(String, String), u64>,
    witnesses: BTreeMap<&'static str, (u64, Vec<u8>)>,
    found: Vec<Found>,
    state_hashes: Vec<u64>,
    det_samples: Vec<Vec<u8>>,
}

/// Resumable level-synchronous search of one limit setting. The four settings are advanced
/// one level at a time in turn, so that a wall-clock cap leaves all of them covered to the
/// same depth (give or take the level in progress).
struct Explorer {
    si: usize,
    visited: HashSet<Box<[u8]>>,
    frontier: Vec<FNode>,
    cached: usize, // pooled proofs kept alive in `frontier`
    seen_states: usize,
    res: SettingResult,
}

impl Explorer {
    fn new(ctx: &Ctx, si: usize, depth: usize) -> Self {
        let init = new_node(ctx, SETTINGS[si]);
        let mut res = SettingResult { depth_target: depth, ..Default::default() };
        let mut visited: HashSet<Box<[u8]>> = HashSet::new();
        let k0 = canon(&init.model, 0);
        res.state_hashes.push(hash64(&(si, &k0)));
        visited.insert(k0);
        res.level_states.push(1);
        Explorer { si, visited, frontier: vec![FNode { hist: vec![], node: Some(Box::new(init)) }], cached: 1, seen_states: 1, res }
    }
    fn finished(&self) -> bool {
        self.res.capped || self.res.depth_completed >= self.res.depth_target
    }
    /// Expand every state of the current frontier with every operation.
    fn advance(&mut self, ctx: &Ctx, deadline: Instant, threads: usize, cache_budget: usize, det_every: usize) {
        const CHUNK: usize = 256;
        let t0 = Instant::now();
        let si = self.si;
        let mut next: Vec<FNode> = vec![];
        let mut cached = 0usize;
        let frontier = std::mem::take(&mut self.frontier);
        self.cached = 0;
        let mut it = frontier.into_iter().peekable();
        let res = &mut self.res;
        while it.peek().is_some() {
            let chunk: Vec<FNode> = it.by_ref().take(CHUNK).collect();
            let keep = cached < cache_budget;
            let vis = &self.visited;
            let outs = par_map_threads(chunk, threads, |_, f| expand(ctx, si, f, vis, keep));
            for e in outs {
                res.executed += e.executed;
                res.replayed += e.replayed;
                for (o, l) in e.labels {
                    let op = ctx.ops[o as usize].1;
                    *res.labels.entry((op_kind(op).to_string(), l.clone())).or_insert(0) += 1;
                    *res.by_op.entry((ctx.ops[o as usize].0.clone(), l)).or_insert(0) += 1;
                }
                for (o, w) in e.witnesses {
                    let ent = res.witnesses.entry(w).or_insert_with(|| {
                        let mut h = e.hist.clone();
                        h.push(o);
                        (0, h)
                    });
                    ent.0 += 1;
                }
                for (o, p, what) in e.found {
                    let mut h = e.hist.clone();
                    h.push(o);
                    res.found.push(Found { setting: si, hist: h, prop: p, what });
                }
                for c in e.children {
                    if self.visited.contains(&c.key) {
                        continue;
                    }
                    res.state_hashes.push(hash64(&(si, &c.key)));
                    self.visited.insert(c.key);
                    let mut h = e.hist.clone();
                    h.push(c.op);
                    if self.seen_states % det_every == 0 {
                        res.det_samples.push(h.clone());
                    }
                    self.seen_states += 1;
                    let node = match c.node {
                        Some(n) if cached < cache_budget => {
                            cached += n.model.len() + 1;
                            Some(n)
                        }
                        _ => None,
                    };
                    next.push(FNode { hist: h, node });
                }
            }
            // keep only the smallest few findings (shortest history first)
            if res.found.len() > 4000 {
                res.found.sort_by(|a, b| (a.hist.len(), &a.hist, a.prop).cmp(&(b.hist.len(), &b.hist, b.prop)));
                res.found.truncate(400);
            }
            if Instant::now() > deadline && it.peek().is_some() {
                // level left incomplete: what was executed stays counted, the depth does not
                res.capped = true;
                res.states = self.visited.len() as u64;
                res.wall += t0.elapsed().as_secs_f64();
                return;
            }
        }
        res.depth_completed += 1;
        res.level_states.push(next.len() as u64);
        res.states = self.visited.len() as u64;
        res.wall += t0.elapsed().as_secs_f64();
        self.frontier = next;
        self.cached = cached;
    }
}

/// Plain breadth-first search that re-executes every history from a fresh pool (no cloning,
/// no cached pools): cross-check of the clone-based search.
fn plain_bfs(ctx: &Ctx, si: usize, depth: usize, threads: usize) -> (Vec<u64>, u64) {
    let mut visited: HashSet<Box<[u8]>> = HashSet::new();
    visited.insert(canon(&Model::new(), 0));
    let mut frontier: Vec<Vec<u8>> = vec![vec![]];
    let mut levels = vec![1u64];
    let mut histories = 0u64;
    for _ in 0..depth {
        let outs = par_map_threads(frontier, threads, |_, h| {
            let mut v = vec![];
            for o in 0..ctx.ops.len() {
                let mut hh = h.clone();
                hh.push(o as u8);
                if let Ok(n) = run_history(ctx, si, &hh) {
                    v.push((hh, canon(&n.model, n.now)));
                }
            }
            v
        });
        let mut next = vec![];
        for v in outs {
            for (h, k) in v {
                histories += 1;
                if visited.insert(k) {
                    next.push(h);
                }
            }
        }
        levels.push(next.len() as u64);
        frontier = next;
    }
    (levels, histories)
}

/// Execute a history twice from scratch; the complete observations must be identical.
fn trace_of(ctx: &Ctx, si: usize, hist: &[u8]) -> String {
    let lim = SETTINGS[si];
    let mut node = new_node(ctx, lim);
    let mut s = String::new();
    for &o in hist {
        let so = step(ctx, lim, &mut node, o as usize);
        s.push_str(&format!("{}|{}|{:?}|{:?}\n", so.got_text, so.label, so.obs, so.mismatches));
    }
    s
}

fn main() {
    quiet_panics();
    let tier = tier_from_args();
    let thorough = tier == "thorough";
    let only = arg_value("--property");
    if let Some(p) = &only {
        if !PROPS.contains(&p.as_str()) {
            machinery_error(&format!("pool decides C19, C20, C21, C22; got {p}"));
        }
    }
    let threads: usize = std::env::var("VERIF_THREADS").ok().and_then(|s| s.parse().ok()).unwrap_or_else(|| {
        std::thread::available_parallelism().map(|n| n.get()).unwrap_or(8).min(16)
    });
    let reps: Vec<Report> = PROPS.iter().map(|p| Report::new(p, "model_checking", &tier)).collect();
    let t_start = Instant::now();
    let ctx = build_ctx();
    let setup_s = t_start.elapsed().as_secs_f64();

    // --replay <file>: re-execute one recorded history (no exploration) on a fresh real pool
    // against the reference model and report the first mismatching step.
    if let Some(path) = arg_value("--replay") {
        let v: serde_json::Value = serde_json::from_str(&std::fs::read_to_string(&path).unwrap_or_else(|e| machinery_error(&format!("replay file {path}: {e}")))).unwrap_or_else(|e| machinery_error(&format!("replay file {path}: {e}")));
        let key = v["key"].as_str().unwrap_or_else(|| machinery_error("replay file has no key"));
        let (sname, ops) = key.split_once('|').unwrap_or_else(|| machinery_error("replay key is not <limits>|<op>>...>"));
        let si = (0..SETTINGS.len()).find(|&i| setting_name(i) == sname).unwrap_or_else(|| machinery_error(&format!("unknown limit setting {sname}")));
        let hist: Vec<u8> = ops
            .split('>')
            .filter(|s| !s.is_empty())
            .map(|n| ctx.ops.iter().position(|(name, _)| name == n).unwrap_or_else(|| machinery_error(&format!("unknown operation {n}"))) as u8)
            .collect();
        println!("replaying {} steps under {sname}", hist.len());
        match run_history(&ctx, si, &hist) {
            Ok(_) => {
                println!("history conforms to the reference model at every step (no violation)");
                std::process::exit(0);
            }
            Err((i, so)) => {
                println!("step {i} ({}): expected {} observed {}", ctx.ops[hist[i] as usize].0, so.exp_text, so.got_text);
                for (p, s) in &so.mismatches {
                    println!("  {}: {}", PROPS[*p], s);
                }
                let prop = v["property"].as_str().unwrap_or("?");
                println!("VIOLATION property={prop} replay={path}");
                std::process::exit(1);
            }
        }
    }

    // depth targets and wall budget
    let depth_override: Option<usize> = arg_value("--depth").and_then(|s| s.parse().ok());
    let depths: [usize; 4] = match (depth_override, thorough) {
        (Some(d), _) => [d; 4],
        (None, false) => [5, 5, 5, 5],
        (None, true) => [9, 9, 9, 9],
    };
    let total_budget = Duration::from_secs_f64(
        arg_value("--seconds").and_then(|s| s.parse().ok()).unwrap_or(if thorough { 450.0 } else { 34.0 }),
    );
    let cache_proofs: usize = 60_000; // pooled proofs kept alive in the BFS frontiers (~76 kB each)
    let det_every = if thorough { 100 } else { 400 };

    // determinism of the very first executions (start-up self-check, §2.8)
    {
        let first: Vec<Vec<u8>> = vec![vec![0, 4, 13, 19, 8, 23, 0], vec![3, 4, 0, 22, 16, 20, 21], vec![1, 2, 5, 19, 17, 12, 11]];
        for h in &first {
            for si in 0..SETTINGS.len() {
                if trace_of(&ctx, si, h) != trace_of(&ctx, si, h) {
                    machinery_error("the same history produced different observations twice (uncontrolled nondeterminism)");
                }
            }
        }
    }

    // the four settings advance level by level in turn under one wall-clock deadline
    let deadline = Instant::now() + total_budget;
    // (the budget-64 setting has the widest levels: one level less is guaranteed there)
    let guaranteed_depth: [usize; 4] = if depth_override.is_some() { [usize::MAX; 4] } else if thorough { [6, 6, 6, 6] } else { [5, 5, 5, 4] };
    let mut explorers: Vec<Explorer> = (0..SETTINGS.len()).map(|si| Explorer::new(&ctx, si, depths[si])).collect();
    for level in 0..*depths.iter().max().unwrap() {
        for si in 0..explorers.len() {
            if explorers[si].finished() || explorers[si].res.depth_completed != level {
                continue;
            }
            // the wall-clock cap never cuts the guaranteed depth (so that what the quick tier
            // covers does not depend on machine load); deeper levels run while time remains
            let dl = if level < guaranteed_depth[si] { Instant::now() + Duration::from_secs(86_400) } else { deadline };
            if Instant::now() > dl {
                explorers[si].res.capped = true;
                continue;
            }
            let others: usize = explorers.iter().enumerate().filter(|(j, _)| *j != si).map(|(_, e)| e.cached).sum();
            let budget = cache_proofs.saturating_sub(others);
            explorers[si].advance(&ctx, dl, threads, budget, det_every);
        }
    }
    let results: Vec<SettingResult> = explorers.into_iter().map(|e| e.res).collect();
    for (si, r) in results.iter().enumerate() {
        eprintln!(
            "[pool] {} depth {}/{} states {} (new per depth {:?}) transitions {} (+{} replayed) findings {} wall {:.1}s{}",
            setting_name(si),
            r.depth_completed,
            r.depth_target,
            r.states,
            r.level_states,
            r.executed,
            r.replayed,
            r.found.len(),
            r.wall,
            if r.capped { " TIME-CAP" } else { "" }
        );
    }

    // determinism: a sample of histories executed twice from scratch
    let mut det_checked = 0u64;
    for (si, r) in results.iter().enumerate() {
        let samples: Vec<Vec<u8>> = r.det_samples.iter().take(if thorough { 4000 } else { 200 }).cloned().collect();
        det_checked += samples.len() as u64;
        let bad = par_map_threads(samples, threads, |_, h| trace_of(&ctx, si, &h) != trace_of(&ctx, si, &h));
        if bad.iter().any(|&b| b) {
            machinery_error("a history produced different observations when executed twice");
        }
    }

    // thorough: plain re-execute-from-scratch BFS must see the same graph
    let mut cross = json!("not run in the quick tier");
    if thorough {
        let d = 4.min(results[0].depth_completed);
        let (levels, histories) = plain_bfs(&ctx, 0, d, threads);
        let main_levels: Vec<u64> = results[0].level_states[..=d].to_vec();
        let main_trans: u64 = main_levels[..d].iter().sum::<u64>() * ctx.ops.len() as u64;
        if levels != main_levels || histories != main_trans {
            machinery_error(&format!(
                "clone-based search and plain re-execution disagree: states per level {main_levels:?} vs {levels:?}, transitions {main_trans} vs {histories}"
            ));
        }
        cross = json!({"setting": setting_name(0), "depth": d, "states_per_level": levels, "histories_re_executed": histories, "agrees": true});
    }

    // ---- violations: shortest histories first, each reproduced from scratch ----
    let mut found: Vec<Found> = results.iter().flat_map(|r| r.found.iter().cloned()).collect();
    found.sort_by(|a, b| (a.hist.len(), a.setting, &a.hist, a.prop).cmp(&(b.hist.len(), b.setting, &b.hist, b.prop)));
    let mut per_prop = [0usize; 4];
    for f in &found {
        if per_prop[f.prop] >= 5 {
            continue;
        }
        per_prop[f.prop] += 1;
        let key = vkey(&ctx, f.setting, &f.hist);
        match run_history(&ctx, f.setting, &f.hist) {
            Ok(_) => machinery_error(&format!("mismatch did not reproduce on re-execution: {key}: {}", f.what)),
            Err((i, so)) => {
                if i + 1 != f.hist.len() || !so.mismatches.iter().any(|(p, s)| *p == f.prop && *s == f.what) {
                    machinery_error(&format!("mismatch reproduced differently on re-execution: {key}: {} vs step {i} {:?}", f.what, so.mismatches));
                }
                let case = json!({
                    "engine": "SM (explicit-state, real ProofPool vs reference model)",
                    "limits": {"max_proofs": SETTINGS[f.setting].0, "max_buckets": SETTINGS[f.setting].1, "max_verifies_per_window": SETTINGS[f.setting].2, "batch_size": BATCH, "window": "W = 2 half-windows"},
                    "ops": hist_names(&ctx, &f.hist),
                    "failing_step": i,
                    "expected_result": so.exp_text,
                    "observed_result": so.got_text,
                    "expected_state": obs_json(&ctx, &so.expected),
                    "observed_state": so.obs.as_ref().map(|o| obs_json(&ctx, o)),
                    "all_mismatches_of_this_step": so.mismatches.iter().map(|(p, s)| format!("{}: {}", PROPS[*p], s)).collect::<Vec<_>>(),
                });
                reps[f.prop].violation(&key, &format!("{} — history {}", f.what, key), case);
            }
        }
    }

    // ---- evidence ----
    let total_states: u64 = results.iter().map(|r| r.states).sum();
    let total_exec: u64 = results.iter().map(|r| r.executed + r.replayed).sum();
    let mut kinds: BTreeMap<String, BTreeMap<String, u64>> = BTreeMap::new();
    let mut by_op: BTreeMap<String, BTreeMap<String, u64>> = BTreeMap::new();
    let mut witness: BTreeMap<&'static str, (u64, usize, Vec<u8>)> = BTreeMap::new();
    for (si, r) in results.iter().enumerate() {
        for ((k, l), n) in &r.labels {
            *kinds.entry(k.clone()).or_default().entry(l.clone()).or_insert(0) += n;
        }
        for ((k, l), n) in &r.by_op {
            *by_op.entry(k.clone()).or_default().entry(l.clone()).or_insert(0) += n;
        }
        for (w, (n, h)) in &r.witnesses {
            let e = witness.entry(w).or_insert((0, si, h.clone()));
            e.0 += n;
        }
    }
    let per_setting: Vec<Value> = results
        .iter()
        .enumerate()
        .map(|(si, r)| {
            json!({
                "limits": setting_name(si),
                "depth_target": r.depth_target,
                "depth_fully_covered": r.depth_completed,
                "distinct_states": r.states,
                "new_states_per_depth": r.level_states,
                "transitions_expanded": r.executed,
                "transitions_replayed_to_rebuild_frontier_pools": r.replayed,
                "time_cap_hit": r.capped,
                "wall_s": (r.wall * 10.0).round() / 10.0,
            })
        })
        .collect();
    let min_depth = results.iter().map(|r| r.depth_completed).min().unwrap_or(0);
    let samples: Vec<Value> = witness
        .iter()
        .map(|(w, (n, si, h))| json!({"situation": w, "transitions_in_this_situation": n, "first_history": vkey(&ctx, *si, h)}))
        .collect();
    // two complete sample histories with every outcome
    let mut walk: Vec<Value> = vec![];
    for (si, r) in results.iter().enumerate().take(2) {
        if let Some(h) = r.det_samples.last() {
            let lim = SETTINGS[si];
            let mut node = new_node(&ctx, lim);
            let mut steps = vec![];
            for &o in h {
                let so = step(&ctx, lim, &mut node, o as usize);
                steps.push(format!("{} -> {} ({})", ctx.ops[o as usize].0, so.got_text, so.label));
            }
            walk.push(json!({"limits": setting_name(si), "history": steps, "final_state": canon_text(&ctx, &node.model, node.now)}));
        }
    }
    let clauses = [
        "C19: push result (Ok(key)/Err) = documented rule chain in order (full, PI length, zero block hash, budget, verify, bucket cap, duplicate nullifier); verification-call counter shows verify is reached iff no earlier rule rejects, so bucket-cap / duplicate rejections are only reached after a successful verification (invalid twins at the cap / with a pooled nullifier are charged and fail verification); a rejected push leaves buckets, index and snapshot marks unchanged",
        "C20: on every state, from verif_view alone: index = exactly the pooled nullifiers mapped to their bucket, no nullifier shared by two proofs, no empty bucket, every proof in the bucket of its key, stored nullifiers/volume = those of its public inputs, counts within limits, bucket_stats = recomputed (count, batch size, saturating volume in u128, oldest age, last-snapshot age), len/num_buckets/is_empty; plus equality with the reference model (admission order, exact admission and snapshot instants)",
        "C21: the set of pooled proofs shrinks only by evict_settled / evict_older_than / remove_bucket, by exactly the targeted proofs, and the reported number / returned proofs (bitwise) are those; snapshot_batch removes nothing and returns the oldest min(len,2) proofs in admission order, bitwise the admitted ones, and verif_preflight accepts every non-empty snapshot",
        "C22: verify is called at most `budget` times per fixed window, failed verifications are charged, the window (start,count) restarts only in a push that reaches the budget step with now-start >= W (exactly W included), an exhausted budget rejects with zero verify calls, no other operation touches the window or verifies",
    ];
    for (pi, rep) in reps.iter().enumerate() {
        rep.eval(total_exec);
        rep.states.store(total_states, Ordering::Relaxed);
        rep.transitions.store(total_exec, Ordering::Relaxed);
        rep.traces.store(total_exec, Ordering::Relaxed);
        rep.distinct_many(results.iter().flat_map(|r| r.state_hashes.iter().copied()));
        for r in results.iter().enumerate() {
            if r.1.capped {
                rep.cap_hit(&format!(
                    "time cap: {} fully covered to depth {} of {}",
                    setting_name(r.0),
                    r.1.depth_completed,
                    r.1.depth_target
                ));
            }
        }
        for s in samples.iter().take(10) {
            rep.sample(s.clone());
        }
        for w in &walk {
            rep.sample(w.clone());
        }
        rep.rule(&format!(
            "{}. distinct = distinct (limit setting, canonical pool state): sorted buckets of (proof id, age in half-windows capped at 3), last-snapshot age (capped), window age (capped) and count; every transition = one real ProofPool operation executed on a clone of the live pool and compared with the reference model before canonicalisation (exact ages)",
            clauses[pi]
        ));
        rep.assume("the pool's admission verifier is a 50-public-input circuit with free public inputs (private-batch layout for 2 leaves), not the real recursive private-batch circuit: the pool treats the verifier as a black box, and the verdict valid/invalid of each alphabet proof is the real plonky2 verifier's");
        rep.assume("time is the verif-hooks virtual clock; all durations are multiples of W/2, which puts executions below, exactly on and above every comparison in the code");
        rep.assume("verif_preflight is a pure function of the proof list: it is really executed once per distinct snapshot that is bitwise a list of admitted alphabet proofs (and on every snapshot that is not), other occurrences reuse that verdict");
        rep.assume("canonical-digest rejection is unreachable through ProofWithPublicInputs<F> (field elements are canonical by type) and is not exercised");
        rep.assume("states with equal canonical form are expanded once (ages above 3 half-windows are merged: every threshold in the menu is <= W = 2 half-windows)");
        rep.extra("per_setting", json!(per_setting));
        rep.extra("situations_reached", json!(samples));
        rep.extra("max_depth_fully_covered_all_settings", json!(min_depth));
        rep.extra("operations", json!(ctx.ops.iter().map(|o| o.0.clone()).collect::<Vec<_>>()));
        rep.extra("outcomes_per_operation_kind", json!(kinds));
        rep.extra("outcomes_per_operation", json!(by_op));
        rep.extra("determinism_histories_executed_twice", json!(det_checked));
        rep.extra("plain_bfs_cross_check", cross.clone());
        rep.extra(
            "preflight",
            json!({"non_empty_snapshots_checked": ctx.preflight_real.load(Ordering::Relaxed) + ctx.preflight_hits.load(Ordering::Relaxed),
                   "real_verif_preflight_calls (distinct bitwise proof lists, others answered from the memo of the pure function)": ctx.preflight_real.load(Ordering::Relaxed)}),
        );
        rep.extra("threads", json!(threads));
        rep.extra("setup_s", json!(setup_s));
        rep.extra(
            "alphabet",
            json!(ctx.alphabet.iter().map(|a| format!("{}: key {} valid={} pis={} volume={}", a.name, KEYS[a.key_id].name, a.valid, a.pis.len(), a.volume)).collect::<Vec<_>>()),
        );
    }
    let refs: Vec<&Report> = reps.iter().collect();
    let code = finish_all(&refs, only.as_deref());
    std::process::exit(code);
}
