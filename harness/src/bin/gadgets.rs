//! C30 (less-than gadget, bounded-target check) and C31 (digest sorting gadget): CX on
//! small circuits built around the real gadget functions; every input of the stated grids
//! x every hint deviation up to d.
use plonky2::iop::target::Target;
use plonky2::plonk::circuit_builder::CircuitBuilder;
use plonky2::plonk::circuit_data::{CircuitConfig, CircuitData};
use rayon::prelude::*;
use serde_json::json;
use std::sync::atomic::{AtomicU64, Ordering};
use vharness::cx::{f, Cx, Dev, Verdict, C, D, F, P};
use vharness::mcx::*;
use zk_circuits_common::gadgets::{enforce_target_less_than_const, is_const_less_than, sort_digests4};

fn cfg() -> CircuitConfig {
    CircuitConfig::standard_recursion_config()
}

fn build_lt(c: usize, w: usize) -> (CircuitData<F, C, D>, Target) {
    let mut b = CircuitBuilder::<F, D>::new(cfg());
    let x = b.add_virtual_target();
    let out = is_const_less_than(&mut b, c, x, w);
    b.register_public_input(out.target);
    (b.build::<C>(), x)
}
fn build_enforce(bound: usize, w: usize) -> (CircuitData<F, C, D>, Target) {
    let mut b = CircuitBuilder::<F, D>::new(cfg());
    let x = b.add_virtual_target();
    enforce_target_less_than_const(&mut b, x, bound, w);
    b.register_public_input(x);
    (b.build::<C>(), x)
}
fn build_sort(n: usize) -> (CircuitData<F, C, D>, Vec<[Target; 4]>) {
    let mut b = CircuitBuilder::<F, D>::new(cfg());
    let ins: Vec<[Target; 4]> = (0..n).map(|_| core::array::from_fn(|_| b.add_virtual_target())).collect();
    let outs = sort_digests4(&mut b, ins.clone());
    for o in &outs {
        for t in o {
            b.register_public_input(*t);
        }
    }
    (b.build::<C>(), ins)
}

struct Counters {
    execs: AtomicU64,
    edges: AtomicU64,
    accepted_deviated: AtomicU64,
}

fn lt_elements(c: u64, w: usize, small: bool) -> Vec<u64> {
    let two32 = 1u64 << 32;
    let mut v: Vec<u64> = Vec::new();
    if small {
        v.extend(0..(1u64 << w) + 3);
        v.extend_from_slice(&[two32, 1 << 63, P - 2, P - 1]);
    } else {
        let top = if w == 64 { u64::MAX } else { (1u64 << w) - 1 };
        v.extend_from_slice(&[0, 1, 2, c.saturating_sub(1), c, c.saturating_add(1), top.saturating_sub(1), top, two32 - 3, two32 - 2, two32 - 1, two32, two32 + 1, 1 << 31, P - two32, P - 2, P - 1]);
        if w < 64 {
            v.push(1u64 << w);
            v.push((1u64 << w) + 1);
        }
        if w == 64 {
            v.extend_from_slice(&[1u64 << 63, (1u64 << 63) - 1, 0xFFFF_FFFE_FFFF_FFFF, 0xFFFF_FFFF_0000_0000]);
        }
    }
    for x in v.iter_mut() {
        *x %= P;
    }
    v.sort();
    v.dedup();
    v
}

fn main() {
    quiet_panics();
    let tier = tier_from_args();
    let thorough = tier == "thorough";
    let prop = arg_value("--property").unwrap_or_else(|| "C30".into());
    let code = match prop.as_str() {
        "C30" => c30(&tier, thorough),
        "C31" => c31(&tier, thorough),
        _ => machinery_error("gadgets: unknown property"),
    };
    std::process::exit(code);
}

fn c30(tier: &str, thorough: bool) -> i32 {
    let rep = Report::new("C30", "model_checking", tier);
    let cnt = Counters { execs: AtomicU64::new(0), edges: AtomicU64::new(0), accepted_deviated: AtomicU64::new(0) };
    let dmax = if thorough { 2 } else { 1 };
    // (width, constant) grid
    let mut grid: Vec<(usize, u64, bool)> = Vec::new();
    for w in 1..=6usize {
        for c in 0..(1u64 << w) {
            grid.push((w, c, true));
        }
    }
    for w in 7..=64usize {
        let top = if w == 64 { u64::MAX - 1 } else { (1u64 << w) - 1 };
        let mut cs = vec![0, 1, 1u64 << (w - 1), top - 1, top];
        if w >= 33 {
            cs.extend_from_slice(&[(1u64 << 32) - 1, 1u64 << 32]);
        }
        if w == 64 {
            cs.extend_from_slice(&[P - 1, P, 0xFFFF_FFFE_FFFF_FFFF]);
        }
        cs.sort();
        cs.dedup();
        for c in cs {
            grid.push((w, c, false));
        }
    }
    let n_circuits = AtomicU64::new(0);
    grid.par_iter().for_each(|&(w, c, small)| {
        let (data, x) = build_lt(c as usize, w);
        n_circuits.fetch_add(1, Ordering::Relaxed);
        let cx = Cx::new(&data);
        // d=2 is quadratic in the number of hint generators: keep it for widths whose circuit is small
        let d_here = if dmax == 2 && (w <= 8 || w == 32 || w == 33 || w == 63 || w == 64) { 2 } else { 1.min(dmax) };
        for xv in lt_elements(c, w, small) {
            let inputs = vec![(x, f(xv))];
            let in_range = w == 64 || xv < (1u64 << w);
            let want = if c < xv { 1 } else { 0 };
            let mut honest_acc = false;
            let n = cx.explore_devs(&inputs, &[], d_here, &mut |script: &[Dev], v: &Verdict| {
                cnt.edges.fetch_add(script.len() as u64, Ordering::Relaxed);
                let case = || json!({"gadget": "is_const_less_than", "width": w, "constant": c, "x": xv, "deviations": script.iter().map(|d| json!({"gen": d.gen, "id": cx.ids[d.gen], "alt": d.alt})).collect::<Vec<_>>()});
                match v {
                    Verdict::Accept { pis, .. } => {
                        if script.is_empty() {
                            honest_acc = true;
                        } else {
                            cnt.accepted_deviated.fetch_add(1, Ordering::Relaxed);
                        }
                        if !in_range {
                            rep.violation(&format!("lt-range:{w}:{c}:{xv}:{script:?}"), &format!("is_const_less_than(width {w}) satisfiable for x={xv} >= 2^{w}"), case());
                        } else if pis[0] != want {
                            rep.violation(&format!("lt-out:{w}:{c}:{xv}:{script:?}"), &format!("is_const_less_than({c} < {xv}, width {w}) yields {} (expected {want}){}", pis[0], if script.is_empty() { "" } else { " under a hint deviation" }), case());
                        }
                    }
                    Verdict::Reject(r) => {
                        if script.is_empty() && in_range {
                            rep.violation(&format!("lt-complete:{w}:{c}:{xv}"), &format!("is_const_less_than(width {w}) honest witness rejected for in-range x={xv}: {r:?}"), case());
                        }
                    }
                }
            });
            let _ = honest_acc;
            cnt.execs.fetch_add(n, Ordering::Relaxed);
            rep.distinct(hash64(&("lt", w, c, xv)));
            if (w == 64 && c == 0 && xv == 0) || (w == 3 && c == 5 && xv == 9) {
                rep.sample(json!({"gadget": "is_const_less_than", "width": w, "constant": c, "x": xv, "in_range": in_range, "expected_out": want, "executions": n}));
            }
        }
    });
    // bounded-target check
    let mut egrid: Vec<(usize, u64)> = Vec::new();
    for w in 1..=5usize {
        for b in 1..=(1u64 << w) {
            egrid.push((w, b));
        }
    }
    for w in [8usize, 16, 31, 32, 33, 48, 63, 64] {
        let top = if w == 64 { u64::MAX } else { 1u64 << w };
        for b in [1, 2, 17, top / 2, top - 1, top] {
            if b >= 1 && (w == 64 || b <= (1u64 << w)) {
                egrid.push((w, b));
            }
        }
    }
    egrid.sort();
    egrid.dedup();
    egrid.par_iter().for_each(|&(w, bound)| {
        // the gadget takes the bound as usize and asserts bound-1 fits the width
        let (data, x) = build_enforce(bound as usize, w);
        n_circuits.fetch_add(1, Ordering::Relaxed);
        let cx = Cx::new(&data);
        let mut xs = lt_elements(bound - 1, w, w <= 5);
        xs.extend_from_slice(&[bound.saturating_sub(2), bound - 1, bound % P, (bound % P + 1) % P]);
        xs.sort();
        xs.dedup();
        for xv in xs {
            let ok = xv < bound;
            let n = cx.explore_devs(&[(x, f(xv))], &[], 1.max(dmax.min(if w <= 8 { 2 } else { 1 })), &mut |script: &[Dev], v: &Verdict| {
                cnt.edges.fetch_add(script.len() as u64, Ordering::Relaxed);
                let case = || json!({"gadget": "enforce_target_less_than_const", "width": w, "bound": bound, "x": xv, "deviations": format!("{script:?}")});
                match v {
                    Verdict::Accept { .. } => {
                        if !script.is_empty() {
                            cnt.accepted_deviated.fetch_add(1, Ordering::Relaxed);
                        }
                        if !ok {
                            rep.violation(&format!("enf-sound:{w}:{bound}:{xv}:{script:?}"), &format!("enforce_target_less_than_const(bound {bound}, width {w}) accepts x={xv}"), case());
                        }
                    }
                    Verdict::Reject(r) => {
                        if script.is_empty() && ok {
                            rep.violation(&format!("enf-complete:{w}:{bound}:{xv}"), &format!("enforce_target_less_than_const(bound {bound}, width {w}) rejects x={xv}: {r:?}"), case());
                        }
                    }
                }
            });
            cnt.execs.fetch_add(n, Ordering::Relaxed);
            rep.distinct(hash64(&("enf", w, bound, xv)));
        }
    });
    // constructor asserts: width 0, width > 64, constant too wide must be refused (panic = the
    // gadget's documented assert), never build a circuit silently
    for (c, w) in [(0usize, 0usize), (0, 65), (4, 2), (1 << 20, 20)] {
        let r = catch(|| {
            let mut b = CircuitBuilder::<F, D>::new(cfg());
            let x = b.add_virtual_target();
            is_const_less_than(&mut b, c, x, w);
        });
        rep.eval(1);
        if r.is_ok() {
            rep.violation(&format!("lt-ctor:{c}:{w}"), &format!("is_const_less_than accepted constant {c} with width {w}"), json!({"constant": c, "width": w}));
        }
    }
    let execs = cnt.execs.load(Ordering::Relaxed);
    rep.eval(execs);
    rep.states.store(execs, Ordering::Relaxed);
    rep.transitions.store(cnt.edges.load(Ordering::Relaxed).max(1), Ordering::Relaxed);
    rep.traces.store(execs, Ordering::Relaxed);
    rep.extra("circuits_built", json!(n_circuits.load(Ordering::Relaxed)));
    rep.extra("accepted_deviated_runs", json!(cnt.accepted_deviated.load(Ordering::Relaxed)));
    rep.extra("bounds", json!({"widths 1..6": "every constant < 2^w x every x in 0..2^w+2 + {2^32,2^63,p-2,p-1}", "widths 7..64": "constants {0,1,2^(w-1),2^w-2,2^w-1 (+2^32-1,2^32; +p-1,p at 64)} x boundary elements incl. all values with a +p alias", "hint deviations": format!("d<={dmax} (d=2 on widths <=8,32,33,63,64)"), "enforce": "every bound 1..2^w for w<=5, boundary bounds for w in {8,16,31,32,33,48,63,64}"}));
    rep.rule("case = (width, constant, x); every case is run with honest hints and with every deviation script of <= d deviated hint generators on the circuit built by the real gadget; distinct = distinct (width,constant,x) triples; oracle: ACCEPT => x<2^w and out=(c<x); honest ACCEPT <=> x<2^w (always for w=64)");
    rep.assume("plonky2 gate evaluators / permutation argument; boundary alphabets for widths >= 7");
    rep.finish()
}

fn lex_sorted(mut v: Vec<[u64; 4]>) -> Vec<[u64; 4]> {
    v.sort();
    v
}

fn c31(tier: &str, thorough: bool) -> i32 {
    let rep = Report::new("C31", "model_checking", tier);
    let cnt = Counters { execs: AtomicU64::new(0), edges: AtomicU64::new(0), accepted_deviated: AtomicU64::new(0) };
    let two32 = 1u64 << 32;
    let alpha: Vec<[u64; 4]> = vec![
        [0, 0, 0, 0],
        [0, 0, 0, 1],
        [1, 0, 0, 0],
        [two32 - 1, 5, 5, 5],
        [two32, 5, 5, 4],
        [P - 1, P - 1, P - 1, P - 1],
        [P - 1, 0, 0, 0],
        [two32 - 2, 7, 0, two32],
    ];
    let sub: Vec<[u64; 4]> = vec![alpha[1], alpha[3], alpha[4], alpha[6]];
    // lists
    let mut lists: Vec<Vec<[u64; 4]>> = Vec::new();
    for n in 1..=(if thorough { 4 } else { 3 }) {
        product_indices(&vec![alpha.len(); n], |ix| lists.push(ix.iter().map(|&i| alpha[i]).collect()));
    }
    if !thorough {
        // length 4 over the 4-digest sub-alphabet in quick
        product_indices(&vec![sub.len(); 4], |ix| lists.push(ix.iter().map(|&i| sub[i]).collect()));
    }
    for n in 5..=(if thorough { 6 } else { 5 }) {
        product_indices(&vec![sub.len(); n], |ix| lists.push(ix.iter().map(|&i| sub[i]).collect()));
    }
    let circuits: Vec<(CircuitData<F, C, D>, Vec<[Target; 4]>)> = (0..=6).map(|n| build_sort(n.max(1))).collect();
    let cxs: Vec<Cx> = circuits.iter().map(|c| Cx::new(&c.0)).collect();
    lists.par_iter().enumerate().for_each(|(li, l)| {
        let n = l.len();
        let cx = &cxs[n];
        let ins = &circuits[n].1;
        let mut inputs = Vec::new();
        for (i, d) in l.iter().enumerate() {
            for k in 0..4 {
                inputs.push((ins[i][k], f(d[k])));
            }
        }
        let want: Vec<u64> = lex_sorted(l.clone()).into_iter().flatten().collect();
        // deviations: d<=1 on lists of length<=3, d<=2 on length 2 (thorough: d<=2 on length<=2, d<=1 on <=4)
        let in_sub = l.iter().all(|d| sub.contains(d));
        let d_here = if n <= 2 && thorough { 2 } else if n <= 2 || (n == 3 && (thorough || in_sub)) || (thorough && n == 4 && li % 8 == 0) { 1 } else { 0 };
        let nexec = cx.explore_devs(&inputs, &[], d_here, &mut |script: &[Dev], v: &Verdict| {
            cnt.edges.fetch_add(script.len() as u64, Ordering::Relaxed);
            let case = || json!({"gadget": "sort_digests4", "input": l, "expected": want, "deviations": script.iter().map(|d| json!({"gen": d.gen, "id": cx.ids[d.gen], "alt": d.alt})).collect::<Vec<_>>()});
            match v {
                Verdict::Accept { pis, .. } => {
                    if !script.is_empty() {
                        cnt.accepted_deviated.fetch_add(1, Ordering::Relaxed);
                    }
                    if pis != &want {
                        rep.violation(&format!("sort-out:{l:?}:{script:?}"), &format!("sort_digests4 output is not the ascending permutation of its input{}", if script.is_empty() { "" } else { " under a hint deviation" }), {
                            let mut c = case();
                            c["observed"] = json!(pis);
                            c
                        });
                    }
                }
                Verdict::Reject(r) => {
                    if script.is_empty() {
                        rep.violation(&format!("sort-complete:{l:?}"), &format!("sort_digests4 rejects canonical input: {r:?}"), case());
                    }
                }
            }
        });
        cnt.execs.fetch_add(nexec, Ordering::Relaxed);
        rep.distinct(hash64(l));
        if li % (lists.len() / 5 + 1) == 0 {
            rep.sample(json!({"input": l, "expected_output": want, "executions": nexec}));
        }
    });
    // longer lists: seeded, labelled sampled, excluded from the exhaustive counts
    let mut sampled = 0u64;
    {
        use rand::{Rng, SeedableRng};
        let mut rng = rand::rngs::StdRng::seed_from_u64(seed() as u64 ^ 0xC31);
        for n in [8usize, 33, 64] {
            let (data, ins) = build_sort(n);
            let cx = Cx::new(&data);
            for _ in 0..(if thorough { 20 } else { 3 }) {
                let l: Vec<[u64; 4]> = (0..n)
                    .map(|_| if rng.gen_bool(0.5) { alpha[rng.gen_range(0..alpha.len())] } else { [rng.gen_range(0..P), rng.gen_range(0..3), rng.gen_range(0..P), rng.gen_range(0..P)] })
                    .collect();
                let mut inputs = Vec::new();
                for (i, d) in l.iter().enumerate() {
                    for k in 0..4 {
                        inputs.push((ins[i][k], f(d[k])));
                    }
                }
                let want: Vec<u64> = lex_sorted(l.clone()).into_iter().flatten().collect();
                sampled += 1;
                match cx.run(&inputs, &[], &[], false).verdict {
                    Verdict::Accept { pis, .. } if pis == want => {}
                    v => rep.violation(&format!("sort-sampled:{n}:{l:?}"), &format!("sort_digests4 (n={n}, sampled list) wrong: {}", v.short()), json!({"input": l})),
                }
            }
        }
    }
    let execs = cnt.execs.load(Ordering::Relaxed);
    rep.eval(execs);
    rep.states.store(execs, Ordering::Relaxed);
    rep.transitions.store(cnt.edges.load(Ordering::Relaxed).max(1), Ordering::Relaxed);
    rep.traces.store(execs, Ordering::Relaxed);
    rep.extra("lists", json!(lists.len()));
    rep.extra("accepted_deviated_runs", json!(cnt.accepted_deviated.load(Ordering::Relaxed)));
    rep.extra("sampled_long_lists (n=8,33,64; NOT part of the exhaustive counts)", json!(sampled));
    rep.extra("digest_alphabet", json!(alpha));
    rep.extra("bounds", json!({"exhaustive": if thorough {"all lists of length 1..4 over 8 digests, length 5..6 over 4 digests"} else {"all lists of length 1..3 over 8 digests, length 4..5 over 4 digests"}, "hint deviations": if thorough {"d<=2 on length<=2, d<=1 on length 3 and every 8th length-4 list"} else {"d<=1 on length<=2 and on length-3 lists over the 4-digest sub-alphabet"}}));
    rep.rule("case = list of canonical digests (duplicates included) run on the circuit built by the real sort_digests4 with honest hints and every deviation script within the bound; oracle: ACCEPT => output = ascending lexicographic sort ([u64;4], limb 0 most significant); honest always ACCEPT; distinct = distinct lists");
    rep.assume("plonky2 gate evaluators / permutation argument; digest alphabet chosen to separate limb 0 from limb 3, the 32-bit half boundary, p-1 and the values having a +p alias");
    rep.finish()
}
