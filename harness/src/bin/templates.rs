//! C16 — padding templates are accepted only with the complete dummy sentinel.
//!
//! (a) `PrivateBatchProver::new` / `PublicBatchProver::new` over FREE-public-input child
//!     circuits (every public-input vector is provable, so every deviation is expressible):
//!     the sentinel, every single-position deviation in all public inputs, every pair of
//!     fields, multi-field deviations, relabelled / tampered proofs, wrong lengths.
//! (b) the byte / file / dir / build / init entry points over the CANONICAL circuits with
//!     every deviation the canonical circuits can actually prove, plus damaged byte strings.
//!
//! Reference: accepted <=> public inputs parse as the layer's layout AND every sentinel field
//! is zero AND the proof verifies. The reference predicates below are written directly on
//! the u64 vector and list exactly the fields the property names.
use plonky2::field::types::Field;
use plonky2::iop::target::Target;
use plonky2::iop::witness::{PartialWitness, WitnessWrite};
use plonky2::plonk::circuit_builder::CircuitBuilder;
use plonky2::plonk::circuit_data::{CircuitConfig, CircuitData, VerifierCircuitData};
use rayon::prelude::*;
use serde_json::{json, Value};
use std::path::{Path, PathBuf};
use std::sync::atomic::{AtomicU64, Ordering};
use std::time::Instant;
use vharness::cx::{f, u, C, D, F, P};
use vharness::fixtures::*;
use vharness::mcx::*;
use vharness::privx::dig;
use vharness::wrapref::Z4;
use wormhole_aggregator::aggregator::PublicBatchAggregator;
use wormhole_aggregator::pool::PoolLimits;
use wormhole_aggregator::private_batch::circuit::build::generate_private_batch_circuit_binaries;
use wormhole_aggregator::private_batch::prover::PrivateBatchProver;
use wormhole_aggregator::public_batch::prover::PublicBatchProver;
use zk_circuits_common::circuit::{wormhole_private_batch_circuit_config, wormhole_public_batch_circuit_config};
use zk_circuits_common::utils::BytesDigest;

const U32MAX: u64 = 0xFFFF_FFFF;

// ---------------------------------------------------------------------------------------
// stdout silencing (the repo's builders println! progress), scratch directory
// ---------------------------------------------------------------------------------------

extern "C" {
    fn dup(fd: i32) -> i32;
    fn dup2(old: i32, new: i32) -> i32;
}

struct Quiet {
    saved: i32,
}
impl Quiet {
    fn on() -> Self {
        use std::io::Write;
        use std::os::fd::AsRawFd;
        if std::env::var("VERIF_LOUD").is_ok() {
            return Quiet { saved: -1 };
        }
        let _ = std::io::stdout().flush();
        let null = match std::fs::OpenOptions::new().write(true).open("/dev/null") {
            Ok(f) => f,
            Err(_) => return Quiet { saved: -1 },
        };
        // SAFETY: plain POSIX descriptor duplication on descriptors this process owns.
        let saved = unsafe { dup(1) };
        if saved >= 0 {
            unsafe { dup2(null.as_raw_fd(), 1) };
        }
        Quiet { saved }
    }
    fn off(&mut self) {
        use std::io::Write;
        let _ = std::io::stdout().flush();
        if self.saved >= 0 {
            unsafe { dup2(self.saved, 1) };
            self.saved = -1;
        }
    }
}

/// Run `f` over `items` on plain OS threads (NOT rayon tasks): every call below builds plonky2
/// circuits, which use the global rayon pool internally; running the calls themselves as
/// rayon tasks makes blocked tasks steal whole other builds and is several times slower.
fn pfor<T: Sync>(items: &[T], f: impl Fn(&T) + Sync) {
    let threads: usize = std::env::var("VERIF_C16_THREADS").ok().and_then(|s| s.parse().ok()).unwrap_or_else(|| (std::thread::available_parallelism().map(|n| n.get()).unwrap_or(8) / 2).max(1));
    let next = std::sync::atomic::AtomicUsize::new(0);
    std::thread::scope(|sc| {
        for _ in 0..threads.max(1).min(items.len().max(1)) {
            sc.spawn(|| loop {
                let i = next.fetch_add(1, Ordering::Relaxed);
                if i >= items.len() {
                    break;
                }
                f(&items[i]);
            });
        }
    });
}

fn scratch_root() -> PathBuf {
    std::env::temp_dir().join(format!("vharness-templates-{}", std::process::id()))
}
fn cleanup() {
    let _ = std::fs::remove_dir_all(scratch_root());
}
fn die(msg: &str) -> ! {
    cleanup();
    machinery_error(msg)
}

fn copy_dir(src: &Path, dst: &Path) {
    std::fs::create_dir_all(dst).unwrap_or_else(|e| die(&format!("create {}: {e}", dst.display())));
    for e in std::fs::read_dir(src).unwrap_or_else(|e| die(&format!("read_dir {}: {e}", src.display()))) {
        let e = e.unwrap();
        if e.file_type().map(|t| t.is_file()).unwrap_or(false) {
            std::fs::copy(e.path(), dst.join(e.file_name())).unwrap_or_else(|er| die(&format!("copy {}: {er}", e.path().display())));
        }
    }
}

// ---------------------------------------------------------------------------------------
// Reference predicates (deliberately naive, written on the u64 vector)
// ---------------------------------------------------------------------------------------

/// Leaf layout: [asset, out1, out2, fee, nullifier(4), exit1(4), exit2(4), block_hash(4), number].
fn leaf_ref(v: &[u64]) -> bool {
    if v.len() != 21 {
        return false;
    }
    // parses: the five scalars are u32, digest limbs are canonical field elements
    if [0usize, 1, 2, 3, 20].iter().any(|&i| v[i] > U32MAX) || v.iter().any(|&x| x >= P) {
        return false;
    }
    let block_hash_zero = v[16..20].iter().all(|&x| x == 0);
    let outputs_zero = v[1] == 0 && v[2] == 0;
    let asset_zero = v[0] == 0;
    let exits_zero = v[8..12].iter().all(|&x| x == 0) && v[12..16].iter().all(|&x| x == 0);
    block_hash_zero && outputs_zero && asset_zero && exits_zero
}

/// Private-batch layout for N leaves: [2N, asset, fee, block_hash(4), number,
/// (sum, account(4)) x 2N, nullifier(4) x N, padding up to 8 + 21 N].
fn pb_ref(v: &[u64], n: usize) -> bool {
    if v.len() != 8 + 21 * n {
        return false;
    }
    if v.iter().any(|&x| x >= P) {
        return false;
    }
    if v[0] != 2 * n as u64 || v[1] > U32MAX || v[2] > U32MAX || v[7] > U32MAX {
        return false;
    }
    for s in 0..2 * n {
        if v[8 + 5 * s] > U32MAX {
            return false;
        }
    }
    let block_hash_zero = v[3..7].iter().all(|&x| x == 0);
    let exit_slots_zero = v[8..8 + 10 * n].iter().all(|&x| x == 0);
    block_hash_zero && exit_slots_zero
}

// ---------------------------------------------------------------------------------------
// (a) free-public-input child circuits
// ---------------------------------------------------------------------------------------

/// The repo's test helper `fake_leaf` generalised to `n_pis` public inputs: nothing but a few
/// 32-bit range checks constrains the public inputs.
fn free_circuit(n_pis: usize, range_checked: &[usize]) -> (CircuitData<F, C, D>, Vec<Target>) {
    let mut b = CircuitBuilder::<F, D>::new(CircuitConfig::standard_recursion_config());
    let pis = b.add_virtual_targets(n_pis);
    for &i in range_checked {
        b.range_check(pis[i], 32);
    }
    b.register_public_inputs(&pis);
    (b.build::<C>(), pis)
}

fn prove_free(data: &CircuitData<F, C, D>, t: &[Target], v: &[u64]) -> Proof {
    let mut pw = PartialWitness::new();
    for (tt, x) in t.iter().zip(v) {
        pw.set_target(*tt, f(*x)).unwrap();
    }
    data.prove(pw).unwrap_or_else(|e| die(&format!("free circuit must prove {v:?}: {e}")))
}

#[derive(Clone, Copy, PartialEq, Debug)]
enum Kind {
    Scalar,
    Limb,
    Count,
    Pad,
}
struct FieldDef {
    name: String,
    idx: Vec<usize>,
    kind: Kind,
    sentinel: bool,
}
struct Layout {
    name: String,
    base: Vec<u64>,
    fields: Vec<FieldDef>,
}
impl Layout {
    fn values(&self, fd: &FieldDef, i: usize) -> Vec<u64> {
        match fd.kind {
            Kind::Scalar => vec![1, U32MAX],
            Kind::Limb => vec![1, P - 1],
            Kind::Pad => vec![1, P - 1],
            Kind::Count => vec![0, self.base[i] + 1, U32MAX],
        }
    }
}

fn fd(name: &str, idx: std::ops::Range<usize>, kind: Kind, sentinel: bool) -> FieldDef {
    FieldDef { name: name.into(), idx: idx.collect(), kind, sentinel }
}

fn leaf_layout() -> Layout {
    Layout {
        name: "leaf(21)".into(),
        base: vec![0; 21],
        fields: vec![
            fd("asset_id", 0..1, Kind::Scalar, true),
            fd("output_amount_1", 1..2, Kind::Scalar, true),
            fd("output_amount_2", 2..3, Kind::Scalar, true),
            fd("volume_fee_bps", 3..4, Kind::Scalar, false),
            fd("nullifier", 4..8, Kind::Limb, false),
            fd("exit_account_1", 8..12, Kind::Limb, true),
            fd("exit_account_2", 12..16, Kind::Limb, true),
            fd("block_hash", 16..20, Kind::Limb, true),
            fd("block_number", 20..21, Kind::Scalar, false),
        ],
    }
}

fn pb_layout(n: usize) -> Layout {
    let len = 8 + 21 * n;
    let mut base = vec![0u64; len];
    base[0] = 2 * n as u64;
    let mut fields = vec![
        fd("num_exit_slots", 0..1, Kind::Count, false),
        fd("asset_id", 1..2, Kind::Scalar, false),
        fd("volume_fee_bps", 2..3, Kind::Scalar, false),
        fd("block_hash", 3..7, Kind::Limb, true),
        fd("block_number", 7..8, Kind::Scalar, false),
    ];
    for s in 0..2 * n {
        fields.push(fd(&format!("exit_slot_{s}.sum"), 8 + 5 * s..9 + 5 * s, Kind::Scalar, true));
        fields.push(fd(&format!("exit_slot_{s}.account"), 9 + 5 * s..13 + 5 * s, Kind::Limb, true));
    }
    let ns = 8 + 10 * n;
    for k in 0..n {
        fields.push(fd(&format!("nullifier_{k}"), ns + 4 * k..ns + 4 * k + 4, Kind::Limb, false));
    }
    fields.push(fd("padding", ns + 4 * n..len, Kind::Pad, false));
    Layout { name: format!("private-batch({len}, N={n})"), base, fields }
}

#[derive(Clone)]
struct TCase {
    name: String,
    proved: Vec<u64>,
    claimed: Vec<u64>,
    flip_opening: bool,
    quick: bool,
    /// also run with the production (row-blinding) config where the constructor takes one
    prod_too: bool,
}

fn free_cases(l: &Layout) -> Vec<TCase> {
    let mut out = Vec::new();
    let same = |name: String, v: Vec<u64>, quick: bool, prod_too: bool| TCase { name, proved: v.clone(), claimed: v, flip_opening: false, quick, prod_too };
    out.push(same("sentinel".into(), l.base.clone(), true, true));
    // every single-position deviation
    for fdef in &l.fields {
        for (pi, &i) in fdef.idx.iter().enumerate() {
            for (vi, val) in l.values(fdef, i).into_iter().enumerate() {
                let mut v = l.base.clone();
                v[i] = val;
                // quick: every position with its first value; thorough: every value
                let first = pi == 0 && vi == 0;
                out.push(same(format!("single:{}[{}]={}", fdef.name, i, val), v, vi == 0, first && fdef.sentinel));
            }
        }
    }
    // a non-zero digest whose limbs cancel (1, p-1, 0, 0): a zero test on the limb sum calls it zero
    for fdef in l.fields.iter().filter(|f| f.kind == Kind::Limb && f.idx.len() == 4) {
        let mut v = l.base.clone();
        v[fdef.idx[0]] = 1;
        v[fdef.idx[1]] = P - 1;
        out.push(same(format!("cancel:{}=[1,p-1,0,0]", fdef.name), v, fdef.sentinel, false));
    }
    // every pair of fields
    for a in 0..l.fields.len() {
        for b in a + 1..l.fields.len() {
            let (fa, fb) = (&l.fields[a], &l.fields[b]);
            let (ia, ib) = (fa.idx[0], *fb.idx.last().unwrap());
            let mut v = l.base.clone();
            v[ia] = l.values(fa, ia)[0];
            v[ib] = *l.values(fb, ib).last().unwrap();
            out.push(same(format!("pair:{}+{}", fa.name, fb.name), v, false, false));
        }
    }
    // all sentinel fields at once; all other (parsing) fields at once
    let mut all_s = l.base.clone();
    let mut all_n = l.base.clone();
    for fdef in &l.fields {
        for &i in &fdef.idx {
            if fdef.sentinel {
                all_s[i] = 1;
            } else if fdef.kind != Kind::Count {
                all_n[i] = 1;
            }
        }
    }
    out.push(same("multi:every sentinel field non-zero".into(), all_s, true, false));
    out.push(same("multi:every non-sentinel field non-zero".into(), all_n, true, false));
    // invalid proofs
    out.push(TCase { name: "invalid:sentinel with a flipped opening".into(), proved: l.base.clone(), claimed: l.base.clone(), flip_opening: true, quick: true, prod_too: true });
    let mut first_rel = true;
    for fdef in &l.fields {
        let i = fdef.idx[0];
        let mut v = l.base.clone();
        v[i] = l.values(fdef, i)[0];
        if fdef.sentinel {
            // a proof of a non-sentinel statement relabelled with sentinel public inputs
            out.push(TCase { name: format!("invalid:proved {}[{}]={} relabelled as sentinel", fdef.name, i, v[i]), proved: v.clone(), claimed: l.base.clone(), flip_opening: false, quick: first_rel, prod_too: false });
            first_rel = false;
            out.push(TCase { name: format!("invalid:{}[{}]={} with a flipped opening", fdef.name, i, v[i]), proved: v.clone(), claimed: v.clone(), flip_opening: true, quick: false, prod_too: false });
        } else if fdef.kind != Kind::Count {
            // sentinel proof whose (non-sentinel) public input was altered afterwards
            out.push(TCase { name: format!("invalid:sentinel proof with {}[{}] altered to {}", fdef.name, i, v[i]), proved: l.base.clone(), claimed: v.clone(), flip_opening: false, quick: fdef.name.starts_with("nullifier"), prod_too: false });
        }
    }
    // wrong number of public inputs
    let mut short = l.base.clone();
    short.pop();
    out.push(TCase { name: "length:one public input dropped".into(), proved: l.base.clone(), claimed: short, flip_opening: false, quick: false, prod_too: false });
    let mut long = l.base.clone();
    long.push(0);
    out.push(TCase { name: "length:one public input appended".into(), proved: l.base.clone(), claimed: long, flip_opening: false, quick: false, prod_too: false });
    out
}

fn flip_opening(p: &mut Proof) {
    p.proof.openings.wires[0].0[0] += F::ONE;
}

/// Outcome of one call into the repo.
#[derive(Clone, Debug, PartialEq)]
enum Out {
    Accepted,
    Rejected(String),
    Panicked(String),
    /// the call returned Err, yet something derived from the template was published
    UsedDespiteError(String),
}
impl Out {
    fn of<T>(r: Result<anyhow::Result<T>, String>) -> Out {
        match r {
            Ok(Ok(_)) => Out::Accepted,
            Ok(Err(e)) => Out::Rejected(format!("{e:#}").chars().take(300).collect()),
            Err(p) => Out::Panicked(p.chars().take(300).collect()),
        }
    }
    fn tag(&self) -> &'static str {
        match self {
            Out::Accepted => "accepted",
            Out::Rejected(_) => "rejected",
            Out::Panicked(_) => "panicked",
            Out::UsedDespiteError(_) => "used-despite-error",
        }
    }
    fn json(&self) -> Value {
        match self {
            Out::Accepted => json!("accepted"),
            Out::Rejected(e) => json!({"rejected": e}),
            Out::Panicked(e) => json!({"panicked": e}),
            Out::UsedDespiteError(e) => json!({"used_despite_error": e}),
        }
    }
}

/// Compare one outcome with the reference; a mismatch is re-executed once and must reproduce.
fn judge(rep: &Report, entry: &str, case: &str, expect_accept: bool, why: &str, detail: Value, run: &dyn Fn() -> Out) -> Out {
    rep.eval(1);
    rep.distinct(hash64(&(entry, case)));
    let o = run();
    let ok = match &o {
        Out::Accepted => expect_accept,
        Out::Rejected(_) => !expect_accept,
        Out::Panicked(_) | Out::UsedDespiteError(_) => false,
    };
    if !ok {
        let again = run();
        if again.tag() != o.tag() {
            die(&format!("C16: {entry} on template '{case}' is not reproducible: {} then {}", o.tag(), again.tag()));
        }
        let text = match &o {
            Out::Accepted => format!("{entry} ACCEPTS the padding template '{case}' although {why}"),
            Out::Rejected(e) => format!("{entry} REJECTS the padding template '{case}' ({e}) although {why}"),
            Out::Panicked(e) => format!("{entry} PANICS on the padding template '{case}' ({e}); a bad template must be rejected with an error before use"),
            Out::UsedDespiteError(e) => format!("{entry} returns an error for the padding template '{case}' ({e}) but has already used it: dummy_private_batch_proof.bin was published"),
        };
        rep.violation(&format!("{entry}|{case}|{}", o.tag()), &text, json!({"entry_point": entry, "template": case, "expected": if expect_accept { "accepted" } else { "rejected" }, "observed": o.json(), "reference": why, "detail": detail}));
    }
    o
}

struct FreeSummary {
    layout: String,
    cases: usize,
    calls: u64,
    accepted: u64,
    wall_s: f64,
}

fn run_free(rep: &Report, thorough: bool, entry: &str, l: &Layout, refp: &(dyn Fn(&[u64]) -> bool + Sync), range_checked: &[usize], ctor: &(dyn Fn(&CircuitData<F, C, D>, bool, Proof) -> Out + Sync)) -> FreeSummary {
    let t0 = Instant::now();
    let (data, targets) = free_circuit(l.base.len(), range_checked);
    let vd = data.verifier_data();
    let cases: Vec<TCase> = free_cases(l).into_iter().filter(|c| thorough || c.quick).collect();
    let calls = AtomicU64::new(0);
    let accepted = AtomicU64::new(0);
    pfor(&cases, |c| {
        let mut proof = prove_free(&data, &targets, &c.proved);
        proof.public_inputs = c.claimed.iter().map(|&x| f(x)).collect();
        if c.flip_opening {
            flip_opening(&mut proof);
        }
        let valid_by_construction = c.proved == c.claimed && !c.flip_opening;
        let verifies = c.claimed.len() == l.base.len() && matches!(catch(|| vd.verify(proof.clone())), Ok(Ok(())));
        if verifies != valid_by_construction {
            die(&format!("C16 fixture '{}' over {}: verifies={verifies}, constructed as valid={valid_by_construction}", c.name, l.name));
        }
        let parses_and_sentinel = refp(&c.claimed);
        let expect = parses_and_sentinel && verifies;
        let why = if expect {
            "its public inputs parse, every sentinel field (the ones the property names) is zero and the proof verifies; deviations in other positions must not change the verdict".to_string()
        } else if !parses_and_sentinel {
            "its public inputs do not carry the complete sentinel (or do not parse as the layer's layout)".to_string()
        } else {
            "the proof does not verify under the pinned child verifier".to_string()
        };
        let detail = json!({"layout": l.name, "claimed_public_inputs": c.claimed, "proved_public_inputs": c.proved, "opening_flipped": c.flip_opening});
        let prod_too = c.prod_too && (thorough || c.name == "sentinel" || c.name.starts_with("single:block_hash"));
        let configs: Vec<bool> = if prod_too { vec![false, true] } else { vec![false] };
        for prod in configs {
            let e = if prod { format!("{entry}[production config]") } else { entry.to_string() };
            let o = judge(rep, &e, &format!("{}:{}", l.name, c.name), expect, &why, detail.clone(), &|| ctor(&data, prod, proof.clone()));
            calls.fetch_add(1, Ordering::Relaxed);
            if o == Out::Accepted {
                accepted.fetch_add(1, Ordering::Relaxed);
            }
            if c.name == "sentinel" && o != Out::Accepted {
                die(&format!("C16 non-vacuity: {e} does not accept the all-sentinel template over {}: {:?}", l.name, o));
            }
        }
    });
    FreeSummary { layout: l.name.clone(), cases: cases.len(), calls: calls.into_inner(), accepted: accepted.into_inner(), wall_s: t0.elapsed().as_secs_f64() }
}

// ---------------------------------------------------------------------------------------
// (b) canonical circuits: byte / file / dir / build / init entry points
// ---------------------------------------------------------------------------------------

struct BCase {
    name: String,
    /// serialised template; None = the file is absent
    bytes: Option<Vec<u8>>,
    /// the same template as a proof object (for the `new` constructors), when it has one
    proof: Option<Proof>,
    expect_accept: bool,
    why: String,
    quick: bool,
}

fn bd(d: [u64; 4]) -> BytesDigest {
    BytesDigest::try_from(vharness::leafnative::limbs_to_bytes(d)).expect("canonical digest")
}

fn pis_u64(p: &Proof) -> Vec<u64> {
    p.public_inputs.iter().map(|x| u(*x)).collect()
}

/// A proof-object case: the expectation is computed by the reference predicate and the
/// canonical verifier, and must agree with what the fixture was built to be.
fn proof_case(name: &str, p: Proof, intended_accept: bool, quick: bool, refp: &dyn Fn(&[u64]) -> bool, vd: &VerifierCircuitData<F, C, D>) -> BCase {
    let v = pis_u64(&p);
    let sentinel = refp(&v);
    let verifies = v.len() == vd.common.num_public_inputs && matches!(catch(|| vd.verify(p.clone())), Ok(Ok(())));
    let expect = sentinel && verifies;
    if expect != intended_accept {
        die(&format!("C16 fixture '{name}': reference says accept={expect} (sentinel={sentinel}, verifies={verifies}) but it was built to be accept={intended_accept}; public inputs {v:?}"));
    }
    let why = if expect {
        "it verifies under the canonical verifier and every sentinel field is zero (only non-sentinel fields differ from the shipped template)".to_string()
    } else if !sentinel {
        format!("it does not carry the complete sentinel (public inputs {v:?})")
    } else {
        "it does not verify under the canonical verifier".to_string()
    };
    BCase { name: name.into(), bytes: Some(p.to_bytes()), proof: Some(p), expect_accept: expect, why, quick }
}

fn bytes_case(name: &str, bytes: Option<Vec<u8>>, quick: bool, why: &str) -> BCase {
    BCase { name: name.into(), bytes, proof: None, expect_accept: false, why: why.into(), quick }
}

struct Good {
    dir: PathBuf,
    common: Vec<u8>,
    verifier: Vec<u8>,
    dummy: Vec<u8>,
    pb_common: Vec<u8>,
    pb_verifier: Vec<u8>,
    pb_dummy: Vec<u8>,
}

fn read(dir: &Path, f: &str) -> Vec<u8> {
    std::fs::read(dir.join(f)).unwrap_or_else(|e| die(&format!("good bins dir lacks {f}: {e}")))
}

static DIR_SEQ: AtomicU64 = AtomicU64::new(0);

/// A fresh copy of the good bins dir with one file replaced (or removed).
fn variant_dir(good: &Good, file: &str, bytes: &Option<Vec<u8>>) -> PathBuf {
    let d = scratch_root().join(format!("v{}", DIR_SEQ.fetch_add(1, Ordering::Relaxed)));
    copy_dir(&good.dir, &d);
    match bytes {
        Some(b) => std::fs::write(d.join(file), b).unwrap_or_else(|e| die(&format!("write {file}: {e}"))),
        None => std::fs::remove_file(d.join(file)).unwrap_or_else(|e| die(&format!("remove {file}: {e}"))),
    }
    d
}

fn main() {
    quiet_panics();
    let tier = tier_from_args();
    let thorough = tier == "thorough";
    let prop = arg_value("--property").unwrap_or_else(|| "C16".into());
    if prop != "C16" {
        machinery_error("templates: unknown property");
    }
    let rep = Report::new("C16", "exploration", &tier);
    let mut quiet = Quiet::on();
    cleanup();
    let t_all = Instant::now();

    // =====================================================================================
    // (a) `new` constructors over free-public-input children
    // =====================================================================================
    let fast = |c: CircuitConfig| CircuitConfig { zero_knowledge: false, ..c };
    let mut free_summaries: Vec<FreeSummary> = Vec::new();
    {
        let l = leaf_layout();
        free_summaries.push(run_free(&rep, thorough, "PrivateBatchProver::new(free 21-PI leaf, N=1)", &l, &leaf_ref, &[1, 2, 3], &|data, prod, p| {
            let cfg = if prod { wormhole_private_batch_circuit_config() } else { fast(wormhole_private_batch_circuit_config()) };
            Out::of(catch(|| PrivateBatchProver::new(cfg, data.common.clone(), &data.verifier_only, 1, p)))
        }));
    }
    let pb_ns: Vec<usize> = if thorough { vec![1, 2] } else { vec![1] };
    for n in pb_ns {
        let l = pb_layout(n);
        let entry = format!("PublicBatchProver::new(free {}-PI private batch, M=1, N={n})", 8 + 21 * n);
        free_summaries.push(run_free(&rep, thorough, &entry, &l, &move |v: &[u64]| pb_ref(v, n), &[1, 2, 7], &|data, prod, p| {
            // the public-batch config is already non-blinding; `prod` = exactly the repo's config
            let cfg = if prod { wormhole_public_batch_circuit_config() } else { fast(wormhole_public_batch_circuit_config()) };
            Out::of(catch(|| PublicBatchProver::new(cfg, data.common.clone(), &data.verifier_only, 1, n, p)))
        }));
    }
    let wall_a = t_all.elapsed().as_secs_f64();

    // =====================================================================================
    // (b) canonical circuits
    // =====================================================================================
    let t_b = Instant::now();
    let root = scratch_root();
    std::fs::create_dir_all(&root).unwrap_or_else(|e| die(&format!("scratch dir: {e}")));
    let good_dir = root.join("good");
    const N: usize = 1;
    const M: usize = 2;
    match catch(|| circuit_builder::generate_all_circuit_binaries(&good_dir, true, N, Some(M))) {
        Ok(Ok(())) => {}
        Ok(Err(e)) => die(&format!("generate_all_circuit_binaries failed: {e:#}")),
        Err(p) => die(&format!("generate_all_circuit_binaries panicked: {p}")),
    }
    let good = Good {
        common: read(&good_dir, "common.bin"),
        verifier: read(&good_dir, "verifier.bin"),
        dummy: read(&good_dir, "dummy_proof.bin"),
        pb_common: read(&good_dir, "private_batch_common.bin"),
        pb_verifier: read(&good_dir, "private_batch_verifier.bin"),
        pb_dummy: read(&good_dir, "dummy_private_batch_proof.bin"),
        dir: good_dir.clone(),
    };
    let _ = read(&good_dir, "public_batch_common.bin");
    let _ = read(&good_dir, "public_batch_verifier.bin");
    let _ = read(&good_dir, "config.json");
    let wall_gen = t_b.elapsed().as_secs_f64();

    // ---- fixtures: leaf templates ----
    let leaf = leaf_verifier();
    let good_dummy = Proof::from_bytes(good.dummy.clone(), &leaf.common).unwrap_or_else(|e| die(&format!("generated dummy_proof.bin does not deserialise: {e}")));
    let dummy_inputs = || wormhole_aggregator::build_dummy_circuit_inputs().unwrap();
    let variants: Vec<(&str, Box<dyn Fn(&mut wormhole_circuit::inputs::CircuitInputs) + Sync + Send>)> = vec![
        ("dummy with asset_id = 1", Box::new(|i| i.public.asset_id = 1)),
        ("dummy with non-zero exit_account_1", Box::new(|i| i.public.exit_account_1 = bd(dig(31)))),
        ("dummy with non-zero exit_account_2", Box::new(|i| i.public.exit_account_2 = bd(dig(32)))),
        ("dummy with both exit accounts non-zero", Box::new(|i| {
            i.public.exit_account_1 = bd(dig(31));
            i.public.exit_account_2 = bd(dig(32));
        })),
        ("dummy with asset_id = 1 and non-zero exit_account_2", Box::new(|i| {
            i.public.asset_id = 1;
            i.public.exit_account_2 = bd(dig(32));
        })),
        ("re-proved dummy with volume_fee_bps = 0 and block_number = 9", Box::new(|i| {
            i.public.volume_fee_bps = 0;
            i.public.block_number = 9;
        })),
    ];
    let variant_proofs: Vec<(String, Option<Proof>)> = variants
        .par_iter()
        .map(|(name, edit)| {
            let mut i = dummy_inputs();
            edit(&mut i);
            (name.to_string(), catch(|| prove_leaf(&i)).ok().and_then(|r| r.ok()))
        })
        .collect();
    let vp = |name: &str| -> Proof {
        variant_proofs.iter().find(|x| x.0 == name).unwrap().1.clone().unwrap_or_else(|| die(&format!("C16 fixture: the canonical leaf circuit does not prove the '{name}'")))
    };
    let sp = |name: &'static str, seed: u64, out1: u32, out2: u32, e1, e2| LeafSpec { name, seed, asset: 0, input: 1000, fee: 0, out1, out2, exit1: e1, exit2: e2 };
    let reals = match catch(|| prove_block(7, 600, &[sp("real0", 41, 0, 0, Z4, Z4), sp("real1", 42, 5, 1, dig(10), dig(11))])) {
        Ok(r) => r,
        Err(p) => die(&format!("C16 fixture: real leaf proofs: {p}")),
    };
    let real0 = reals[0].1.clone(); // real block hash, zero outputs, zero exits: ONLY the block hash deviates
    let real1 = reals[1].1.clone(); // real block hash, outputs 5/1, two exit accounts

    let mut leaf_cases: Vec<BCase> = Vec::new();
    {
        let pc = |name: &str, p: Proof, acc: bool, quick: bool| proof_case(name, p, acc, quick, &leaf_ref, &leaf);
        leaf_cases.push(pc("shipped dummy_proof.bin", good_dummy.clone(), true, true));
        leaf_cases.push(pc("dummy with asset_id = 1", vp("dummy with asset_id = 1"), false, true));
        leaf_cases.push(pc("dummy with non-zero exit_account_1", vp("dummy with non-zero exit_account_1"), false, true));
        leaf_cases.push(pc("dummy with non-zero exit_account_2", vp("dummy with non-zero exit_account_2"), false, true));
        leaf_cases.push(pc("real leaf, zero outputs and zero exits (only block_hash non-zero)", real0.clone(), false, true));
        leaf_cases.push(pc("real leaf, outputs 5/1", real1.clone(), false, false));
        let mut t = good_dummy.clone();
        t.public_inputs[4] += F::ONE;
        leaf_cases.push(pc("tampered: shipped dummy with a nullifier limb flipped", t, false, true));
        let b = good.dummy.clone();
        leaf_cases.push(bytes_case("truncated: shipped dummy minus its last byte", Some(b[..b.len() - 1].to_vec()), false, "its bytes are not a complete serialised proof"));
        // thorough only
        leaf_cases.push(pc("dummy with both exit accounts non-zero", vp("dummy with both exit accounts non-zero"), false, false));
        leaf_cases.push(pc("dummy with asset_id = 1 and non-zero exit_account_2", vp("dummy with asset_id = 1 and non-zero exit_account_2"), false, false));
        if let Some(p) = variant_proofs.iter().find(|x| x.0.starts_with("re-proved")).unwrap().1.clone() {
            leaf_cases.push(pc("re-proved dummy with volume_fee_bps = 0 and block_number = 9", p, true, false));
        }
        let mut t = good_dummy.clone();
        flip_opening(&mut t);
        leaf_cases.push(pc("tampered: shipped dummy with an opening flipped", t, false, false));
        let mut t = real0.clone();
        for i in 16..20 {
            t.public_inputs[i] = F::ZERO;
        }
        leaf_cases.push(pc("tampered: real leaf relabelled with a zero block_hash", t, false, false));
        let mut t = good_dummy.clone();
        t.public_inputs[12] += F::ONE;
        leaf_cases.push(pc("tampered: shipped dummy with an exit_account_2 limb flipped", t, false, false));
        leaf_cases.push(bytes_case("truncated: first half of the shipped dummy", Some(b[..b.len() / 2].to_vec()), false, "its bytes are not a complete serialised proof"));
        leaf_cases.push(bytes_case("empty bytes", Some(vec![]), false, "its bytes are not a serialised proof"));
        leaf_cases.push(bytes_case("wrong layer: the private-batch template bytes", Some(good.pb_dummy.clone()), false, "a private-batch proof is not a leaf proof"));
        leaf_cases.push(bytes_case("absent file", None, false, "there is no template"));
    }

    // ---- fixtures: private-batch templates ----
    let (pbc, pbt) = private_batch_circuit(N, &leaf);
    let pbv = pbc.verifier_data();
    let good_pb = Proof::from_bytes(good.pb_dummy.clone(), &pbv.common).unwrap_or_else(|e| die(&format!("generated dummy_private_batch_proof.bin does not deserialise: {e}")));
    let inner_specs: Vec<(&str, Proof)> = vec![
        ("fresh all-dummy batch", good_dummy.clone()),
        ("all-dummy batch over the asset-1 dummy", vp("dummy with asset_id = 1")),
        ("real batch over a leaf with outputs 5/1", real1.clone()),
        ("real batch over a leaf with zero outputs", real0.clone()),
    ];
    let inner: Vec<(String, Proof)> = inner_specs
        .par_iter()
        .enumerate()
        .map(|(k, (name, lp))| match catch(|| prove_private_raw(&pbc, &pbt, &[lp.clone()], &[dig(80 + k as u64)])) {
            Ok(Ok(p)) => (name.to_string(), p),
            Ok(Err(e)) => die(&format!("C16 fixture '{name}': {e}")),
            Err(p) => die(&format!("C16 fixture '{name}': {p}")),
        })
        .collect();
    let ip = |name: &str| inner.iter().find(|x| x.0 == name).unwrap().1.clone();
    let mut pb_cases: Vec<BCase> = Vec::new();
    {
        let refp = |v: &[u64]| pb_ref(v, N);
        let pc = |name: &str, p: Proof, acc: bool, quick: bool| proof_case(name, p, acc, quick, &refp, &pbv);
        pb_cases.push(pc("shipped dummy_private_batch_proof.bin", good_pb.clone(), true, true));
        pb_cases.push(pc("real batch over a leaf with outputs 5/1", ip("real batch over a leaf with outputs 5/1"), false, true));
        let mut t = good_pb.clone();
        t.public_inputs[9] += F::ONE;
        pb_cases.push(pc("tampered: shipped template with an exit-account limb of slot 0 flipped", t, false, false));
        let mut t = good_pb.clone();
        t.public_inputs[18] += F::ONE;
        pb_cases.push(pc("tampered: shipped template with a nullifier limb flipped", t, false, true));
        let b = good.pb_dummy.clone();
        pb_cases.push(bytes_case("truncated: shipped template minus its last byte", Some(b[..b.len() - 1].to_vec()), false, "its bytes are not a complete serialised proof"));
        // thorough only
        pb_cases.push(pc("fresh all-dummy batch", ip("fresh all-dummy batch"), true, false));
        pb_cases.push(pc("all-dummy batch over the asset-1 dummy", ip("all-dummy batch over the asset-1 dummy"), true, false));
        pb_cases.push(pc("real batch over a leaf with zero outputs", ip("real batch over a leaf with zero outputs"), false, false));
        let mut t = good_pb.clone();
        t.public_inputs[13] += F::ONE;
        pb_cases.push(pc("tampered: shipped template with the sum of slot 1 flipped", t, false, false));
        let mut t = good_pb.clone();
        t.public_inputs[14] += F::ONE;
        pb_cases.push(pc("tampered: shipped template with an exit-account limb of slot 1 flipped", t, false, false));
        let mut t = ip("real batch over a leaf with outputs 5/1");
        for i in (3..7).chain(8..18) {
            t.public_inputs[i] = F::ZERO;
        }
        pb_cases.push(pc("tampered: real batch relabelled with a zero block_hash and zero exit slots", t, false, false));
        let mut t = good_pb.clone();
        flip_opening(&mut t);
        pb_cases.push(pc("tampered: shipped template with an opening flipped", t, false, false));
        pb_cases.push(bytes_case("truncated: first half of the shipped template", Some(b[..b.len() / 2].to_vec()), false, "its bytes are not a complete serialised proof"));
        pb_cases.push(bytes_case("empty bytes", Some(vec![]), false, "its bytes are not a serialised proof"));
        pb_cases.push(bytes_case("wrong layer: the leaf template bytes", Some(good.dummy.clone()), false, "a leaf proof is not a private-batch proof"));
        pb_cases.push(bytes_case("absent file", None, false, "there is no template"));
    }
    let wall_fix = t_b.elapsed().as_secs_f64() - wall_gen;

    // ---- jobs ----
    #[derive(Clone, Copy, Debug, PartialEq)]
    enum Entry {
        PrivNew,
        PrivBytes,
        PrivFiles,
        PrivDir,
        PrivBuild,
        PubNew,
        PubBytes,
        PubFiles,
        PubDir,
        AggInit,
    }
    impl Entry {
        fn name(&self) -> &'static str {
            match self {
                Entry::PrivNew => "PrivateBatchProver::new(canonical leaf)",
                Entry::PrivBytes => "PrivateBatchProver::new_from_bytes",
                Entry::PrivFiles => "PrivateBatchProver::new_from_files",
                Entry::PrivDir => "PrivateBatchProver::new_from_binaries_dir",
                Entry::PrivBuild => "generate_private_batch_circuit_binaries(include_prover=true)",
                Entry::PubNew => "PublicBatchProver::new(canonical private batch)",
                Entry::PubBytes => "PublicBatchProver::new_from_bytes",
                Entry::PubFiles => "PublicBatchProver::new_from_files",
                Entry::PubDir => "PublicBatchProver::new_from_binaries_dir",
                Entry::AggInit => "PublicBatchAggregator::with_limits",
            }
        }
    }
    let leaf_entries = [Entry::PrivNew, Entry::PrivBytes, Entry::PrivFiles, Entry::PrivDir, Entry::PrivBuild];
    let pb_entries = [Entry::PubNew, Entry::PubBytes, Entry::PubFiles, Entry::PubDir, Entry::AggInit];
    let mut jobs: Vec<(Entry, &BCase)> = Vec::new();
    for (entries, cases) in [(&leaf_entries, &leaf_cases), (&pb_entries, &pb_cases)] {
        for c in cases.iter().filter(|c| thorough || c.quick) {
            for e in entries.iter() {
                let applicable = match e {
                    Entry::PrivNew | Entry::PubNew => c.proof.is_some(),
                    Entry::PrivBytes | Entry::PubBytes => c.bytes.is_some(),
                    _ => true,
                };
                if applicable {
                    jobs.push((*e, c));
                }
            }
        }
    }
    let addr = BytesDigest::try_from([7u8; 32]).unwrap();
    let per_entry: std::sync::Mutex<std::collections::BTreeMap<&'static str, (u64, u64, f64)>> = Default::default();
    let run_entry = |e: Entry, c: &BCase| -> Out {
        match e {
            Entry::PrivNew => {
                let p = c.proof.clone().unwrap();
                Out::of(catch(|| PrivateBatchProver::new(wormhole_private_batch_circuit_config(), leaf.common.clone(), &leaf.verifier_only, N, p)))
            }
            Entry::PrivBytes => Out::of(catch(|| PrivateBatchProver::new_from_bytes(&good.common, &good.verifier, c.bytes.as_ref().unwrap(), N))),
            Entry::PrivFiles => {
                let d = variant_dir(&good, "dummy_proof.bin", &c.bytes);
                let o = Out::of(catch(|| PrivateBatchProver::new_from_files(&d.join("common.bin"), &d.join("verifier.bin"), &d.join("dummy_proof.bin"), N)));
                let _ = std::fs::remove_dir_all(&d);
                o
            }
            Entry::PrivDir => {
                let d = variant_dir(&good, "dummy_proof.bin", &c.bytes);
                let o = Out::of(catch(|| PrivateBatchProver::new_from_binaries_dir(&d)));
                let _ = std::fs::remove_dir_all(&d);
                o
            }
            Entry::PrivBuild => {
                // the build step's input directory: leaf artifacts + the template only
                let d = scratch_root().join(format!("b{}", DIR_SEQ.fetch_add(1, Ordering::Relaxed)));
                std::fs::create_dir_all(&d).unwrap_or_else(|er| die(&format!("mkdir: {er}")));
                std::fs::write(d.join("common.bin"), &good.common).unwrap();
                std::fs::write(d.join("verifier.bin"), &good.verifier).unwrap();
                if let Some(b) = &c.bytes {
                    std::fs::write(d.join("dummy_proof.bin"), b).unwrap();
                }
                let mut o = Out::of(catch(|| generate_private_batch_circuit_binaries(&d, N, true)));
                let published = d.join("dummy_private_batch_proof.bin").exists();
                match &o {
                    Out::Rejected(msg) if published => {
                        // rejected "before use" means nothing derived from the template is published
                        o = Out::UsedDespiteError(msg.clone());
                    }
                    Out::Accepted => {
                        // what was baked must itself be a genuine all-dummy private-batch template
                        let ok = std::fs::read(d.join("dummy_private_batch_proof.bin")).ok().and_then(|b| Proof::from_bytes(b, &pbv.common).ok()).map(|p| pb_ref(&pis_u64(&p), N) && pbv.verify(p).is_ok());
                        if c.expect_accept && ok != Some(true) {
                            o = Out::Rejected("build returned Ok but the published dummy_private_batch_proof.bin is not a verifying all-dummy batch".into());
                        }
                    }
                    _ => {}
                }
                let _ = std::fs::remove_dir_all(&d);
                o
            }
            Entry::PubNew => {
                let p = c.proof.clone().unwrap();
                Out::of(catch(|| PublicBatchProver::new(wormhole_public_batch_circuit_config(), pbv.common.clone(), &pbv.verifier_only, M, N, p)))
            }
            Entry::PubBytes => Out::of(catch(|| PublicBatchProver::new_from_bytes(&good.pb_common, &good.pb_verifier, c.bytes.as_ref().unwrap(), (N, M)))),
            Entry::PubFiles => {
                let d = variant_dir(&good, "dummy_private_batch_proof.bin", &c.bytes);
                let o = Out::of(catch(|| PublicBatchProver::new_from_files(&d.join("private_batch_common.bin"), &d.join("private_batch_verifier.bin"), &d.join("dummy_private_batch_proof.bin"), (N, M))));
                let _ = std::fs::remove_dir_all(&d);
                o
            }
            Entry::PubDir => {
                let d = variant_dir(&good, "dummy_private_batch_proof.bin", &c.bytes);
                let o = Out::of(catch(|| PublicBatchProver::new_from_binaries_dir(&d)));
                let _ = std::fs::remove_dir_all(&d);
                o
            }
            Entry::AggInit => {
                let d = variant_dir(&good, "dummy_private_batch_proof.bin", &c.bytes);
                let o = Out::of(catch(|| PublicBatchAggregator::with_limits(&d, addr, PoolLimits::default())));
                let _ = std::fs::remove_dir_all(&d);
                o
            }
        }
    };
    let body = |(e, c): &(Entry, &BCase)| {
        let detail = json!({"circuits": "canonical (N=1 leaf per private batch, M=2)", "template_bytes": c.bytes.as_ref().map(|b| b.len()), "public_inputs": c.proof.as_ref().map(pis_u64)});
        let t0 = Instant::now();
        let o = judge(&rep, e.name(), &c.name, c.expect_accept, &c.why, detail, &|| run_entry(*e, c));
        let dt = t0.elapsed().as_secs_f64();
        let mut g = per_entry.lock().unwrap();
        let s = g.entry(e.name()).or_insert((0, 0, 0.0));
        s.0 += 1;
        s.2 += dt;
        if o == Out::Accepted {
            s.1 += 1;
        }
        drop(g);
        if c.name.starts_with("shipped") && o != Out::Accepted {
            die(&format!("C16 non-vacuity: {} does not accept the genuine template generated by generate_all_circuit_binaries: {:?}", e.name(), o));
        }
    };
    pfor(&jobs, body);
    let wall_b = t_b.elapsed().as_secs_f64();
    cleanup();
    quiet.off();

    // ---- evidence ----
    let per_entry = per_entry.into_inner().unwrap();
    rep.extra(
        "free_public_input_children",
        json!(free_summaries.iter().map(|s| json!({"layout": s.layout, "templates": s.cases, "constructor_calls": s.calls, "accepted": s.accepted, "wall_s": s.wall_s})).collect::<Vec<_>>()),
    );
    rep.extra("canonical_entry_points", json!(per_entry.iter().map(|(k, v)| (k.to_string(), json!({"templates": v.0, "accepted": v.1, "mean_call_s": v.2 / v.0.max(1) as f64}))).collect::<serde_json::Map<_, _>>()));
    rep.extra(
        "canonical_templates",
        json!({
            "leaf": leaf_cases.iter().filter(|c| thorough || c.quick).map(|c| json!({"template": c.name, "expected": if c.expect_accept {"accepted"} else {"rejected"}})).collect::<Vec<_>>(),
            "private_batch": pb_cases.iter().filter(|c| thorough || c.quick).map(|c| json!({"template": c.name, "expected": if c.expect_accept {"accepted"} else {"rejected"}})).collect::<Vec<_>>(),
        }),
    );
    rep.extra("wall_s_parts", json!({"free_children": wall_a, "generate_all_circuit_binaries": wall_gen, "canonical_fixtures": wall_fix, "canonical_total": wall_b}));
    rep.sample(json!({"entry_point": "PrivateBatchProver::new(free 21-PI leaf, N=1)", "template": "single:exit_account_2[12]=1", "expected": "rejected"}));
    rep.sample(json!({"entry_point": "PublicBatchProver::new(free 29-PI private batch, M=1, N=1)", "template": "single:exit_slot_1.account[14]=1", "expected": "rejected"}));
    rep.sample(json!({"entry_point": "PublicBatchAggregator::with_limits", "template": "real batch over a leaf with outputs 5/1", "expected": "rejected"}));
    rep.sample(json!({"entry_point": "generate_private_batch_circuit_binaries(include_prover=true)", "template": "dummy with non-zero exit_account_2", "expected": "rejected, nothing published"}));
    rep.rule("case = (entry point, template). (a) PrivateBatchProver::new / PublicBatchProver::new over free-public-input child circuits (21 PIs; 29 PIs = private-batch layout for N=1; thorough also 50 PIs, N=2): the sentinel, every single-position deviation in every public input (scalars {1, 2^32-1}, digest limbs {1, p-1}, the slot count {0, 2N+1, 2^32-1}), per digest the non-zero value [1,p-1,0,0] whose limbs sum to zero, every pair of fields, all sentinel / all non-sentinel fields at once, a flipped opening, proofs of non-sentinel statements relabelled with sentinel public inputs, altered public inputs, wrong public-input counts. (b) over the canonical circuits (one good bins dir from generate_all_circuit_binaries, N=1, M=2; per case a copy with the template file replaced): new, new_from_bytes, new_from_files, new_from_binaries_dir of both provers, generate_private_batch_circuit_binaries(include_prover) and PublicBatchAggregator::with_limits on every deviation the canonical circuits can prove (asset-1 dummy, non-zero exit 1 / exit 2 / both, real leaves with zero and non-zero outputs, real batches, all-dummy batches over other dummies), tampered proofs (public input / opening flipped, relabelled), truncated, empty, wrong-layer and absent files. Oracle: accepted <=> public inputs parse as the layer's layout AND block hash, outputs, asset and both exit accounts (leaf) / block hash and every exit slot (private batch) are zero AND the proof verifies under the pinned verifier; any panic is a violation; a rejected build must not publish dummy_private_batch_proof.bin. quick = (a) sentinel, every position with its first value, the multi-field and invalid-proof cases; (b) the shipped template, one provable deviation per sentinel field and one non-verifying template at every entry point; thorough = everything. distinct = distinct (entry point, template) pairs");
    rep.assume("free-child constructors are run with zero_knowledge=false in the caller-supplied aggregation config (circuit build dominates; template validation does not depend on it); the sentinel, one deviation per sentinel field and the flipped opening are repeated with the production config. Canonical entry points take no config and use the repo's own. Verdicts are compared as Ok/Err, not by error text");
    rep.assume("templates the canonical circuits cannot prove (e.g. a deviation in the second exit slot only) are covered through the free-child constructors only; 'verifies' is decided by the plonky2 verifier on the pinned verifier data and cross-checked against how each fixture was constructed");
    let code = rep.finish();
    std::process::exit(code);
}
