//! C12 (order-preserving forwarding) and C13 (acceptance = metadata consistency among real
//! inners): CX on the circuit built by the real `build_public_batch_constraints` over free
//! inner public inputs.
use rayon::prelude::*;
use serde_json::json;
use std::collections::HashMap;
use vharness::cx::{Cx, Verdict, P};
use vharness::leafx::LeafCtx;
use vharness::mcx::*;
use vharness::privx::{bump, dig, ZFIRST, ZLAST, ZSUM};
use vharness::wrapref::*;

/// inner archetype index vector: [bh(4), asset(2), fee(2), number(2), slots(2), nulls(2), padding(2)]
const SIZES: [usize; 7] = [11, 2, 2, 2, 2, 2, 2];

fn inner(ix: &[usize], n: usize, salt: u64) -> Inner {
    let b1 = dig(1);
    let bhs = [Z4, b1, dig(2), bump(b1, 3), vharness::privx::shift(b1), bump(b1, 0), bump(b1, 1), bump(b1, 2), ZSUM, ZLAST, ZFIRST];
    let mut pis = vec![2 * n as u64, [0u64, 1][ix[1]], [0u64, 7][ix[2]]];
    pis.extend_from_slice(&bhs[ix[0]]);
    pis.push([3u64, 4][ix[3]]);
    for s in 0..2 * n {
        if ix[4] == 0 {
            pis.extend_from_slice(&[0; 5]);
        } else {
            pis.push(10 + s as u64 + salt);
            pis.extend_from_slice(&dig(100 + s as u64 + 10 * salt));
        }
    }
    for k in 0..n {
        pis.extend_from_slice(&if ix[5] == 0 { dig(200 + k as u64 + 10 * salt) } else { dig(300 + k as u64) });
    }
    while pis.len() < 21 * n + 8 {
        pis.push(if ix[6] == 0 { 0 } else { 9 });
    }
    Inner { pis }
}

/// --replay <file>: re-run the recorded (address, inners) case(s) through CX on a freshly
/// built wrapper and compare with the reference predicate / aggregate. No evidence is written.
fn replay(path: &str) -> i32 {
    let v: serde_json::Value = serde_json::from_str(&std::fs::read_to_string(path).unwrap_or_else(|e| machinery_error(&format!("replay file {path}: {e}")))).unwrap_or_else(|e| machinery_error(&format!("replay file {path}: {e}")));
    let case = &v["case"];
    let cases: Vec<&serde_json::Value> = if case["inners"].is_null() { vec![&case["a"], &case["b"]] } else { vec![case] };
    let leaf = LeafCtx::new();
    let mut bad = 0;
    let mut accepts = Vec::new();
    for c in cases {
        let (m, n) = match (c["m"].as_u64(), c["n"].as_u64()) {
            (Some(m), Some(n)) => (m as usize, n as usize),
            _ => machinery_error("replay file holds no (m, n, address, inners) case (sampled large shapes are replayed by re-running the check)"),
        };
        let u64s = |x: &serde_json::Value| -> Vec<u64> { x.as_array().map(|a| a.iter().filter_map(|y| y.as_u64()).collect()).unwrap_or_default() };
        let a = u64s(&c["address"]);
        if a.len() != 4 {
            machinery_error("replay file: address is not four limbs");
        }
        let addr: D4 = [a[0], a[1], a[2], a[3]];
        let inners: Vec<Inner> = c["inners"].as_array().map(|a| a.iter().map(|i| Inner { pis: u64s(i) }).collect()).unwrap_or_default();
        if inners.len() != m || inners.iter().any(|i| i.pis.len() != 21 * n + 8) {
            machinery_error("replay file: inners do not have the recorded shape");
        }
        let w = build_pub_wrapper(m, n, &leaf.data.common);
        let cx = Cx::new(&w.data);
        let spec = public_accepts(&inners);
        match cx.run(&w.inputs(addr, &inners), &[], &[], false).verdict {
            Verdict::Accept { pis, .. } => {
                accepts.push(true);
                println!("M={m} N={n}: circuit ACCEPTS / spec {}", if spec.is_ok() { "accepts".to_string() } else { format!("rejects ({})", spec.unwrap_err()) });
                let want = public_agg(addr, &inners);
                println!("  output   {pis:?}\n  expected {want:?}");
                if spec.is_err() || pis != want {
                    bad += 1;
                }
            }
            Verdict::Reject(r) => {
                accepts.push(false);
                println!("M={m} N={n}: circuit REJECTS ({r:?}) / spec {}", if spec.is_ok() { "accepts" } else { "rejects" });
                if spec.is_ok() {
                    bad += 1;
                }
            }
        }
    }
    if accepts.len() == 2 && accepts[0] != accepts[1] {
        println!("acceptance differs between two cases that differ only in never-cross-checked fields");
        bad += 1;
    }
    if bad > 0 {
        println!("VIOLATION property={} replay={path}", v["property"].as_str().unwrap_or("?"));
        1
    } else {
        println!("no oracle is violated by the recorded case(s)");
        0
    }
}

fn main() {
    quiet_panics();
    if let Some(path) = arg_value("--replay") {
        std::process::exit(replay(&path));
    }
    let tier = tier_from_args();
    let thorough = tier == "thorough";
    let prop = arg_value("--property").unwrap_or_else(|| "C12".into());
    let c12 = Report::new("C12", "exploration", &tier);
    let c13 = Report::new("C13", "exploration", &tier);
    let leaf = LeafCtx::new();
    let mut all_ix: Vec<Vec<usize>> = Vec::new();
    // the zero-like non-zero hashes (index >= 8) only with all-default / all-alternative tails
    product_indices(&SIZES, |ix| {
        let tail = ix[3] + ix[4] + ix[5] + ix[6];
        if ix[0] < 8 || tail == 0 || tail == 4 {
            all_ix.push(ix.to_vec())
        }
    });
    // reduced alphabet for M=3: every field value and every (bh, asset), (bh, fee) pair
    let red: Vec<Vec<usize>> = all_ix
        .iter()
        .filter(|ix| {
            let tail = ix[3] + ix[4] + ix[5] + ix[6];
            (ix[0] < 8 && (tail == 0 || tail == 4)) || (ix[0] >= 8 && ix[1] + ix[2] == 0 && tail == 4) || (ix[1] + ix[2] == 0 && tail == 1 && ix[0] < 2)
        })
        .cloned()
        .collect();
    let addrs: Vec<D4> = vec![Z4, dig(77), [P - 1; 4]];
    let shapes: Vec<(usize, usize)> = if thorough { vec![(1, 1), (2, 1), (3, 1), (2, 2), (1, 3), (4, 1)] } else { vec![(1, 1), (2, 1), (3, 1), (2, 2), (1, 3)] };
    let mut total = 0u64;
    let mut sets = serde_json::Map::new();
    for (m, n) in shapes {
        let w = build_pub_wrapper(m, n, &leaf.data.common);
        let cx = Cx::new(&w.data);
        // vectors of inner archetypes
        let per: &Vec<Vec<usize>> = if m <= 2 { &all_ix } else { &red };
        // M=4: block hashes {0, B1, B2, limb-sum-zero}, every asset/fee, all-default / all-alternative tails (32^4 vectors)
        let per: Vec<Vec<usize>> = if m == 4 { all_ix.iter().filter(|ix| [0usize, 1, 2, 8].contains(&ix[0]) && [0usize, 4].contains(&(ix[3] + ix[4] + ix[5] + ix[6]))).cloned().collect() } else { per.clone() };
        let mut vecs: Vec<Vec<usize>> = Vec::new();
        product_indices(&vec![per.len(); m], |ix| vecs.push(ix.to_vec()));
        if !thorough && m == 2 && n == 2 {
            vecs.retain(|v| v[0] % 3 == 0 || v[1] % 5 == 0);
        }
        let evals: Vec<(Vec<Inner>, D4, bool, Vec<u64>, String)> = vecs
            .par_iter()
            .enumerate()
            .map(|(vi, v)| {
                let inners: Vec<Inner> = v.iter().enumerate().map(|(k, &a)| inner(&per[a], n, k as u64)).collect();
                let addr = addrs[vi % addrs.len()];
                match cx.run(&w.inputs(addr, &inners), &[], &[], false).verdict {
                    Verdict::Accept { pis, .. } => (inners, addr, true, pis, String::new()),
                    Verdict::Reject(r) => (inners, addr, false, vec![], format!("{r:?}")),
                }
            })
            .collect();
        let mut acc = 0u64;
        let case = |inners: &Vec<Inner>, addr: &D4| json!({"m": m, "n": n, "address": addr, "inners": inners.iter().map(|i| i.pis.clone()).collect::<Vec<_>>()});
        // differential classes: key = per inner (dummy? , bh, asset, fee if real)
        let mut cls: HashMap<Vec<(bool, D4, u64, u64)>, Vec<usize>> = HashMap::new();
        for (ei, (inners, addr, accept, pis, rej)) in evals.iter().enumerate() {
            total += 1;
            let key = format!("{m}x{n}:{:016x}", hash64(&(inners, addr)));
            c12.distinct(hash64(&(inners, addr)));
            c13.distinct(hash64(&(inners, addr)));
            let spec = public_accepts(inners);
            if *accept != spec.is_ok() {
                let what = if *accept {
                    format!("public-batch wrapper (M={m},N={n}) is satisfiable for inners the spec rejects: {}", spec.unwrap_err())
                } else {
                    format!("public-batch wrapper (M={m},N={n}) rejects metadata-consistent inners: {rej}")
                };
                c13.violation(&format!("accept:{key}"), &what, case(inners, addr));
                continue;
            }
            cls.entry(inners.iter().map(|i| if i.is_dummy() { (true, Z4, 0, 0) } else { (false, i.bh(), i.asset(), i.fee()) }).collect()).or_default().push(ei);
            if !*accept {
                continue;
            }
            acc += 1;
            let want = public_agg(*addr, inners);
            if pis != &want {
                let first = (0..want.len().max(pis.len())).find(|&i| pis.get(i) != want.get(i)).unwrap_or(0);
                let region = if first < 4 { "address" } else if first < 12 { "header" } else if first < 12 + 10 * n * m { "exit slots" } else { "nullifiers" };
                let mut c = case(inners, addr);
                c["observed"] = json!(pis);
                c["expected"] = json!(want);
                c12.violation(&format!("agg:{key}"), &format!("public-batch output (M={m},N={n}) differs from order-preserving forwarding in the {region} (felt {first})"), c);
            }
            // segment ownership: segment i of each region depends only on inner i
            for (i, inn) in inners.iter().enumerate() {
                let seg = &pis[12 + 10 * n * i..12 + 10 * n * (i + 1)];
                let nseg = &pis[12 + 10 * n * m + 4 * n * i..12 + 10 * n * m + 4 * n * (i + 1)];
                let (ws, wn): (Vec<u64>, Vec<u64>) = if inn.is_dummy() { (vec![0; 10 * n], vec![0; 4 * n]) } else { (inn.slots().to_vec(), inn.nullifiers().to_vec()) };
                if seg != ws.as_slice() || nseg != wn.as_slice() {
                    c12.violation(&format!("segment:{key}:{i}"), &format!("segment {i} of the public-batch output is not inner {i}'s own slots/nullifiers (zeros for an all-dummy inner)"), case(inners, addr));
                }
            }
        }
        // acceptance must be constant on each class (slots, nullifiers, numbers, padding and
        // every field of a zero-hash inner are never cross-checked)
        for (_k, members) in cls.iter().filter(|(_, mm)| mm.len() > 1) {
            let a0 = evals[members[0]].2;
            for &mi in &members[1..] {
                if evals[mi].2 != a0 {
                    c13.violation(&format!("class:{m}x{n}:{:016x}", hash64(&evals[mi].0)), "public-batch acceptance depends on slot contents, nullifiers, block numbers or on a zero-hash inner's fields", json!({"a": case(&evals[members[0]].0, &evals[members[0]].1), "a_accepts": a0, "b": case(&evals[mi].0, &evals[mi].1), "b_accepts": evals[mi].2}));
                }
            }
        }
        sets.insert(format!("M{m}N{n}"), json!({"vectors": evals.len(), "accepted": acc, "inner_alphabet": per.len()}));
        if let Some(e) = evals.iter().find(|e| e.2 && e.0.iter().any(|i| i.is_dummy()) && e.0.iter().any(|i| !i.is_dummy())) {
            let s = json!({"m": m, "n": n, "address": e.1, "inners": e.0.iter().map(|i| i.pis.clone()).collect::<Vec<_>>(), "circuit": "ACCEPT", "output": e.3});
            c12.sample(s.clone());
            c13.sample(s);
        }
        if let Some(e) = evals.iter().find(|e| !e.2) {
            let s = json!({"m": m, "n": n, "inners": e.0.iter().map(|i| i.pis[..8].to_vec()).collect::<Vec<_>>(), "circuit": "REJECT", "spec": public_accepts(&e.0).err()});
            c13.sample(s);
        }
    }
    // larger shapes, structured: every placement of two or three real inners among dummies
    // (clean or garbage-filled), the later ones agreeing or conflicting in exactly one
    // metadata field: position- and count-dependent reference logic at M = 8 and 16
    let mut placed = 0u64;
    for (m, n) in [(8usize, 1usize), (16, 1)] {
        let w = build_pub_wrapper(m, n, &leaf.data.common);
        let cx = Cx::new(&w.data);
        let mut cases: Vec<(Vec<usize>, usize, usize)> = Vec::new(); // (positions, variant of the last real, dummy style)
        for i in 0..m {
            for j in i + 1..m {
                for var in 0..4 {
                    for ds in 0..2 {
                        cases.push((vec![i, j], var, ds));
                    }
                }
                if m == 8 || thorough {
                    for k in j + 1..m {
                        for var in 1..4 {
                            cases.push((vec![i, j, k], var, (i + j + k) % 2));
                        }
                    }
                }
            }
        }
        let evals: Vec<(Vec<Inner>, bool, Vec<u64>, String)> = cases
            .par_iter()
            .map(|(pos, var, ds)| {
                let inners: Vec<Inner> = (0..m)
                    .map(|k| {
                        let ix: Vec<usize> = if let Some(r) = pos.iter().position(|&p| p == k) {
                            let last = r + 1 == pos.len();
                            // variant of the last real inner: 0 consistent, 1 other block hash, 2 other asset, 3 other fee
                            vec![if last && *var == 1 { 2 } else { 1 }, (last && *var == 2) as usize, (last && *var == 3) as usize, r % 2, 1, 0, 0]
                        } else if *ds == 0 {
                            vec![0, 0, 0, 0, 0, 0, 0]
                        } else {
                            vec![0, 1, 1, 1, 1, 1, 1]
                        };
                        inner(&ix, n, k as u64)
                    })
                    .collect();
                match cx.run(&w.inputs(addrs[1], &inners), &[], &[], false).verdict {
                    Verdict::Accept { pis, .. } => (inners, true, pis, String::new()),
                    Verdict::Reject(r) => (inners, false, vec![], format!("{r:?}")),
                }
            })
            .collect();
        for ((pos, var, ds), (inners, accept, pis, rej)) in cases.iter().zip(&evals) {
            placed += 1;
            total += 1;
            c12.distinct(hash64(&(inners, m)));
            c13.distinct(hash64(&(inners, m)));
            let case = json!({"m": m, "n": n, "address": addrs[1], "inners": inners.iter().map(|i| i.pis.clone()).collect::<Vec<_>>()});
            let spec = public_accepts(inners);
            let key = format!("placed:{m}:{pos:?}:{var}:{ds}");
            if *accept != spec.is_ok() {
                let what = if *accept {
                    format!("public-batch wrapper (M={m}) with real inners at positions {pos:?} is satisfiable although the spec rejects: {}", spec.unwrap_err())
                } else {
                    format!("public-batch wrapper (M={m}) with real inners at positions {pos:?} rejects metadata-consistent inners: {rej}")
                };
                c13.violation(&key, &what, case);
            } else if *accept && pis != &public_agg(addrs[1], inners) {
                c12.violation(&key, &format!("public-batch output (M={m}) with real inners at positions {pos:?} differs from order-preserving forwarding"), case);
            }
        }
    }
    // larger shapes, sampled
    let mut sampled = 0u64;
    for (m, n) in [(8usize, 8usize), (16, 1)] {
        let w = build_pub_wrapper(m, n, &leaf.data.common);
        let cx = Cx::new(&w.data);
        for t in 0..(if thorough { 30 } else { 4 }) {
            let inners: Vec<Inner> = (0..m).map(|k| inner(&red[(t * 7 + k * 3) % red.len()], n, k as u64)).collect();
            let addr = addrs[t % 3];
            sampled += 1;
            let v = cx.run(&w.inputs(addr, &inners), &[], &[], false).verdict;
            let spec = public_accepts(&inners).is_ok();
            match v {
                Verdict::Accept { pis, .. } => {
                    if !spec {
                        c13.violation(&format!("sampled-accept:{m}x{n}:{t}"), "sampled large public batch accepted against the spec", json!({"m": m, "n": n, "t": t}));
                    } else if pis != public_agg(addr, &inners) {
                        c12.violation(&format!("sampled-agg:{m}x{n}:{t}"), "sampled large public batch output differs from forwarding", json!({"m": m, "n": n, "t": t}));
                    }
                }
                Verdict::Reject(_) => {
                    if spec {
                        c13.violation(&format!("sampled-reject:{m}x{n}:{t}"), "sampled large public batch rejected against the spec", json!({"m": m, "n": n, "t": t}));
                    }
                }
            }
        }
    }
    for rep in [&c12, &c13] {
        rep.eval(total);
        rep.extra("vector_sets", json!(sets));
        rep.extra("placement_family_runs (M=8,16: every pair / triple of real positions x conflict variant x dummy style)", json!(placed));
        rep.extra("sampled_runs_8x8_16x1 (NOT part of the exhaustive counts)", json!(sampled));
        rep.extra("inner_alphabet", json!({"block hash": "{0,B1,B2,B1 with each limb bumped,B1 with limb0+1/limb1-1, non-zero hashes a careless zero test calls padding: [1,p-1,0,0] (limb sum 0), [0,0,0,5], [5,0,0,0]}", "asset": "{0,1}", "fee": "{0,7}", "number": "{3,4}", "slots": "{all zero, non-zero sums+accounts (also on zero-hash inners)}", "nullifiers": "{distinct per inner, shared across inners}", "padding": "{0,9}", "addresses": "{0, A, all limbs p-1} rotating"}));
        rep.rule("case = (address, M inner private-batch statements) assigned to the free inner public inputs of the circuit built by the real build_public_batch_constraints; full product of the inner archetype alphabet for M<=2, of a sub-alphabet for M>=3 (sizes under vector_sets); oracles: acceptance == spec predicate and constant on classes that differ only in never-cross-checked fields (C13), output == forwarding with per-inner segment ownership (C12). distinct = distinct (address, inners)");
        rep.assume("the wrapper-only circuit uses zero_knowledge=false (production public-batch config is non-ZK anyway); inner statements are arbitrary vectors of the right length (a superset of what private batches can prove)");
    }
    std::process::exit(finish_all(&[&c12, &c13], Some(&prop)));
}
