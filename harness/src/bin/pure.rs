//! pure — bounded-exhaustive enumeration (engine EN) for the pure-function properties
//! C24 (public-input parsers), C25 (byte/digest/integer encodings), C26 (compact node
//! hashing), C28 (circuit-config policy), C29 (per-layer proof counts), C35 (transfer-proof
//! JSON).
//!
//! `pure --property <ID> --tier <quick|thorough>`; exit 0 = held on everything explored,
//! 1 = VIOLATION printed, 2 = machinery error.
//!
//! Oracles are naive reference predicates written here (u128 arithmetic, linear scans) and
//! never call the code under test. Every call into /repo code runs under `catch`. C28 and
//! C29 run their sweeps in a child process of this same binary (a regression there can end
//! in an allocation failure = abort, and repo code prints to stdout/stderr); the parent
//! turns a dead child into a recorded violation and resumes after the culprit call.
#![allow(clippy::too_many_arguments, clippy::type_complexity)]

use plonky2::field::types::{Field, PrimeField64};
use rayon::prelude::*;
use serde_json::{json, Value};
use std::alloc::{GlobalAlloc, Layout, System};
use std::cell::Cell;
use std::collections::HashMap;
use std::fmt::Debug;
use std::sync::atomic::{AtomicU64, AtomicUsize, Ordering};
use std::sync::Mutex;
use vharness::mcx::*;
use zk_circuits_common::circuit::F;

// =====================================================================================
// Counting allocator: per-thread peak / cumulative bytes inside a measured call; in the
// child process additionally a hard ceiling (single request and process-wide live bytes)
// so that a runaway regression dies deterministically instead of taking the machine down.
// =====================================================================================

struct Counting;
thread_local! {
    static T_ON: Cell<bool> = const { Cell::new(false) };
    static T_CUR: Cell<isize> = const { Cell::new(0) };
    static T_PEAK: Cell<isize> = const { Cell::new(0) };
    static T_TOTAL: Cell<usize> = const { Cell::new(0) };
}
static DENY_SINGLE: AtomicUsize = AtomicUsize::new(usize::MAX);
static DENY_LIVE: AtomicUsize = AtomicUsize::new(usize::MAX);
static LIVE: AtomicUsize = AtomicUsize::new(0);

#[inline]
fn note(delta: isize) {
    let _ = T_ON.try_with(|on| {
        if on.get() {
            let _ = T_CUR.try_with(|c| {
                let v = c.get() + delta;
                c.set(v);
                let _ = T_PEAK.try_with(|p| {
                    if v > p.get() {
                        p.set(v)
                    }
                });
            });
            if delta > 0 {
                let _ = T_TOTAL.try_with(|t| t.set(t.get().wrapping_add(delta as usize)));
            }
        }
    });
}
#[inline]
fn denied(size: usize) -> bool {
    size > DENY_SINGLE.load(Ordering::Relaxed)
        || LIVE.load(Ordering::Relaxed).saturating_add(size) > DENY_LIVE.load(Ordering::Relaxed)
}
unsafe impl GlobalAlloc for Counting {
    unsafe fn alloc(&self, l: Layout) -> *mut u8 {
        if denied(l.size()) {
            return std::ptr::null_mut();
        }
        let p = System.alloc(l);
        if !p.is_null() {
            LIVE.fetch_add(l.size(), Ordering::Relaxed);
            note(l.size() as isize);
        }
        p
    }
    unsafe fn alloc_zeroed(&self, l: Layout) -> *mut u8 {
        if denied(l.size()) {
            return std::ptr::null_mut();
        }
        let p = System.alloc_zeroed(l);
        if !p.is_null() {
            LIVE.fetch_add(l.size(), Ordering::Relaxed);
            note(l.size() as isize);
        }
        p
    }
    unsafe fn dealloc(&self, p: *mut u8, l: Layout) {
        System.dealloc(p, l);
        LIVE.fetch_sub(l.size(), Ordering::Relaxed);
        note(-(l.size() as isize));
    }
    unsafe fn realloc(&self, p: *mut u8, l: Layout, new: usize) -> *mut u8 {
        if new > l.size() && denied(new - l.size()) {
            return std::ptr::null_mut();
        }
        let q = System.realloc(p, l, new);
        if !q.is_null() {
            if new >= l.size() {
                LIVE.fetch_add(new - l.size(), Ordering::Relaxed);
            } else {
                LIVE.fetch_sub(l.size() - new, Ordering::Relaxed);
            }
            note(new as isize - l.size() as isize);
        }
        q
    }
}
#[global_allocator]
static ALLOC: Counting = Counting;

/// Result of a measured call: outcome (Err = panic message), peak live bytes and cumulative
/// bytes allocated on the calling thread during the call.
struct Measured<R> {
    r: Result<R, String>,
    peak: usize,
    total: usize,
}
fn measured<R>(f: impl FnOnce() -> R) -> Measured<R> {
    T_CUR.with(|c| c.set(0));
    T_PEAK.with(|c| c.set(0));
    T_TOTAL.with(|c| c.set(0));
    T_ON.with(|c| c.set(true));
    let r = catch(f);
    T_ON.with(|c| c.set(false));
    Measured { r, peak: T_PEAK.with(|c| c.get()).max(0) as usize, total: T_TOTAL.with(|c| c.get()) }
}

const MIB: usize = 1 << 20;
const P: u64 = 0xFFFF_FFFF_0000_0001;
const U32M: u64 = u32::MAX as u64;

fn fe(v: u64) -> F {
    F::from_noncanonical_u64(v)
}
fn canon(v: u64) -> u64 {
    if v >= P {
        v - P
    } else {
        v
    }
}
fn limbs_to_bytes(l: &[u64]) -> Vec<u8> {
    l.iter().flat_map(|x| x.to_le_bytes()).collect()
}
fn limbs32(l: &[u64]) -> [u8; 32] {
    let mut b = [0u8; 32];
    for (i, x) in l.iter().take(4).enumerate() {
        b[i * 8..i * 8 + 8].copy_from_slice(&x.to_le_bytes());
    }
    b
}
fn short<T: Debug>(v: &[T]) -> Value {
    if v.len() <= 96 {
        json!(format!("{v:?}"))
    } else {
        json!(format!("len {} head {:?} tail {:?}", v.len(), &v[..24], &v[v.len() - 24..]))
    }
}

/// Run `f` over `items` on all cores; `f` returns the hash of the case and the number of
/// oracle evaluations it performed.
fn sweep<T: Sync>(rep: &Report, items: &[T], f: impl Fn(&T) -> (u64, u64) + Sync) {
    items.par_chunks(512).for_each(|ch| {
        let mut hs = Vec::with_capacity(ch.len());
        let mut n = 0;
        for t in ch {
            let (h, e) = f(t);
            hs.push(h);
            n += e;
        }
        rep.eval(n);
        rep.distinct_many(hs);
    });
}

/// Compare an implementation result with the reference (two-sided, value included).
fn compare<T: PartialEq + Debug>(
    rep: &Report,
    who: &str,
    got: &Result<anyhow::Result<T>, String>,
    want: &Option<T>,
    tag: &dyn Fn() -> String,
    input: &dyn Fn() -> Value,
) {
    let (kind, text): (&str, String) = match (got, want) {
        (Err(p), _) => ("panic", format!("{who} panicked: {p}")),
        (Ok(Ok(g)), Some(w)) if g == w => return,
        (Ok(Ok(g)), Some(w)) => ("wrong-value", format!("{who} returned {g:?}, the layout says {w:?}")),
        (Ok(Ok(g)), None) => ("accepts-malformed", format!("{who} accepted a vector that is not a well-formed layout: {g:?}")),
        (Ok(Err(e)), Some(_)) => ("rejects-wellformed", format!("{who} rejected a well-formed layout: {e:#}")),
        (Ok(Err(_)), None) => return,
    };
    let t = tag();
    rep.violation(&format!("{who}:{kind}:{t}"), &format!("{text} [{t}]"), json!({"parser": who, "case": t, "input": input()}));
}

// =====================================================================================
// C24 — public-input parsers
// =====================================================================================
mod c24 {
    use super::*;
    use qp_wormhole_inputs::{
        BlockData, BytesDigest, PrivateBatchPublicInputs, PublicBatchPublicInputs, PublicCircuitInputs, PublicInputsByAccount,
    };
    use wormhole_circuit::inputs::{ParsePrivateBatchPublicInputs, ParsePublicInputs};

    const G: [u64; 7] = [0, 1, U32M, 1 << 32, P - 1, P, u64::MAX];

    fn dg(l: &[u64]) -> BytesDigest {
        BytesDigest::new_unchecked(limbs32(l))
    }
    fn u32ok(v: u64) -> bool {
        v <= U32M
    }
    fn limbs_ok(l: &[u64]) -> bool {
        l.iter().all(|&x| x < P)
    }

    /// Reference: the documented 21-element leaf layout.
    pub fn ref_leaf(v: &[u64]) -> Option<PublicCircuitInputs> {
        if v.len() != 21 {
            return None;
        }
        for i in [0usize, 1, 2, 3, 20] {
            if !u32ok(v[i]) {
                return None;
            }
        }
        if !limbs_ok(&v[4..20]) {
            return None;
        }
        Some(PublicCircuitInputs {
            asset_id: v[0] as u32,
            output_amount_1: v[1] as u32,
            output_amount_2: v[2] as u32,
            volume_fee_bps: v[3] as u32,
            nullifier: dg(&v[4..8]),
            exit_account_1: dg(&v[8..12]),
            exit_account_2: dg(&v[12..16]),
            block_hash: dg(&v[16..20]),
            block_number: v[20] as u32,
        })
    }

    /// Reference: 8 + 21 N elements, header constant 2N, 2N exit slots, N nullifiers; the
    /// remaining 7N elements are unparsed padding.
    pub fn ref_private(v: &[u64]) -> Option<PrivateBatchPublicInputs> {
        if v.len() < 8 || (v.len() - 8) % 21 != 0 {
            return None;
        }
        let n = (v.len() - 8) / 21;
        if !(1..=64).contains(&n) {
            return None;
        }
        if v[0] as u128 != 2 * n as u128 {
            return None;
        }
        if !u32ok(v[1]) || !u32ok(v[2]) || !u32ok(v[7]) || !limbs_ok(&v[3..7]) {
            return None;
        }
        let mut account_data = vec![];
        for i in 0..2 * n {
            let b = 8 + 5 * i;
            if !u32ok(v[b]) || !limbs_ok(&v[b + 1..b + 5]) {
                return None;
            }
            account_data.push(PublicInputsByAccount { summed_output_amount: v[b] as u32, exit_account: dg(&v[b + 1..b + 5]) });
        }
        let mut nullifiers = vec![];
        for i in 0..n {
            let b = 8 + 10 * n + 4 * i;
            if !limbs_ok(&v[b..b + 4]) {
                return None;
            }
            nullifiers.push(dg(&v[b..b + 4]));
        }
        Some(PrivateBatchPublicInputs {
            num_exit_slots: v[0] as u32,
            asset_id: v[1] as u32,
            volume_fee_bps: v[2] as u32,
            block_data: BlockData { block_hash: dg(&v[3..7]), block_number: v[7] as u32 },
            account_data,
            nullifiers,
        })
    }

    pub fn valid_count(c: usize) -> bool {
        (1..=64).contains(&c)
    }

    /// Reference: 12 + 14 M N elements, header constant 2MN.
    pub fn ref_public(v: &[u64], m: usize, n: usize) -> Option<PublicBatchPublicInputs> {
        if !valid_count(m) || !valid_count(n) {
            return None;
        }
        let mn = m * n;
        if v.len() != 12 + 14 * mn {
            return None;
        }
        if !limbs_ok(&v[0..4]) || !u32ok(v[4]) || !u32ok(v[5]) || !limbs_ok(&v[6..10]) || !u32ok(v[10]) {
            return None;
        }
        if v[11] != 2 * mn as u64 {
            return None;
        }
        let mut account_data = vec![];
        for i in 0..2 * mn {
            let b = 12 + 5 * i;
            if !u32ok(v[b]) || !limbs_ok(&v[b + 1..b + 5]) {
                return None;
            }
            account_data.push(PublicInputsByAccount { summed_output_amount: v[b] as u32, exit_account: dg(&v[b + 1..b + 5]) });
        }
        let mut nullifiers = vec![];
        for i in 0..mn {
            let b = 12 + 10 * mn + 4 * i;
            if !limbs_ok(&v[b..b + 4]) {
                return None;
            }
            nullifiers.push(dg(&v[b..b + 4]));
        }
        Some(PublicBatchPublicInputs {
            aggregator_address: dg(&v[0..4]),
            asset_id: v[4] as u32,
            volume_fee_bps: v[5] as u32,
            block_data: BlockData { block_hash: dg(&v[6..10]), block_number: v[10] as u32 },
            total_exit_slots: v[11] as u32,
            account_data,
            nullifiers,
        })
    }

    // ---- the three checks (each returns the number of parser calls) -------------------
    fn check_leaf(rep: &Report, v: &[u64], tag: &dyn Fn() -> String) -> u64 {
        let inp = || short(v);
        let got = catch(|| PublicCircuitInputs::try_from_u64_slice(v));
        compare(rep, "leaf-u64", &got, &ref_leaf(v), tag, &inp);
        let felts: Vec<F> = v.iter().map(|&x| fe(x)).collect();
        let cv: Vec<u64> = v.iter().map(|&x| canon(x)).collect();
        let gotf = catch(|| <PublicCircuitInputs as ParsePublicInputs>::try_from_felts(&felts));
        compare(rep, "leaf-felt", &gotf, &ref_leaf(&cv), tag, &inp);
        let gotc = catch(|| PublicCircuitInputs::try_from_u64_slice(&cv));
        agree(rep, "leaf", &gotf, &gotc, tag, &inp);
        3
    }
    fn check_private(rep: &Report, v: &[u64], tag: &dyn Fn() -> String) -> u64 {
        let inp = || short(v);
        let got = catch(|| PrivateBatchPublicInputs::try_from_u64_slice(v));
        compare(rep, "private-u64", &got, &ref_private(v), tag, &inp);
        let felts: Vec<F> = v.iter().map(|&x| fe(x)).collect();
        let cv: Vec<u64> = v.iter().map(|&x| canon(x)).collect();
        let gotf = catch(|| <PrivateBatchPublicInputs as ParsePrivateBatchPublicInputs>::try_from_felts(&felts));
        compare(rep, "private-felt", &gotf, &ref_private(&cv), tag, &inp);
        let gotc = catch(|| PrivateBatchPublicInputs::try_from_u64_slice(&cv));
        agree(rep, "private", &gotf, &gotc, tag, &inp);
        3
    }
    fn check_public(rep: &Report, v: &[u64], m: usize, n: usize, tag: &dyn Fn() -> String) -> u64 {
        let inp = || json!({"m": m.to_string(), "n": n.to_string(), "pis": short(v)});
        let got = catch(|| PublicBatchPublicInputs::try_from_u64_slice(v, m, n));
        compare(rep, "public-u64", &got, &ref_public(v, m, n), tag, &inp);
        1
    }
    /// felt-based parser on v  ==  u64-based parser on the canonical values of v.
    fn agree<T: PartialEq + Debug>(
        rep: &Report,
        who: &str,
        a: &Result<anyhow::Result<T>, String>,
        b: &Result<anyhow::Result<T>, String>,
        tag: &dyn Fn() -> String,
        input: &dyn Fn() -> Value,
    ) {
        let bad = match (a, b) {
            (Ok(Ok(x)), Ok(Ok(y))) => x != y,
            (Ok(Err(_)), Ok(Err(_))) => false,
            (Err(_), _) | (_, Err(_)) => false, // panics are reported by `compare`
            _ => true,
        };
        if bad {
            let t = tag();
            let d = |r: &Result<anyhow::Result<T>, String>| match r {
                Ok(Ok(x)) => format!("Ok({x:?})"),
                Ok(Err(e)) => format!("Err({e:#})"),
                Err(p) => format!("panic({p})"),
            };
            rep.violation(
                &format!("{who}:parsers-disagree:{t}"),
                &format!("felt-based and u64-based {who} parsers disagree on the same values: felt={} u64={} [{t}]", d(a), d(b)),
                json!({"case": t, "input": input()}),
            );
        }
    }

    /// All vectors within Hamming distance k of `base` over per-position alphabets.
    fn ball(
        rep: &Report,
        label: &str,
        base: &[u64],
        alph: &(dyn Fn(usize) -> Vec<u64> + Sync),
        k: usize,
        check: &(dyn Fn(&[u64], &dyn Fn() -> String) -> u64 + Sync),
    ) -> usize {
        let alphs: Vec<Vec<u64>> = (0..base.len()).map(alph).collect();
        let alts: Vec<usize> = alphs.iter().map(|a| a.len()).collect();
        let edits = edits_within_distance(&alts, k);
        let lh = hash64(&label);
        sweep(rep, &edits, |e| {
            let mut v = base.to_vec();
            for &(f, a) in e {
                v[f] = alphs[f][a];
            }
            let n = check(&v, &|| format!("{label}:{}", e.iter().map(|&(f, a)| format!("[{f}]={}", alphs[f][a])).collect::<Vec<_>>().join(",")));
            (hash64(&(lh, &v)), n)
        });
        edits.len()
    }

    fn leaf_bases() -> Vec<Vec<u64>> {
        let mut b0: Vec<u64> = (0..21).map(|i| 1000 + i as u64).collect();
        b0[0] = 7;
        b0[20] = 4242;
        let mut b1 = vec![P - 1; 21];
        for i in [0usize, 1, 2, 3, 20] {
            b1[i] = U32M;
        }
        vec![b0, b1, vec![0; 21]]
    }
    pub fn private_base(n: usize, kind: usize) -> Vec<u64> {
        let len = 8 + 21 * n;
        let parsed = 8 + 14 * n;
        let mut v = vec![0u64; len];
        match kind {
            0 => {
                for (i, x) in v.iter_mut().enumerate().take(parsed) {
                    *x = 100 + i as u64;
                }
                for (i, x) in v.iter_mut().enumerate().skip(parsed) {
                    *x = 7_000_000 + i as u64;
                }
            }
            1 => {
                for x in v.iter_mut().take(parsed) {
                    *x = P - 1;
                }
                v[1] = U32M;
                v[2] = U32M;
                v[7] = U32M;
                for i in 0..2 * n {
                    v[8 + 5 * i] = U32M;
                }
                // the padding region is never parsed: anything may sit there, also >= p
                for x in v.iter_mut().skip(parsed) {
                    *x = u64::MAX;
                }
            }
            _ => {}
        }
        v[0] = 2 * n as u64;
        v
    }
    pub fn public_base(m: usize, n: usize, kind: usize) -> Vec<u64> {
        let mn = m * n;
        let len = 12 + 14 * mn;
        let mut v = vec![0u64; len];
        match kind {
            0 => {
                for (i, x) in v.iter_mut().enumerate() {
                    *x = 100 + i as u64;
                }
            }
            1 => {
                for x in v.iter_mut() {
                    *x = P - 1;
                }
                v[4] = U32M;
                v[5] = U32M;
                v[10] = U32M;
                for i in 0..2 * mn {
                    v[12 + 5 * i] = U32M;
                }
            }
            _ => {}
        }
        v[11] = 2 * mn as u64;
        v
    }

    pub fn run(rep: &Report, thorough: bool) {
        let mut bounds = serde_json::Map::new();
        // ---------------- leaf ----------------
        let mut n_leaf = 0;
        for (bi, b) in leaf_bases().iter().enumerate() {
            n_leaf += ball(rep, &format!("leaf/base{bi}"), b, &|_| G.to_vec(), 2, &|v, t| check_leaf(rep, v, t));
        }
        // lengths 0..=23 and a few longer ones, content = prefix/extension of every base
        let mut lens: Vec<(usize, usize)> = vec![];
        for bi in 0..3 {
            for l in (0..=23).chain([29, 42, 1000]) {
                lens.push((bi, l));
            }
        }
        let lb = leaf_bases();
        sweep(rep, &lens, |&(bi, l)| {
            let v: Vec<u64> = (0..l).map(|i| lb[bi][i % 21]).collect();
            (hash64(&("leaf-len", bi, l)), check_leaf(rep, &v, &|| format!("leaf/base{bi}/len{l}")))
        });
        bounds.insert("leaf".into(), json!({"bases": 3, "alphabet": format!("{G:?}"), "distance": 2, "vectors": n_leaf, "lengths": "0..=23,29,42,1000"}));
        rep.sample(json!({"leaf base0": format!("{:?}", lb[0])}));

        // ---------------- private batch ----------------
        let header_alph = |n: usize| -> Vec<u64> {
            let c = 2 * n as u64;
            let mut a = G.to_vec();
            a.extend([c - 1, c, c + 1, (1u64 << 32) + c, P + c, 2 * c, n as u64]);
            a
        };
        let mut plan: Vec<(usize, usize)> = vec![(1, 2), (2, 2), (3, if thorough { 2 } else { 1 })];
        if thorough {
            plan.push((63, 1));
            plan.push((64, 1));
        }
        let mut priv_sizes = vec![];
        for &(n, k) in &plan {
            for kind in 0..3 {
                let b = private_base(n, kind);
                let c = ball(
                    rep,
                    &format!("private/N{n}/base{kind}"),
                    &b,
                    &|i| if i == 0 { header_alph(n) } else { G.to_vec() },
                    k,
                    &|v, t| check_private(rep, v, t),
                );
                priv_sizes.push(json!({"N": n, "base": kind, "distance": k, "vectors": c}));
            }
        }
        // every length 0..=8+21*3+1, and around the count boundary 64/65; content = the valid
        // base for floor((len-8)/21) leaves cut or extended to the length; header for N and N+-1
        let mut plens: Vec<(usize, usize, u64)> = vec![];
        let top = 8 + 21 * 66 + 2;
        for l in (0..=8 + 21 * 3 + 1).chain(8 + 21 * 62..=top) {
            let n = if l >= 8 { (l - 8) / 21 } else { 0 };
            for kind in 0..3 {
                for h in [2 * n as u64, 0, 2 * (n as u64 + 1), 128, 130] {
                    plens.push((l, kind, h));
                }
            }
        }
        sweep(rep, &plens, |&(l, kind, h)| {
            let n = if l >= 8 { (l - 8) / 21 } else { 0 };
            let mut v = private_base(n.max(1), kind);
            v.resize(l, 3);
            if l > 0 {
                v[0] = h;
            }
            (hash64(&("plen", l, kind, h)), check_private(rep, &v, &|| format!("private/len{l}/base{kind}/header{h}")))
        });
        bounds.insert("private".into(), json!({"balls": priv_sizes, "header alphabet": "G + {2N-1,2N,2N+1,2^32+2N,p+2N,4N,N}", "lengths": format!("0..=72 and {}..={top}, x3 contents x5 header values", 8 + 21 * 62)}));
        rep.sample(json!({"private N=1 base0": format!("{:?}", private_base(1, 0))}));

        // ---------------- public batch ----------------
        let tot_alph = |mn: usize| -> Vec<u64> {
            let c = 2 * mn as u64;
            let mut a = G.to_vec();
            a.extend([c - 1, c, c + 1, (1u64 << 32) + c, P + c]);
            a
        };
        let mut pub_plan: Vec<(usize, usize, usize)> = vec![(1, 1, 2), (1, 2, 1), (2, 1, 1), (2, 2, 1)];
        if thorough {
            pub_plan.extend([(1, 2, 2), (2, 1, 2), (3, 2, 1), (1, 64, 1), (64, 1, 1)]);
        }
        let mut pub_sizes = vec![];
        for &(m, n, k) in &pub_plan {
            for kind in 0..3 {
                let b = public_base(m, n, kind);
                let c = ball(
                    rep,
                    &format!("public/M{m}N{n}/base{kind}"),
                    &b,
                    &|i| if i == 11 { tot_alph(m * n) } else { G.to_vec() },
                    k,
                    &|v, t| check_public(rep, v, m, n, t),
                );
                pub_sizes.push(json!({"M": m, "N": n, "base": kind, "distance": k, "vectors": c}));
            }
        }
        // counts grid x lengths
        let counts: Vec<usize> = vec![0, 1, 2, 3, 63, 64, 65, 1000, 1 << 32, 1 << 63, usize::MAX];
        let mut grid: Vec<(usize, usize, usize, usize)> = vec![]; // (m, n, len, kind)
        for &m in &counts {
            for &n in &counts {
                let mut ls: Vec<usize> = vec![0, 11, 12, 13, 26, 40];
                let exact = (m as u128).checked_mul(n as u128).and_then(|x| x.checked_mul(14)).and_then(|x| x.checked_add(12)).unwrap_or(u128::MAX);
                let wrapped = 12usize.wrapping_add(14usize.wrapping_mul(m.wrapping_mul(n)));
                for c in [exact.min(u64::MAX as u128) as usize, wrapped] {
                    if c <= 70_000 {
                        ls.extend([c.saturating_sub(1), c, c + 1]);
                    }
                }
                ls.sort();
                ls.dedup();
                for l in ls {
                    for kind in 0..2 {
                        grid.push((m, n, l, kind));
                    }
                }
            }
        }
        sweep(rep, &grid, |&(m, n, l, kind)| {
            // content: the valid layout for (m, n) if there is one, else for the (1,1)/(len-derived) shape
            let mut v = if valid_count(m) && valid_count(n) { public_base(m, n, kind) } else { public_base(1, 1, kind) };
            v.resize(l, 5);
            if l > 11 {
                v[11] = 2u64.wrapping_mul(m as u64).wrapping_mul(n as u64);
            }
            (hash64(&("pgrid", m, n, l, kind)), check_public(rep, &v, m, n, &|| format!("public/M{m}N{n}/len{l}/base{kind}")))
        });
        bounds.insert("public".into(), json!({"balls": pub_sizes, "counts": format!("{counts:?}^2"), "lengths": "0,11,12,13,26,40, exact and wrapped layout length +-1 (when <= 70000)", "grid cases": grid.len()}));
        rep.sample(json!({"public (1,1) base0": format!("{:?}", public_base(1, 1, 0))}));
        rep.extra("bounds", Value::Object(bounds));
        rep.rule("case = (parser, input vector[, counts]); every vector within the stated Hamming distance of three valid serialisations (small distinct values / all maxima u32::MAX, p-1 / zeros) over G = {0,1,2^32-1,2^32,p-1,p,2^64-1} plus the header-constant neighbours, every length in the stated ranges, the public-batch counts grid. Each case: u64 parser vs reference layout predicate (Ok iff well-formed, value equal = round trip), felt parser on the same raw values (non-canonical representations included) vs reference on the canonical values, and felt parser == u64 parser on the canonical values. distinct = distinct (space, vector)");
        rep.assume("well-formedness does not constrain the 7N unparsed padding elements of the private-batch layout (the statement lists length, counts, header constants, u32 scalars, canonical digests)");
        rep.assume("'the two private-batch parsers agree' is evaluated as: felt parser on v == u64 parser on the canonical u64 values of v (a u64 >= p has no felt of the same integer value)");
    }
}

// =====================================================================================
// C25 — edge encoding, digests, limb decoding, quantisation
// =====================================================================================
mod c25 {
    use super::*;
    use wormhole_circuit::sensitive::Secret;
    use zk_circuits_common::serialization as ser;
    use zk_circuits_common::utils as ut;
    use zk_circuits_common::utils::BytesDigest;

    const CAP: usize = 1 << 20;

    /// Reference encoder: little-endian 32-bit words; the final word carries the 0..3
    /// leftover bytes followed by the marker byte 0x01.
    pub fn ref_encode(b: &[u8]) -> Vec<u64> {
        let mut out = vec![];
        let full = b.len() / 4;
        for i in 0..full {
            let w = (b[4 * i] as u64) | (b[4 * i + 1] as u64) << 8 | (b[4 * i + 2] as u64) << 16 | (b[4 * i + 3] as u64) << 24;
            out.push(w);
        }
        let rem = &b[4 * full..];
        let mut w = 0u64;
        for (j, &x) in rem.iter().enumerate() {
            w |= (x as u64) << (8 * j);
        }
        w |= 1u64 << (8 * rem.len());
        out.push(w);
        out
    }
    /// Reference decoder: defined as "the unique b with ref_encode(b) == v", found from the
    /// position of the highest non-zero byte of the last word (which must be the marker).
    pub fn ref_decode(v: &[u64]) -> Option<Vec<u8>> {
        if v.is_empty() || v.iter().any(|&x| x > U32M) {
            return None;
        }
        let mut out = vec![];
        for &w in &v[..v.len() - 1] {
            out.extend_from_slice(&(w as u32).to_le_bytes());
        }
        let last = (*v.last().unwrap() as u32).to_le_bytes();
        let hi = (0..4).rev().find(|&j| last[j] != 0)?;
        if last[hi] != 1 {
            return None;
        }
        out.extend_from_slice(&last[..hi]);
        Some(out)
    }
    fn canon_vec(f: &[F]) -> Vec<u64> {
        f.iter().map(|x| x.to_canonical_u64()).collect()
    }

    fn check_encode(rep: &Report, b: &[u8], tag: &dyn Fn() -> String) -> Option<Vec<u64>> {
        let want_ok = b.len() <= CAP;
        let viol = |kind: &str, text: String| {
            let t = tag();
            rep.violation(&format!("edge:{kind}:{t}"), &format!("{text} [{t}]"), json!({"case": t, "bytes": short(b)}));
        };
        match catch(|| ser::bytes_to_felts(b)) {
            Err(p) => {
                viol("encode-panic", format!("bytes_to_felts panicked: {p}"));
                None
            }
            Ok(Err(e)) => {
                if want_ok {
                    viol("encode-rejects", format!("bytes_to_felts rejected {} bytes (cap is {CAP}): {e}", b.len()));
                }
                None
            }
            Ok(Ok(f)) => {
                if !want_ok {
                    viol("encode-overcap", format!("bytes_to_felts accepted {} bytes, above the 1 MiB cap", b.len()));
                    return None;
                }
                let c = canon_vec(&f);
                if c != ref_encode(b) {
                    viol("encode-value", format!("bytes_to_felts differs from the 4-bytes-per-felt + terminator encoding: {}", short(&c)));
                }
                match catch(|| ser::felts_to_bytes(&f)) {
                    Err(p) => viol("decode-panic", format!("felts_to_bytes panicked on an encoder output: {p}")),
                    Ok(Err(e)) => viol("roundtrip", format!("felts_to_bytes rejected an encoder output: {e}")),
                    Ok(Ok(back)) => {
                        if back != b {
                            viol("roundtrip", format!("decode(encode(b)) != b: got {}", short(&back)));
                        }
                    }
                }
                Some(c)
            }
        }
    }

    fn check_decode(rep: &Report, raw: &[u64], tag: &dyn Fn() -> String) {
        let f: Vec<F> = raw.iter().map(|&x| fe(x)).collect();
        let c: Vec<u64> = raw.iter().map(|&x| canon(x)).collect();
        let want = if c.len() <= ser::MAX_SERIALIZED_FELTS { ref_decode(&c) } else { None };
        let viol = |kind: &str, text: String| {
            let t = tag();
            rep.violation(&format!("edge:{kind}:{t}"), &format!("{text} [{t}]"), json!({"case": t, "felts": short(raw)}));
        };
        match (catch(|| ser::felts_to_bytes(&f)), want) {
            (Err(p), _) => viol("decode-panic", format!("felts_to_bytes panicked: {p}")),
            (Ok(Ok(b)), None) => viol("decode-accepts-malformed", format!("felts_to_bytes accepted a vector that is not the encoding of any byte string (or is over the felt cap): -> {}", short(&b))),
            (Ok(Err(e)), Some(b)) => viol("decode-rejects-image", format!("felts_to_bytes rejected the encoding of {}: {e}", short(&b))),
            (Ok(Ok(b)), Some(w)) => {
                if b != w {
                    viol("decode-value", format!("felts_to_bytes returned {} but the vector encodes {}", short(&b), short(&w)));
                }
                // accepted vectors are exactly images: re-encoding gives the vector back
                if let Ok(Ok(f2)) = catch(|| ser::bytes_to_felts(&b)) {
                    if canon_vec(&f2) != c {
                        viol("decode-not-image", "encode(decode(v)) != v".into());
                    }
                }
            }
            (Ok(Err(_)), None) => {}
        }
    }

    pub fn run(rep: &Report, thorough: bool) {
        let mut bounds = serde_json::Map::new();
        // ---------- edge encoding: small strings, exhaustive ----------
        let mut strings: Vec<Vec<u8>> = vec![vec![]];
        for a in 0..=255u8 {
            strings.push(vec![a]);
        }
        for a in 0..=255u8 {
            for b in 0..=255u8 {
                strings.push(vec![a, b]);
            }
        }
        let n_le2 = strings.len();
        let al = [0u8, 1, 2, 0xff];
        for len in 3..=(if thorough { 8 } else { 7 }) {
            product_indices(&vec![4usize; len], |ix| strings.push(ix.iter().map(|&i| al[i]).collect()));
        }
        if thorough {
            // all 3-byte strings over 16 values
            let a16: Vec<u8> = vec![0, 1, 2, 3, 4, 0x0f, 0x10, 0x7f, 0x80, 0x81, 0xaa, 0xf0, 0xfd, 0xfe, 0xff, 0x55];
            product_indices(&[16, 16, 16], |ix| strings.push(ix.iter().map(|&i| a16[i]).collect()));
        }
        // every length around 4 KiB (all residues mod 4), three fillers
        for l in 4090..=4102usize {
            for fill in [0u8, 1, 0xff] {
                strings.push(vec![fill; l]);
            }
        }
        strings.sort();
        strings.dedup();
        let enc: Vec<Option<Vec<u64>>> = strings
            .par_chunks(512)
            .flat_map_iter(|ch| {
                let out: Vec<Option<Vec<u64>>> = ch.iter().map(|b| check_encode(rep, b, &|| format!("bytes {}", short(b)))).collect();
                rep.eval(3 * ch.len() as u64);
                rep.distinct_many(ch.iter().map(|b| hash64(&("enc", b))));
                out
            })
            .collect();
        // injectivity by set membership over everything enumerated
        let mut seen: HashMap<&[u64], usize> = HashMap::new();
        for (i, e) in enc.iter().enumerate() {
            if let Some(e) = e {
                if let Some(&j) = seen.get(e.as_slice()) {
                    rep.violation(
                        &format!("edge:collision:{:?}", strings[j]),
                        &format!("two distinct byte strings have the same encoding: {} and {}", short(&strings[j]), short(&strings[i])),
                        json!({"a": short(&strings[j]), "b": short(&strings[i]), "encoding": short(e)}),
                    );
                } else {
                    seen.insert(e.as_slice(), i);
                }
            }
        }
        rep.eval(enc.len() as u64);
        bounds.insert("edge small".into(), json!({"all strings of length <= 2": n_le2, "strings over {0,1,2,0xff}": format!("length 3..={}", if thorough { 8 } else { 7 }), "lengths 4090..=4102 x fillers {0,1,0xff}": 39, "total distinct strings": strings.len()}));
        rep.sample(json!({"edge": "[1,2,3,4,5] -> [0x04030201, 0x0105]"}));

        // ---------- edge encoding: the cap ----------
        let mut big: Vec<(usize, u8)> = vec![];
        for l in [CAP - 5, CAP - 4, CAP - 3, CAP - 2, CAP - 1, CAP, CAP + 1, CAP + 2, CAP + 3, CAP + 4, 2 * CAP, 8 * CAP] {
            for pat in 0..(if thorough { 5 } else { 3 }) {
                big.push((l, pat));
            }
        }
        let fill = |l: usize, pat: u8| -> Vec<u8> {
            match pat {
                0 => vec![0x5a; l],
                1 => vec![0; l],
                2 => (0..l).map(|i| (i % 251) as u8).collect(),
                3 => vec![0xff; l],
                _ => vec![1; l],
            }
        };
        let big_enc: Vec<(usize, u8, Option<u64>)> = big
            .par_iter()
            .map(|&(l, pat)| {
                let b = fill(l, pat);
                let e = check_encode(rep, &b, &|| format!("len {l} pattern {pat}"));
                rep.eval(3);
                rep.distinct(hash64(&("encbig", l, pat)));
                (l, pat, e.map(|e| hash64(&e)))
            })
            .collect();
        for (i, a) in big_enc.iter().enumerate() {
            for b in &big_enc[..i] {
                if a.2.is_some() && a.2 == b.2 {
                    rep.violation(&format!("edge:collision-big:{}:{}", a.0, a.1), "two distinct large byte strings have the same encoding", json!({"a": [a.0, a.1 as usize], "b": [b.0, b.1 as usize]}));
                }
            }
        }
        // utils wrappers give the same answers
        for b in strings.iter().filter(|b| b.len() <= 5).take(3000) {
            let a = catch(|| ut::bytes_to_felts(b).ok().map(|f| canon_vec(&f)));
            if a != Ok(Some(ref_encode(b))) {
                rep.violation(&format!("edge:utils-wrapper:{b:?}"), "utils::bytes_to_felts differs from the reference encoding", json!({"bytes": short(b)}));
            }
            let f: Vec<F> = ref_encode(b).into_iter().map(fe).collect();
            if catch(|| ut::felts_to_bytes(&f).ok()) != Ok(Some(b.clone())) {
                rep.violation(&format!("edge:utils-wrapper-dec:{b:?}"), "utils::felts_to_bytes does not invert the encoding", json!({"bytes": short(b)}));
            }
            rep.eval(2);
        }
        bounds.insert("edge cap".into(), json!({"lengths": "cap-5..cap+4, 2 cap, 8 cap", "patterns": if thorough { 5 } else { 3 }}));

        // ---------- decoding: every felt vector of length <= 3 (4) over the alphabet ----------
        let d: Vec<u64> = vec![0, 1, 2, 0x100, 0x101, 0x1_0000, 0x1_0001, 0x100_0000, 0x100_0001, 0x200_0000, 0x5a01_0000, U32M, 1 << 32, (1 << 32) + 1, P - 1, P, P + 1, u64::MAX];
        let mut vecs: Vec<Vec<u64>> = vec![vec![]];
        for len in 1..=3usize {
            product_indices(&vec![d.len(); len], |ix| vecs.push(ix.iter().map(|&i| d[i]).collect()));
        }
        let d4: Vec<u64> = if thorough { d.clone() } else { vec![0, 1, 0x100, 0x100_0000, 0x200_0000, U32M, 1 << 32, P + 1] };
        product_indices(&vec![d4.len(); 4], |ix| vecs.push(ix.iter().map(|&i| d4[i]).collect()));
        sweep(rep, &vecs, |v| {
            check_decode(rep, v, &|| format!("felts {v:?}"));
            (hash64(&("dec", v)), 2)
        });
        // the felt cap
        let mf = ser::MAX_SERIALIZED_FELTS;
        let mut longs: Vec<(usize, u64, u64)> = vec![];
        for n in [mf - 1, mf, mf + 1, mf + 2, 2 * mf] {
            for last in [1u64, 0x015a, 0x0100_0000, 0, 2, 1 << 32] {
                for body in [0x5a5a_5a5au64, 0] {
                    longs.push((n, body, last));
                }
            }
        }
        longs.par_iter().for_each(|&(n, body, last)| {
            let mut v = vec![body; n];
            v[n - 1] = last;
            check_decode(rep, &v, &|| format!("{n} felts body {body:#x} last {last:#x}"));
            rep.eval(2);
            rep.distinct(hash64(&("declong", n, body, last)));
        });
        bounds.insert("decode".into(), json!({"alphabet": format!("{d:x?}"), "lengths 0..=3 full, length 4 over": d4.len(), "vectors": vecs.len(), "felt cap": format!("{} +-", mf), "long vectors": longs.len()}));
        rep.sample(json!({"decode": "[0x0105] -> [5]; [0x0205] -> rejected (marker missing)"}));

        // ---------- digests ----------
        let lv: Vec<u64> = vec![0, 1, 1 << 32, P - 2, P - 1, P, P + 1, u64::MAX];
        let digs = product(&vec![lv.clone(); 4]);
        sweep(rep, &digs, |l| {
            let bytes = limbs32(l);
            let ok = l.iter().all(|&x| x < P);
            let viol = |kind: &str, text: String| {
                rep.violation(&format!("digest:{kind}:{l:?}"), &format!("{text} [limbs {l:x?}]"), json!({"limbs": format!("{l:x?}"), "bytes": hex::encode(bytes)}));
            };
            let mut n = 0;
            // the three front doors
            let a = catch(|| BytesDigest::try_from(bytes).ok());
            let b = catch(|| BytesDigest::try_from(&bytes[..]).ok());
            let s = catch(|| Secret::try_from(bytes).ok().map(|s| (*s.as_bytes(), *s.expose_digest(), canon_vec(&s.expose_felts()))));
            let mut scratch = bytes;
            let s2 = catch(|| Secret::new(&mut scratch).ok().map(|s| *s.as_bytes()));
            n += 4;
            for (who, r) in [("BytesDigest::try_from([u8;32])", &a), ("BytesDigest::try_from(&[u8])", &b)] {
                match r {
                    Err(p) => viol("panic", format!("{who} panicked: {p}")),
                    Ok(Some(d)) if !ok => viol("accepts-noncanonical", format!("{who} accepted a digest with a limb >= p: {d:?}")),
                    Ok(None) if ok => viol("rejects-canonical", format!("{who} rejected a digest whose limbs are all < p")),
                    Ok(Some(d)) => {
                        if **d != bytes {
                            viol("value", format!("{who} changed the bytes"));
                        }
                    }
                    _ => {}
                }
            }
            match &s {
                Err(p) => viol("secret-panic", format!("Secret::try_from panicked: {p}")),
                Ok(Some(_)) if !ok => viol("secret-accepts-noncanonical", "Secret::try_from accepted a digest with a limb >= p".into()),
                Ok(None) if ok => viol("secret-rejects-canonical", "Secret::try_from rejected a canonical digest".into()),
                Ok(Some((raw, dg, felts))) => {
                    if *raw != bytes || *dg != bytes || felts != l {
                        viol("secret-roundtrip", "Secret does not round-trip (bytes / expose_digest / expose_felts)".into());
                    }
                }
                _ => {}
            }
            match &s2 {
                Err(p) => viol("secret-new-panic", format!("Secret::new panicked: {p}")),
                Ok(r) => {
                    if r.is_some() != ok || (ok && *r != Some(bytes)) {
                        viol("secret-new", "Secret::new accepts iff canonical and keeps the bytes: violated".into());
                    }
                }
            }
            if ok {
                if let Ok(Some(d)) = a {
                    // through felts and back, all four routes
                    let r = catch(|| {
                        let f = ut::bytes_to_digest(d);
                        let back = ut::digest_to_bytes(f);
                        let f2 = ser::bytes_to_digest(&bytes);
                        let back2 = ser::digest_to_bytes(&f2);
                        let back3 = ut::try_4_felts_to_bytes(&f[..]).map(|x| *x).map_err(|e| e.to_string());
                        let sec = Secret::from(f);
                        (canon_vec(&f), *back, canon_vec(&f2), back2, back3, *sec.as_bytes())
                    });
                    n += 5;
                    match r {
                        Err(p) => viol("roundtrip-panic", format!("digest <-> felts conversion panicked: {p}")),
                        Ok((f, back, f2, back2, back3, sec)) => {
                            if &f != l || &f2 != l {
                                viol("to-felts", format!("bytes_to_digest gives {f:x?}/{f2:x?}, limbs are {l:x?}"));
                            }
                            if back != bytes || back2 != bytes || back3 != Ok(bytes) || sec != bytes {
                                viol("roundtrip", "digest does not round-trip through felts".into());
                            }
                        }
                    }
                }
            }
            (hash64(&("dig", l)), n)
        });
        // wrong lengths
        for len in [0usize, 1, 8, 31, 33, 64] {
            let v = vec![1u8; len];
            match catch(|| BytesDigest::try_from(&v[..]).is_ok()) {
                Ok(false) => {}
                r => rep.violation(&format!("digest:len:{len}"), &format!("BytesDigest::try_from(&[u8]) of length {len}: {r:?}"), json!({"len": len})),
            }
            rep.eval(1);
        }
        for len in [0usize, 1, 3, 5, 8] {
            let f = vec![fe(1); len];
            match catch(|| ut::try_4_felts_to_bytes(&f).is_ok()) {
                Ok(false) => {}
                r => rep.violation(&format!("digest:feltlen:{len}"), &format!("try_4_felts_to_bytes with {len} felts: {r:?}"), json!({"len": len})),
            }
            rep.eval(1);
        }
        // non-canonical felt representations map to the canonical bytes
        for raw in [P, P + 1, u64::MAX] {
            let f = [fe(raw), fe(0), fe(P - 1), fe(raw)];
            let want = limbs32(&[canon(raw), 0, P - 1, canon(raw)]);
            if catch(|| *ut::digest_to_bytes(f)) != Ok(want) || catch(|| ser::digest_to_bytes(&f)) != Ok(want) {
                rep.violation(&format!("digest:noncanonical-felt:{raw}"), "digest_to_bytes of a non-canonical felt representation is not the canonical limb", json!({"raw": raw.to_string()}));
            }
            rep.eval(2);
        }
        bounds.insert("digests".into(), json!({"limb alphabet": format!("{lv:x?}"), "digests": digs.len()}));
        rep.sample(json!({"digest": "limbs [p-1,p-1,p-1,p-1] accepted; [p,0,0,0] rejected"}));

        // ---------- limb decoding ----------
        let la: Vec<u64> = vec![0, 1, 0xffff, U32M - 1, U32M, 1 << 32, (1 << 32) + 1, 1 << 63, P - 1, P, P + 1, P + 0xffff, u64::MAX];
        let two = product(&vec![la.clone(); 2]);
        sweep(rep, &two, |l| {
            let c: Vec<u64> = l.iter().map(|&x| canon(x)).collect();
            let want = if c.iter().all(|&x| x <= U32M) { Some(c[0] << 32 | c[1]) } else { None };
            for (who, r) in [
                ("try_felts_to_u64", catch(|| ser::try_felts_to_u64([fe(l[0]), fe(l[1])]).ok())),
                ("utils::felts_to_u64", catch(|| ut::felts_to_u64([fe(l[0]), fe(l[1])]).ok())),
            ] {
                if r != Ok(want) {
                    rep.violation(&format!("limbs:u64:{who}:{l:?}"), &format!("{who}({l:x?}) = {r:?}, expected {want:?} (accept iff every limb < 2^32)"), json!({"limbs": format!("{l:x?}")}));
                }
            }
            (hash64(&("l2", l)), 2)
        });
        let la4: Vec<u64> = if thorough { la.clone() } else { vec![0, 1, U32M, 1 << 32, P - 1, P + 1, u64::MAX] };
        let four = product(&vec![la4.clone(); 4]);
        sweep(rep, &four, |l| {
            let c: Vec<u64> = l.iter().map(|&x| canon(x)).collect();
            let want = if c.iter().all(|&x| x <= U32M) { Some((c[0] as u128) << 96 | (c[1] as u128) << 64 | (c[2] as u128) << 32 | c[3] as u128) } else { None };
            let f = [fe(l[0]), fe(l[1]), fe(l[2]), fe(l[3])];
            for (who, r) in [("try_felts_to_u128", catch(|| ser::try_felts_to_u128(f).ok())), ("utils::felts_to_u128", catch(|| ut::felts_to_u128(f).ok()))] {
                if r != Ok(want) {
                    rep.violation(&format!("limbs:u128:{who}:{l:?}"), &format!("{who}({l:x?}) = {r:?}, expected {want:?}"), json!({"limbs": format!("{l:x?}")}));
                }
            }
            (hash64(&("l4", l)), 2)
        });
        // encoding is inverted
        let w: Vec<u64> = vec![0, 1, 2, 0xffff, U32M - 1, U32M];
        let mut ints64: Vec<u64> = vec![0x1234_5678_90AB_CDEF, u64::MAX, 1 << 32, (1 << 32) - 1, 1 << 63, P, P - 1];
        for &a in &w {
            for &b in &w {
                ints64.push(a << 32 | b);
            }
        }
        for &x in &ints64 {
            let r = catch(|| {
                let f = ser::u64_to_felts(x);
                (canon_vec(&f), ser::try_felts_to_u64(f).ok(), canon_vec(&ut::u64_to_felts(x)))
            });
            if r != Ok((vec![x >> 32, x & U32M], Some(x), vec![x >> 32, x & U32M])) {
                rep.violation(&format!("limbs:u64-enc:{x}"), &format!("u64_to_felts({x:#x}) / decode: {r:?}"), json!({"x": x.to_string()}));
            }
            rep.eval(2);
            rep.distinct(hash64(&("e64", x)));
        }
        let mut ints128: Vec<u128> = vec![0x0123_4567_89AB_CDEF_0123_4567_89AB_CDEF, u128::MAX, 1 << 64, (1 << 64) - 1, 1 << 96, 1 << 127, P as u128, (P as u128) << 64];
        let w4: Vec<u64> = vec![0, 1, U32M - 1, U32M];
        product_indices(&[4, 4, 4, 4], |ix| ints128.push((w4[ix[0]] as u128) << 96 | (w4[ix[1]] as u128) << 64 | (w4[ix[2]] as u128) << 32 | w4[ix[3]] as u128));
        for &x in &ints128 {
            let limbs: Vec<u64> = (0..4).map(|i| ((x >> (96 - 32 * i)) & U32M as u128) as u64).collect();
            let r = catch(|| {
                let f = ser::u128_to_felts(x);
                (canon_vec(&f), ser::try_felts_to_u128(f).ok(), canon_vec(&ut::u128_to_felts(x)))
            });
            if r != Ok((limbs.clone(), Some(x), limbs)) {
                rep.violation(&format!("limbs:u128-enc:{x}"), &format!("u128_to_felts({x:#x}) / decode: {r:?}"), json!({"x": x.to_string()}));
            }
            rep.eval(2);
            rep.distinct(hash64(&("e128", x)));
        }
        bounds.insert("limbs".into(), json!({"alphabet": format!("{la:x?}"), "u64 pairs": two.len(), "u128 quadruples": four.len(), "u64 values encoded": ints64.len(), "u128 values encoded": ints128.len()}));

        // ---------- quantisation ----------
        const Q: u128 = 10_000_000_000;
        let qs: Vec<u128> = vec![0, 1, 2, (1 << 32) - 2, (1 << 32) - 1, 1 << 32, (1 << 32) + 1, 1 << 33, (1 << 64) - 1, 1 << 64, P as u128, u128::MAX / Q - 1, u128::MAX / Q];
        let rs: Vec<u128> = vec![0, 1, Q / 2, Q - 1];
        let mut amounts: Vec<u128> = vec![u128::MAX, u128::MAX - 1];
        for &q in &qs {
            for &r in &rs {
                if let Some(a) = q.checked_mul(Q).and_then(|x| x.checked_add(r)) {
                    amounts.push(a);
                }
            }
        }
        for &a in &amounts {
            let quant = a / Q;
            let want: Option<u64> = if quant > U32M as u128 { None } else { Some(quant as u64) };
            let r = catch(|| ser::try_u128_to_quantized_felt(a).ok().map(|f| f.to_canonical_u64()));
            if r != Ok(want) {
                rep.violation(&format!("quant:{a}"), &format!("try_u128_to_quantized_felt({a}) = {r:?}, expected {want:?} (fails iff amount / 10^10 > 2^32 - 1)"), json!({"amount": a.to_string()}));
            }
            if let Some(qv) = want {
                let back = catch(|| ser::try_felt_to_quantized_u128(fe(qv)).ok());
                if back != Ok(Some(qv as u128 * Q)) {
                    rep.violation(&format!("quant-back:{a}"), &format!("try_felt_to_quantized_u128({qv}) = {back:?}"), json!({"amount": a.to_string()}));
                }
            }
            rep.eval(2);
            rep.distinct(hash64(&("q", a)));
        }
        for raw in [1u64 << 32, (1 << 32) + 1, P - 1, u64::MAX] {
            let c = canon(raw);
            let want = if c <= U32M { Some(c as u128 * Q) } else { None };
            let r = catch(|| ser::try_felt_to_quantized_u128(fe(raw)).ok());
            if r != Ok(want) {
                rep.violation(&format!("quant-dec:{raw}"), &format!("try_felt_to_quantized_u128({raw:#x}) = {r:?}, expected {want:?}"), json!({"felt": raw.to_string()}));
            }
            rep.eval(1);
        }
        bounds.insert("quantisation".into(), json!({"amounts": amounts.len(), "quotients": qs.iter().map(|x| x.to_string()).collect::<Vec<_>>(), "remainders": rs.iter().map(|x| x.to_string()).collect::<Vec<_>>()}));
        rep.sample(json!({"quantisation": "(2^32-1)*10^10 + 10^10-1 -> Ok(2^32-1); 2^32*10^10 -> Err"}));
        rep.extra("bounds", Value::Object(bounds));
        rep.rule("edge encoding: encode(b) equals the reference (LE 32-bit words, last word = leftover bytes + 0x01 marker), decode(encode(b)) = b, no two enumerated strings share an encoding, over-cap input rejected; decoding: Ok(b) iff the canonical values are the reference encoding of b and the vector is within the felt cap, and then encode(b) = v; never panics. digest accepted iff all four LE limbs < p at BytesDigest::try_from (array and slice), Secret::try_from and Secret::new; accepted digests round-trip through bytes_to_digest/digest_to_bytes (utils and serialization), try_4_felts_to_bytes and Secret. limb decoding Ok iff every canonical limb < 2^32 with the big-endian-limb value; u64/u128 encoders produce those limbs and are inverted. quantisation fails iff amount / 10^10 > 2^32-1, else returns the quotient. distinct = distinct inputs per space");
        rep.assume("'every byte string up to 1 MiB' is covered exhaustively for length <= 2, over {0,1,2,0xff} up to length 7 (8 thorough), all residues mod 4 near 4 KiB and at the cap; equality with the reference encoder (whose inverse is the reference decoder) carries injectivity to the strings in between");
    }
}

// =====================================================================================
// C26 — compact node hashing
// =====================================================================================
mod c26 {
    use super::*;
    use qp_poseidon_core::Goldilocks;
    use zk_circuits_common::serialization::verif_hash_bytes_compact;
    use zk_circuits_common::zk_merkle::{hash_node, hash_node_presorted};

    const CAP: usize = 1 << 20;

    /// Reference domain predicate and reference encoding (one canonical felt per LE limb).
    fn ref_felts(b: &[u8]) -> Option<Vec<u64>> {
        if b.len() > CAP || b.len() % 8 != 0 {
            return None;
        }
        let mut out = vec![];
        for i in 0..b.len() / 8 {
            let mut limb = 0u64;
            for j in 0..8 {
                limb |= (b[8 * i + j] as u64) << (8 * j);
            }
            if limb >= P {
                return None;
            }
            out.push(limb);
        }
        Some(out)
    }
    fn ref_hash(felts: &[u64]) -> [u8; 32] {
        let g: Vec<Goldilocks> = felts.iter().map(|&x| Goldilocks::new(x)).collect();
        qp_poseidon_core::hash_to_bytes(&g)
    }

    /// Returns (accepted hash if any) after checking acceptance and value.
    fn check(rep: &Report, b: &[u8], tag: &dyn Fn() -> String) -> Option<[u8; 32]> {
        let want = ref_felts(b);
        let viol = |kind: &str, text: String| {
            let t = tag();
            rep.violation(&format!("compact:{kind}:{t}"), &format!("{text} [{t}]"), json!({"case": t, "len": b.len(), "bytes": if b.len() <= 64 { hex::encode(b) } else { format!("{}..", hex::encode(&b[..32])) }}));
        };
        match (catch(|| verif_hash_bytes_compact(b)), want) {
            (Err(p), _) => {
                viol("panic", format!("hash_bytes_compact panicked: {p}"));
                None
            }
            (Ok(Ok(h)), None) => {
                viol("accepts-outside-domain", format!("hash_bytes_compact accepted an input outside its domain (len {} <= 1 MiB, multiple of 8, every limb < p)", b.len()));
                Some(h)
            }
            (Ok(Err(e)), Some(_)) => {
                viol("rejects-inside-domain", format!("hash_bytes_compact rejected an input of its domain: {e}"));
                None
            }
            (Ok(Ok(h)), Some(f)) => {
                if h != ref_hash(&f) {
                    viol("value", "hash differs from Poseidon2 over one canonical felt per 8-byte limb".into());
                }
                Some(h)
            }
            (Ok(Err(_)), None) => None,
        }
    }

    pub fn run(rep: &Report, thorough: bool) {
        let mut bounds = serde_json::Map::new();
        let la: Vec<u64> = if thorough { vec![0, 1, 1 << 32, P - 1, P, P + 1, u64::MAX, 0x0100_0000_0000_0000] } else { vec![0, 1, 1 << 32, P - 1, P, u64::MAX] };
        // every length 0..=25 (33 thorough), every limb tuple covering it, cut to the length
        let maxlen = if thorough { 33 } else { 25 };
        let mut inputs: Vec<Vec<u8>> = vec![];
        for len in 0..=maxlen {
            let k = (len + 7) / 8;
            let k_full = k.min(if thorough { 4 } else { 3 });
            // limbs beyond k_full (only for the longest lengths) are fixed to 1 to bound the product
            product_indices(&vec![la.len(); k_full], |ix| {
                let mut limbs: Vec<u64> = ix.iter().map(|&i| la[i]).collect();
                limbs.resize(k, 1);
                let mut b = limbs_to_bytes(&limbs);
                b.truncate(len);
                inputs.push(b);
            });
            if k > k_full {
                // and the last limb varied alone
                for &x in &la {
                    let mut limbs = vec![1u64; k];
                    limbs[k - 1] = x;
                    let mut b = limbs_to_bytes(&limbs);
                    b.truncate(len);
                    inputs.push(b);
                }
            }
        }
        // node-sized inputs (16 limbs): one limb at a time off an all-(p-1) and an all-zero base
        for base in [0u64, P - 1, 7] {
            for pos in 0..16 {
                for &x in &la {
                    let mut limbs = vec![base; 16];
                    limbs[pos] = x;
                    inputs.push(limbs_to_bytes(&limbs));
                }
            }
        }
        inputs.sort();
        inputs.dedup();
        let hashes: Vec<Option<[u8; 32]>> = inputs
            .par_chunks(256)
            .flat_map_iter(|ch| {
                let out: Vec<Option<[u8; 32]>> = ch.iter().map(|b| check(rep, b, &|| format!("bytes {}", hex::encode(b)))).collect();
                rep.eval(ch.len() as u64);
                rep.distinct_many(ch.iter().map(|b| hash64(&("compact", b))));
                out
            })
            .collect();
        // the cap
        let mut big: Vec<(usize, u64, u64)> = vec![]; // (len, fill limb, last limb)
        for len in [CAP - 16, CAP - 8, CAP - 7, CAP - 1, CAP, CAP + 1, CAP + 7, CAP + 8, CAP + 16, 2 * CAP] {
            for (fill, last) in [(0u64, 0u64), (P - 1, P - 1), (5, P), (5, 1)] {
                big.push((len, fill, last));
            }
        }
        let big_h: Vec<Option<[u8; 32]>> = big
            .par_iter()
            .map(|&(len, fill, last)| {
                let k = (len + 7) / 8;
                let mut limbs = vec![fill; k];
                limbs[k - 1] = last;
                let mut b = limbs_to_bytes(&limbs);
                b.truncate(len);
                rep.eval(1);
                rep.distinct(hash64(&("compactbig", len, fill, last)));
                check(rep, &b, &|| format!("len {len} fill {fill:#x} last limb {last:#x}"))
            })
            .collect();
        // distinct accepted inputs -> distinct hashes (hence distinct felt sequences)
        let mut seen: HashMap<[u8; 32], String> = HashMap::new();
        let mut all: Vec<(String, Option<[u8; 32]>)> = inputs.iter().zip(&hashes).map(|(b, h)| (hex::encode(b), *h)).collect();
        all.extend(big.iter().zip(&big_h).map(|(c, h)| (format!("{c:?}"), *h)));
        for (name, h) in &all {
            if let Some(h) = h {
                if let Some(prev) = seen.insert(*h, name.clone()) {
                    rep.violation(&format!("compact:collision:{name}"), &format!("two distinct accepted inputs hash identically (same field sequence): {prev} and {name}"), json!({"a": prev, "b": name, "hash": hex::encode(h)}));
                }
            }
        }
        rep.eval(all.len() as u64);
        bounds.insert("compact hash".into(), json!({"limb alphabet": format!("{la:x?}"), "lengths": format!("0..={maxlen}"), "inputs": inputs.len(), "cap cases": big.len(), "accepted": seen.len()}));
        rep.sample(json!({"compact": "16 bytes [1, p] -> rejected (limb >= p); 12 bytes -> rejected (not a multiple of 8)"}));

        // ---- node hashing: all quadruples over 8 hashes (5 canonical, 3 not) ----
        let pool: Vec<([u8; 32], bool)> = vec![
            (limbs32(&[0, 0, 0, 0]), true),
            (limbs32(&[P - 1, P - 1, P - 1, P - 1]), true),
            (limbs32(&[256, 5, 6, 7]), true), // bytes 00 01 ..: byte order and limb order differ
            (limbs32(&[1, 5, 6, 7]), true),   // bytes 01 00 ..
            (limbs32(&[1, 5, 6, P - 1]), true),
            (limbs32(&[P, 0, 0, 0]), false),
            (limbs32(&[0, 0, 0, u64::MAX]), false),
            ([0xff; 32], false),
        ];
        let quads = product(&vec![(0..pool.len()).collect::<Vec<usize>>(); 4]);
        let results: Vec<(Vec<usize>, Option<[u8; 32]>)> = quads
            .par_iter()
            .map(|q| {
                let ch: [[u8; 32]; 4] = [pool[q[0]].0, pool[q[1]].0, pool[q[2]].0, pool[q[3]].0];
                let canonical = q.iter().all(|&i| pool[i].1);
                let mut sorted = ch;
                // reference sort: insertion sort on the byte strings
                for i in 1..4 {
                    let mut j = i;
                    while j > 0 && sorted[j - 1].as_slice() > sorted[j].as_slice() {
                        sorted.swap(j - 1, j);
                        j -= 1;
                    }
                }
                let concat = |c: &[[u8; 32]; 4]| -> Vec<u8> { c.iter().flat_map(|x| x.iter().copied()).collect() };
                let want_sorted = ref_felts(&concat(&sorted)).map(|f| ref_hash(&f));
                let want_given = ref_felts(&concat(&ch)).map(|f| ref_hash(&f));
                let viol = |kind: &str, text: String| {
                    rep.violation(&format!("node:{kind}:{q:?}"), &format!("{text} [children {q:?} of the pool]"), json!({"children": ch.iter().map(hex::encode).collect::<Vec<_>>()}));
                };
                let hn = catch(|| hash_node(&ch));
                let hp = catch(|| hash_node_presorted(&ch));
                let hps = catch(|| hash_node_presorted(&sorted));
                rep.eval(3);
                let mut out = None;
                match &hn {
                    Err(p) => viol("panic", format!("hash_node panicked: {p}")),
                    Ok(Ok(_)) if !canonical => viol("accepts-noncanonical", "hash_node accepted a non-canonical child".into()),
                    Ok(Err(e)) if canonical => viol("rejects-canonical", format!("hash_node rejected canonical children: {e}")),
                    Ok(Ok(h)) => {
                        out = Some(*h);
                        if Some(*h) != want_sorted {
                            viol("value", "hash_node differs from the compact hash of the byte-sorted children".into());
                        }
                        match &hps {
                            Ok(Ok(s)) if s == h => {}
                            other => viol("presorted-mismatch", format!("hash_node != hash_node_presorted(sorted children): {other:?}")),
                        }
                    }
                    _ => {}
                }
                match &hp {
                    Err(p) => viol("presorted-panic", format!("hash_node_presorted panicked: {p}")),
                    Ok(Ok(_)) if !canonical => viol("presorted-accepts-noncanonical", "hash_node_presorted accepted a non-canonical child".into()),
                    Ok(Err(e)) if canonical => viol("presorted-rejects-canonical", format!("hash_node_presorted rejected canonical children: {e}")),
                    Ok(Ok(h)) => {
                        if Some(*h) != want_given {
                            viol("presorted-value", "hash_node_presorted differs from the compact hash of the children in the given order".into());
                        }
                    }
                    _ => {}
                }
                (q.clone(), out)
            })
            .collect();
        // order independence: all arrangements of one multiset give one hash
        let mut by_set: HashMap<Vec<usize>, [u8; 32]> = HashMap::new();
        for (q, h) in &results {
            if let Some(h) = h {
                let mut k = q.clone();
                k.sort();
                if let Some(prev) = by_set.get(&k) {
                    if prev != h {
                        rep.violation(&format!("node:order-dependent:{k:?}"), &format!("hash_node depends on the order of the children (multiset {k:?}, arrangement {q:?})"), json!({"multiset": k, "arrangement": q}));
                    }
                } else {
                    by_set.insert(k, *h);
                }
            }
        }
        // distinct multisets -> distinct hashes
        let mut rev: HashMap<[u8; 32], Vec<usize>> = HashMap::new();
        for (k, h) in &by_set {
            if let Some(prev) = rev.insert(*h, k.clone()) {
                rep.violation(&format!("node:collision:{k:?}"), &format!("two different child multisets hash identically: {prev:?} and {k:?}"), json!({"a": prev, "b": k}));
            }
        }
        rep.distinct_many(quads.iter().map(|q| hash64(&("node", q))));
        bounds.insert("node hashing".into(), json!({"hash pool": "5 canonical (zero, all p-1, two whose byte order differs from limb order, one with a top limb p-1) + 3 non-canonical (limb p, limb 2^64-1, all 0xff)", "ordered quadruples": quads.len(), "canonical multisets": by_set.len()}));
        rep.sample(json!({"node": "children (all p-1, zero, [256,5,6,7], [1,5,6,7]) in all 24 orders -> one hash = presorted(sorted)"}));
        rep.extra("bounds", Value::Object(bounds));
        rep.rule("compact hash: Ok iff len <= 2^20, len % 8 == 0 and every LE 8-byte limb < p; value = Poseidon2 over one canonical felt per limb; no two accepted inputs share a hash. node hashing on every ordered quadruple of the pool: hash_node / hash_node_presorted Err (never panic) iff some child has a limb >= p; hash_node equal for all arrangements of a multiset, equal to hash_node_presorted(byte-sorted children) and to the reference; hash_node_presorted hashes the given order. distinct = distinct inputs / quadruples");
        rep.assume("the Poseidon2 permutation itself (qp-poseidon-core) is shared between implementation and reference; what is compared is domain, encoding, ordering");
    }
}

// =====================================================================================
// C35 — transfer-proof JSON
// =====================================================================================
mod c35 {
    use super::*;
    use zk_circuits_common::circuit::TransferProofJson;

    const RAW_CAP: usize = 8 * 1024 * 1024;
    const NODE_CAP: usize = 1 << 20;
    const TOTAL_CAP: usize = 1 << 20;
    const COUNT_CAP: usize = 1024;
    const IDX_CAP: usize = 1024;
    const ROOT_CAP: usize = 64;

    #[derive(Clone, Copy, Debug, PartialEq, Eq, Hash)]
    enum Root {
        Plain(usize),
        Esc(usize),       // \u0061 x n  -> n bytes
        Utf8(usize),      // 'é' x n     -> 2n bytes
        EscU(usize),      // \u00e9 x n  -> 2n bytes
        Surrogate(usize), // \ud83d\ude00 x n -> 4n bytes
        Number,           // wrong type
    }
    #[derive(Clone, Copy, Debug, PartialEq, Eq, Hash)]
    enum Proof {
        Count(usize, usize),  // n nodes of the given length
        One(usize),           // one node of that many 'a'
        OneEsc(usize),        // one node, decoded length given, first 3000 chars escaped
        Two(usize),           // two nodes with that total
        Many(usize),          // 1024 nodes with that total
        NotArray,             // wrong type
        NodeNumber,           // [1]
    }
    #[derive(Clone, Copy, Debug, PartialEq, Eq, Hash)]
    enum Idx {
        N(usize),
        Lit(&'static str), // literal array text, well-typed or not
    }
    #[derive(Clone, Copy, Debug, PartialEq, Eq, Hash)]
    enum Shape {
        Ok,
        Missing(usize),
        Dup(usize),
        Extra,
        ExtraFirst,
        Reordered,
        Nested(usize),
        Truncated,
        TruncatedMid,
        TopArray,
        TrailingComma,
        Garbage,
        Literal(&'static str),
    }
    #[derive(Clone, Copy, Debug, PartialEq, Eq, Hash)]
    enum Size {
        Natural,
        TrailingWs(usize),
        LeadingWs(usize),
        ExtraField(usize),
        ExtraEsc(usize),
        InflateRoot(usize), // state_root = \u0061 repeated until the document has that many bytes
        InflateNode(usize), // storage_proof = one fully escaped node, document of that many bytes
    }
    #[derive(Clone, Copy, Debug, PartialEq, Eq, Hash)]
    struct Params {
        tc: &'static str,
        root: Root,
        proof: Proof,
        idx: Idx,
        shape: Shape,
        size: Size,
    }

    struct Expect {
        /// Some(reason) when the document, as written, carries a field over its cap.
        cap_exceeded: Option<String>,
    }

    fn root_text(r: Root) -> (String, usize) {
        match r {
            Root::Plain(n) => (format!("\"{}\"", "a".repeat(n)), n),
            Root::Esc(n) => (format!("\"{}\"", "\\u0061".repeat(n)), n),
            Root::Utf8(n) => (format!("\"{}\"", "é".repeat(n)), 2 * n),
            Root::EscU(n) => (format!("\"{}\"", "\\u00e9".repeat(n)), 2 * n),
            Root::Surrogate(n) => (format!("\"{}\"", "\\ud83d\\ude00".repeat(n)), 4 * n),
            Root::Number => ("64".into(), 0),
        }
    }
    /// (text, node count, largest node, total)
    fn proof_text(p: Proof) -> (String, usize, usize, usize) {
        let arr = |nodes: &[usize]| -> String {
            let mut s = String::with_capacity(nodes.iter().sum::<usize>() + 3 * nodes.len() + 2);
            s.push('[');
            for (i, &l) in nodes.iter().enumerate() {
                if i > 0 {
                    s.push(',');
                }
                s.push('"');
                for _ in 0..l {
                    s.push('a');
                }
                s.push('"');
            }
            s.push(']');
            s
        };
        match p {
            Proof::Count(n, l) => (arr(&vec![l; n]), n, if n > 0 { l } else { 0 }, n * l),
            Proof::One(l) => (arr(&[l]), 1, l, l),
            Proof::OneEsc(l) => {
                let e = 3000.min(l);
                (format!("[\"{}{}\"]", "\\u0061".repeat(e), "a".repeat(l - e)), 1, l, l)
            }
            Proof::Two(t) => {
                let a = t / 2;
                (arr(&[a, t - a]), 2, t - a, t)
            }
            Proof::Many(t) => {
                let mut v = vec![1024usize; 1024];
                v[1023] = t - 1023 * 1024;
                (arr(&v), 1024, v[1023].max(1024), t)
            }
            Proof::NotArray => ("\"00\"".into(), 0, 0, 0),
            Proof::NodeNumber => ("[1]".into(), 0, 0, 0),
        }
    }
    fn idx_text(i: Idx) -> (String, usize) {
        match i {
            Idx::N(n) => {
                let mut s = String::with_capacity(2 * n + 2);
                s.push('[');
                for k in 0..n {
                    if k > 0 {
                        s.push(',');
                    }
                    s.push(if k % 2 == 0 { '0' } else { '7' });
                }
                s.push(']');
                (s, n)
            }
            Idx::Lit(t) => (t.into(), 1),
        }
    }

    fn build(p: &Params) -> (String, Expect) {
        let (mut root_t, mut root_len) = root_text(p.root);
        let (mut proof_t, mut count, mut maxnode, mut total) = proof_text(p.proof);
        let (idx_t, idx_n) = idx_text(p.idx);
        // size variants that work by inflating a field
        let skeleton = 64 + p.tc.len() + idx_t.len();
        match p.size {
            Size::InflateRoot(target) => {
                let n = (target.saturating_sub(skeleton + proof_t.len())) / 6 + 1;
                root_t = format!("\"{}\"", "\\u0061".repeat(n));
                root_len = n;
            }
            Size::InflateNode(target) => {
                let n = (target.saturating_sub(skeleton + root_t.len())) / 6 + 1;
                proof_t = format!("[\"{}\"]", "\\u0061".repeat(n));
                count = 1;
                maxnode = n;
                total = n;
            }
            _ => {}
        }
        let mut fields: Vec<(String, String)> = vec![
            ("transfer_count".into(), p.tc.into()),
            ("state_root".into(), root_t),
            ("storage_proof".into(), proof_t),
            ("indices".into(), idx_t),
        ];
        let mut present = [true; 4];
        let mut structural = true; // the four fields are in the document as generated
        match p.shape {
            Shape::Ok => {}
            Shape::Missing(i) => {
                fields.remove(i);
                present[i] = false;
            }
            Shape::Dup(i) => {
                let f = fields[i].clone();
                fields.push(f);
            }
            Shape::Extra => fields.push(("extra".into(), "{\"a\":[1,2,{\"b\":null}],\"c\":\"\\u0041\\n\",\"d\":1e3}".into())),
            Shape::ExtraFirst => fields.insert(0, ("zzz".into(), "[\"state_root\",{\"indices\":[1,2,3]}]".into())),
            Shape::Reordered => fields.reverse(),
            Shape::Nested(d) => fields.push(("x".into(), format!("{}{}", "[".repeat(d), "]".repeat(d)))),
            _ => structural = false,
        }
        let mut doc = String::new();
        doc.push('{');
        for (i, (k, v)) in fields.iter().enumerate() {
            if i > 0 {
                doc.push(',');
            }
            doc.push('"');
            doc.push_str(k);
            doc.push_str("\":");
            doc.push_str(v);
        }
        doc.push('}');
        drop(fields);
        match p.shape {
            Shape::Truncated => {
                doc.pop();
            }
            Shape::TruncatedMid => {
                let mut cut = doc.len() / 2;
                while !doc.is_char_boundary(cut) {
                    cut -= 1;
                }
                doc.truncate(cut);
            }
            Shape::TopArray => doc = format!("[{doc}]"),
            Shape::TrailingComma => {
                doc.pop();
                doc.push_str(",}");
            }
            Shape::Garbage => doc.push_str(" x"),
            Shape::Literal(t) => doc = t.into(),
            _ => {}
        }
        match p.size {
            Size::TrailingWs(t) => {
                if doc.len() < t {
                    let n = t - doc.len();
                    doc.extend(std::iter::repeat(if t % 2 == 0 { ' ' } else { '\n' }).take(n));
                }
            }
            Size::LeadingWs(t) => {
                if doc.len() < t {
                    let mut s = " ".repeat(t - doc.len());
                    s.push_str(&doc);
                    doc = s;
                }
            }
            Size::ExtraField(t) | Size::ExtraEsc(t) => {
                let overhead = ",\"pad\":\"\"".len();
                if doc.ends_with('}') && doc.len() + overhead <= t {
                    doc.pop();
                    let fill = t - doc.len() - overhead - 1;
                    doc.push_str(",\"pad\":\"");
                    if matches!(p.size, Size::ExtraEsc(_)) {
                        let e = fill / 6;
                        for _ in 0..e {
                            doc.push_str("\\u0062");
                        }
                        for _ in 0..fill - 6 * e {
                            doc.push('b');
                        }
                    } else {
                        for _ in 0..fill {
                            doc.push('b');
                        }
                    }
                    doc.push_str("\"}");
                } else if doc.len() < t {
                    let n = t - doc.len();
                    doc.extend(std::iter::repeat(' ').take(n));
                }
            }
            _ => {}
        }
        let mut why = None;
        if structural {
            if present[1] && root_len > ROOT_CAP && p.root != Root::Number {
                why = Some(format!("state_root of {root_len} bytes"));
            }
            if present[2] && !matches!(p.proof, Proof::NotArray | Proof::NodeNumber) {
                if count > COUNT_CAP {
                    why = Some(format!("{count} storage-proof nodes"));
                } else if maxnode > NODE_CAP {
                    why = Some(format!("a storage-proof node of {maxnode} bytes"));
                } else if total > TOTAL_CAP {
                    why = Some(format!("storage-proof nodes totalling {total} bytes"));
                }
            }
            if present[3] {
                if let Idx::N(_) = p.idx {
                    if idx_n > IDX_CAP {
                        why = Some(format!("{idx_n} indices"));
                    }
                }
            }
        }
        (doc, Expect { cap_exceeded: why })
    }

    pub fn run(rep: &Report, thorough: bool) {
        let m = 1usize << 20;
        let tcs: Vec<&'static str> = vec!["1", "0", "18446744073709551615", "18446744073709551616", "-1", "1.5", "\"1\"", "null"];
        let roots = vec![
            Root::Plain(64),
            Root::Plain(0),
            Root::Plain(63),
            Root::Plain(65),
            Root::Esc(64),
            Root::Esc(65),
            Root::Utf8(32),
            Root::Utf8(33),
            Root::EscU(32),
            Root::EscU(33),
            Root::Surrogate(16),
            Root::Surrogate(17),
            Root::Number,
        ];
        let proofs = vec![
            Proof::Count(2, 2),
            Proof::Count(0, 0),
            Proof::Count(1023, 2),
            Proof::Count(1024, 2),
            Proof::Count(1025, 2),
            Proof::Count(1025, 0),
            Proof::Count(5000, 1),
            Proof::One(m - 1),
            Proof::One(m),
            Proof::One(m + 1),
            Proof::OneEsc(m),
            Proof::OneEsc(m + 1),
            Proof::Two(m - 1),
            Proof::Two(m),
            Proof::Two(m + 1),
            Proof::Many(m - 1),
            Proof::Many(m),
            Proof::Many(m + 1),
            Proof::NotArray,
            Proof::NodeNumber,
        ];
        let idxs = vec![
            Idx::N(2),
            Idx::N(0),
            Idx::N(1023),
            Idx::N(1024),
            Idx::N(1025),
            Idx::N(1026),
            Idx::N(100_000),
            Idx::Lit("[18446744073709551615]"),
            Idx::Lit("[18446744073709551616]"),
            Idx::Lit("[-1]"),
            Idx::Lit("[1.0]"),
            Idx::Lit("[\"0\"]"),
            Idx::Lit("{}"),
        ];
        let mut shapes = vec![
            Shape::Ok,
            Shape::Missing(0),
            Shape::Missing(1),
            Shape::Missing(2),
            Shape::Missing(3),
            Shape::Dup(0),
            Shape::Dup(1),
            Shape::Dup(2),
            Shape::Dup(3),
            Shape::Extra,
            Shape::ExtraFirst,
            Shape::Reordered,
            Shape::Nested(100),
            Shape::Nested(126),
            Shape::Nested(127),
            Shape::Nested(128),
            Shape::Nested(100_000),
            Shape::Truncated,
            Shape::TruncatedMid,
            Shape::TopArray,
            Shape::TrailingComma,
            Shape::Garbage,
            Shape::Literal(""),
            Shape::Literal("null"),
            Shape::Literal("{}"),
            Shape::Literal("{\"transfer_count\":1,\"state_root\":\"\\ud800\",\"storage_proof\":[],\"indices\":[]}"),
        ];
        if thorough {
            shapes.push(Shape::Nested(1_000_000));
            shapes.push(Shape::Literal("{\"transfer_count\":1,\"state_root\":\"\\u00\",\"storage_proof\":[],\"indices\":[]}"));
            shapes.push(Shape::Literal("{\"transfer_count\":1,\"state_root\":\"a\nb\",\"storage_proof\":[],\"indices\":[]}"));
        }
        let c = RAW_CAP;
        let sizes = vec![
            Size::Natural,
            Size::TrailingWs(c - 1),
            Size::TrailingWs(c),
            Size::TrailingWs(c + 1),
            Size::LeadingWs(c),
            Size::LeadingWs(c + 1),
            Size::ExtraField(c),
            Size::ExtraField(c + 1),
            Size::ExtraEsc(c),
            Size::ExtraEsc(c + 1),
            Size::InflateRoot(c - 64),
            Size::InflateRoot(c + 1),
            Size::InflateNode(6 * m - 64),
            Size::InflateNode(c + 1),
            Size::TrailingWs(2 * c),
        ];
        let base = Params { tc: tcs[0], root: roots[0], proof: proofs[0], idx: idxs[0], shape: shapes[0], size: sizes[0] };
        // all pairs of two parameters, the other four at their base value
        let dims = [tcs.len(), roots.len(), proofs.len(), idxs.len(), shapes.len(), sizes.len()];
        let make = |ix: &[usize; 6]| Params { tc: tcs[ix[0]], root: roots[ix[1]], proof: proofs[ix[2]], idx: idxs[ix[3]], shape: shapes[ix[4]], size: sizes[ix[5]] };
        let mut set: std::collections::HashSet<Params> = Default::default();
        let mut cases: Vec<Params> = vec![];
        for d1 in 0..6 {
            for d2 in d1 + 1..6 {
                for a in 0..dims[d1] {
                    for b in 0..dims[d2] {
                        let mut ix = [0usize; 6];
                        ix[d1] = a;
                        ix[d2] = b;
                        let p = make(&ix);
                        if set.insert(p) {
                            cases.push(p);
                        }
                    }
                }
            }
        }
        if thorough {
            // triples among the three cap-carrying fields and the size
            for a in 0..roots.len() {
                for b in [0usize, 3, 4, 8, 9, 13, 14, 16, 17] {
                    for cidx in [0usize, 3, 4] {
                        for s in [0usize, 2, 3, 7] {
                            let p = make(&[0, a, b, cidx, 0, s]);
                            if set.insert(p) {
                                cases.push(p);
                            }
                        }
                    }
                }
            }
        }
        // base document must parse, otherwise nothing below means anything
        {
            let (doc, _) = build(&base);
            match catch(|| TransferProofJson::from_json_str(&doc)) {
                Ok(Ok(_)) => {}
                other => machinery_error(&format!("C35: the base document is not accepted ({:?}): {doc}", other.map(|r| r.map(|_| ())))),
            }
        }
        let accepted = AtomicU64::new(0);
        let over_raw = AtomicU64::new(0);
        let over_cap = AtomicU64::new(0);
        let incap_rejected = AtomicU64::new(0);
        let max_reject_peak = AtomicUsize::new(0);
        cases.par_iter().for_each(|p| {
            let (doc, exp) = build(p);
            let len = doc.len();
            let m = measured(|| TransferProofJson::from_json_str(&doc));
            rep.eval(1);
            rep.distinct(hash64(p));
            let case = || json!({"params": format!("{p:?}"), "document bytes": len, "head": doc.chars().take(160).collect::<String>(), "peak alloc": m.peak, "total alloc": m.total});
            let key = |k: &str| format!("{k}:{p:?}");
            match &m.r {
                Err(pn) => rep.violation(&key("panic"), &format!("from_json_str panicked: {pn} [{p:?}]"), case()),
                Ok(Ok(t)) => {
                    accepted.fetch_add(1, Ordering::Relaxed);
                    if len > RAW_CAP {
                        rep.violation(&key("over-raw-accepted"), &format!("a document of {len} bytes (> 8 MiB) was accepted [{p:?}]"), case());
                    }
                    if let Some(why) = &exp.cap_exceeded {
                        rep.violation(&key("over-cap-accepted"), &format!("a document with {why} was accepted [{p:?}]"), case());
                    }
                    // what came out must itself be within the caps, and pass validate()
                    let tot: usize = t.storage_proof.iter().map(|n| n.len()).sum();
                    let mx = t.storage_proof.iter().map(|n| n.len()).max().unwrap_or(0);
                    if t.state_root.len() > ROOT_CAP || t.storage_proof.len() > COUNT_CAP || mx > NODE_CAP || tot > TOTAL_CAP || t.indices.len() > IDX_CAP {
                        rep.violation(
                            &key("parsed-over-cap"),
                            &format!("accepted document exceeds a cap: state_root {} B, {} nodes, largest {} B, total {} B, {} indices [{p:?}]", t.state_root.len(), t.storage_proof.len(), mx, tot, t.indices.len()),
                            case(),
                        );
                    }
                    match catch(|| t.validate()) {
                        Ok(Ok(())) => {}
                        Ok(Err(e)) => rep.violation(&key("accepted-but-invalid"), &format!("from_json_str accepted a document that validate() rejects: {e} [{p:?}]"), case()),
                        Err(pn) => rep.violation(&key("validate-panic"), &format!("validate() panicked: {pn} [{p:?}]"), case()),
                    }
                    rep.eval(1);
                }
                Ok(Err(_)) => {
                    if len <= RAW_CAP && exp.cap_exceeded.is_none() && is_plain_valid(p) {
                        incap_rejected.fetch_add(1, Ordering::Relaxed);
                    }
                }
            }
            if len > RAW_CAP {
                over_raw.fetch_add(1, Ordering::Relaxed);
                if matches!(m.r, Ok(Err(_))) {
                    max_reject_peak.fetch_max(m.peak, Ordering::Relaxed);
                    if m.peak >= 64 * 1024 {
                        rep.violation(
                            &key("over-raw-parsed"),
                            &format!("a document of {len} bytes (> 8 MiB) was rejected only after work proportional to its content: {} bytes peak / {} bytes cumulative allocation during the call [{p:?}]", m.peak, m.total),
                            case(),
                        );
                    }
                }
            }
            if exp.cap_exceeded.is_some() {
                over_cap.fetch_add(1, Ordering::Relaxed);
            }
        });
        for p in [&cases[0], &cases[cases.len() / 3], &cases[2 * cases.len() / 3]] {
            rep.sample(json!({"document": format!("{p:?}")}));
        }
        rep.sample(json!({"document": "1025 indices, otherwise base -> must be rejected; 1024 nodes x 1024 B -> may be accepted, then validate() must agree"}));
        let acc = accepted.load(Ordering::Relaxed);
        if acc == 0 {
            machinery_error("C35: no generated document was accepted (vacuous run)");
        }
        rep.extra("documents", json!(cases.len()));
        rep.extra("accepted_documents", json!(acc));
        rep.extra("documents_over_8MiB", json!(over_raw.load(Ordering::Relaxed)));
        rep.extra("documents_with_a_field_over_its_cap", json!(over_cap.load(Ordering::Relaxed)));
        rep.extra("in_cap_wellformed_documents_rejected (informational, not demanded by the property)", json!(incap_rejected.load(Ordering::Relaxed)));
        rep.extra("max_peak_alloc_bytes_rejecting_over_8MiB", json!(max_reject_peak.load(Ordering::Relaxed)));
        rep.extra(
            "bounds",
            json!({"transfer_count": tcs, "state_root": format!("{roots:?}"), "storage_proof": format!("{proofs:?}"), "indices": format!("{idxs:?}"), "structure": format!("{shapes:?}"), "size": format!("{sizes:?}"), "combination": if thorough { "all pairs of two parameters (others at base) + root x proof x indices x size triples" } else { "all pairs of two parameters (others at base)" }}),
        );
        rep.rule("case = generated document (transfer_count, state_root form and length, storage_proof shape, indices, structure defect, way of reaching a raw size). Oracle: never panics; raw length > 8 MiB => Err with < 64 KiB peak allocation during the call (counting allocator: no parsing, no decoding); a document that as written carries a state_root > 64 B, > 1024 nodes, a node > 2^20 B, nodes totalling > 2^20 B or > 1024 indices => Err; Ok(t) => t is within every cap and t.validate() is Ok. distinct = distinct parameter tuples");
        rep.assume("acceptance of in-cap well-formed documents is not demanded by the statement; it is counted (accepted_documents) and the base document must parse, so the run is not vacuous");
    }
    /// plain, fully well-formed parameter tuple (used only for the informational counter)
    fn is_plain_valid(p: &Params) -> bool {
        matches!(p.tc, "1" | "0" | "18446744073709551615")
            && p.root != Root::Number
            && !matches!(p.proof, Proof::NotArray | Proof::NodeNumber)
            && matches!(p.idx, Idx::N(_) | Idx::Lit("[18446744073709551615]"))
            && matches!(p.shape, Shape::Ok | Shape::Extra | Shape::ExtraFirst | Shape::Reordered | Shape::Nested(100))
    }
}


// =====================================================================================
// Child-process plumbing (C28, C29)
// =====================================================================================
/// Writer side: the child appends JSON lines to a file; every risky call is preceded by a
/// `mark` line, so that if the process dies the parent knows the culprit and resumes after it.
pub struct ChildOut {
    file: Mutex<std::fs::File>,
    resume_stage: u64,
    resume_seq: u64,
    cur_stage: AtomicU64,
    seq: AtomicU64,
    evals: AtomicU64,
    distinct: AtomicU64,
    group_viol: Mutex<HashMap<String, u32>>,
}
impl ChildOut {
    fn open(path: &str) -> Self {
        let file = std::fs::OpenOptions::new().create(true).append(true).open(path).unwrap_or_else(|e| machinery_error(&format!("child: cannot open {path}: {e}")));
        let num = |k: &str| arg_value(k).and_then(|s| s.parse().ok()).unwrap_or(0u64);
        Self {
            file: Mutex::new(file),
            resume_stage: num("--resume-stage"),
            resume_seq: num("--resume-seq"),
            cur_stage: AtomicU64::new(0),
            seq: AtomicU64::new(0),
            evals: AtomicU64::new(0),
            distinct: AtomicU64::new(0),
            group_viol: Mutex::new(HashMap::new()),
        }
    }
    fn line(&self, v: Value) {
        use std::io::Write;
        let mut f = self.file.lock().unwrap();
        let _ = writeln!(f, "{v}");
        let _ = f.flush();
    }
    /// Run one numbered stage (skipped entirely if a previous child already finished it).
    fn stage(&self, k: u64, label: &str, f: impl FnOnce()) {
        if k < self.resume_stage {
            return;
        }
        self.cur_stage.store(k, Ordering::SeqCst);
        self.seq.store(0, Ordering::SeqCst);
        self.evals.store(0, Ordering::SeqCst);
        self.distinct.store(0, Ordering::SeqCst);
        f();
        self.line(json!({"t": "stage_end", "stage": k, "label": label, "evals": self.evals.load(Ordering::SeqCst), "distinct": self.distinct.load(Ordering::SeqCst)}));
    }
    /// A call that may take the process down. None = already executed by a previous child.
    fn guarded<R>(&self, label: &str, f: impl FnOnce() -> R) -> Option<Measured<R>> {
        let s = self.seq.fetch_add(1, Ordering::SeqCst) + 1;
        let st = self.cur_stage.load(Ordering::SeqCst);
        if st == self.resume_stage && s <= self.resume_seq {
            return None;
        }
        self.line(json!({"t": "mark", "stage": st, "seq": s, "label": label, "evals": self.evals.load(Ordering::SeqCst), "distinct": self.distinct.load(Ordering::SeqCst)}));
        Some(measured(f))
    }
    fn eval(&self, n: u64) {
        self.evals.fetch_add(n, Ordering::Relaxed);
    }
    fn distinct(&self, n: u64) {
        self.distinct.fetch_add(n, Ordering::Relaxed);
    }
    fn violation(&self, key: &str, what: &str, case: Value) {
        self.line(json!({"t": "viol", "key": key, "what": what, "case": case}));
    }
    /// Violation attributed to a group (an entry point / constructor); after two the rest of
    /// the group's cases are skipped (the verdict is already decided, and a broken entry point
    /// may build for minutes or exhaust memory on the remaining cases).
    fn group_violation(&self, group: &str, key: &str, what: &str, case: Value) {
        *self.group_viol.lock().unwrap().entry(group.into()).or_insert(0) += 1;
        self.violation(key, what, case);
    }
    fn group_open(&self, group: &str) -> bool {
        let open = self.group_viol.lock().unwrap().get(group).copied().unwrap_or(0) < 2;
        if !open {
            self.count("cases skipped after two violations at the same entry point", 1);
        }
        open
    }
    fn sample(&self, v: Value) {
        self.line(json!({"t": "sample", "v": v}));
    }
    fn extra(&self, k: &str, v: Value) {
        self.line(json!({"t": "extra", "k": k, "v": v}));
    }
    fn count(&self, k: &str, n: u64) {
        self.line(json!({"t": "count", "k": k, "n": n}));
    }
}

fn child_main(prop: &str, thorough: bool, path: &str) -> ! {
    // hard ceilings: a regression that starts building or allocating by count dies here
    DENY_SINGLE.store(6 << 30, Ordering::SeqCst);
    DENY_LIVE.store(24 << 30, Ordering::SeqCst);
    let out = ChildOut::open(path);
    match prop {
        "C28" => c28::child(&out, thorough),
        "C29" => c29::child(&out, thorough),
        _ => {
            out.line(json!({"t": "machinery", "msg": "child: unknown property"}));
            std::process::exit(2)
        }
    }
    out.line(json!({"t": "done"}));
    std::process::exit(0)
}

fn run_parent(rep: &Report, prop: &str, tier: &str) {
    let path = std::env::temp_dir().join(format!("pure-{prop}-{}.jsonl", std::process::id()));
    let _ = std::fs::remove_file(&path);
    let exe = std::env::current_exe().unwrap_or_else(|e| machinery_error(&format!("current_exe: {e}")));
    let debug = std::env::var_os("VERIF_DEBUG_PANICS").is_some();
    let (mut rs, mut rq) = (0u64, 0u64);
    let mut processed = 0usize;
    let mut restarts = 0;
    let mut synth = 0u64;
    loop {
        let status = std::process::Command::new(&exe)
            .args(["--property", prop, "--tier", tier, "--child-out"])
            .arg(&path)
            .args(["--resume-stage", &rs.to_string(), "--resume-seq", &rq.to_string()])
            .stdin(std::process::Stdio::null())
            .stdout(std::process::Stdio::null())
            .stderr(if debug { std::process::Stdio::inherit() } else { std::process::Stdio::null() })
            .status()
            .unwrap_or_else(|e| machinery_error(&format!("cannot start the child process: {e}")));
        let text = std::fs::read_to_string(&path).unwrap_or_default();
        let lines: Vec<&str> = text.lines().collect();
        let mut last_mark: Option<(u64, u64, String, u64, u64)> = None;
        let mut done = false;
        for l in &lines[processed.min(lines.len())..] {
            let Ok(v) = serde_json::from_str::<Value>(l) else { continue };
            let s = |k: &str| v.get(k).and_then(|x| x.as_str()).unwrap_or("").to_string();
            let n = |k: &str| v.get(k).and_then(|x| x.as_u64()).unwrap_or(0);
            match s("t").as_str() {
                "mark" => last_mark = Some((n("stage"), n("seq"), s("label"), n("evals"), n("distinct"))),
                "viol" => rep.violation(&s("key"), &s("what"), v.get("case").cloned().unwrap_or(Value::Null)),
                "sample" => rep.sample(v.get("v").cloned().unwrap_or(Value::Null)),
                "extra" => rep.extra(&s("k"), v.get("v").cloned().unwrap_or(Value::Null)),
                "count" => rep.add_extra_count(&s("k"), n("n")),
                "stage_end" => {
                    rep.eval(n("evals"));
                    // all cases of a stage are distinct by construction; the child sends the count
                    rep.distinct_many((0..n("distinct")).map(|i| hash64(&("child-case", synth + i))));
                    synth += n("distinct");
                    last_mark = None;
                }
                "machinery" => machinery_error(&format!("child: {}", s("msg"))),
                "done" => done = true,
                _ => {}
            }
        }
        processed = lines.len();
        if done && status.success() {
            break;
        }
        if status.code() == Some(2) {
            machinery_error("child process reported a machinery error");
        }
        match last_mark {
            Some((st, sq, label, ev, di)) => {
                rep.eval(ev);
                rep.distinct_many((0..di).map(|i| hash64(&("child-case", synth + i))));
                synth += di;
                rep.violation(
                    &format!("died:{label}"),
                    &format!("the process died ({status}) inside the call [{label}]: abort, allocation failure or stack overflow where an error was required"),
                    json!({"call": label, "exit": status.to_string()}),
                );
                rs = st;
                rq = sq;
            }
            None => machinery_error(&format!("child process died outside a guarded call ({status})")),
        }
        restarts += 1;
        if restarts > 12 {
            rep.cap_hit("child process restarted more than 12 times; remaining cases not run");
            break;
        }
    }
    let _ = std::fs::remove_file(&path);
}

// =====================================================================================
// Fixtures shared by the C28/C29 constructor sweeps (built inside the child)
// =====================================================================================
mod fx {
    use super::*;
    pub use plonky2::plonk::circuit_builder::CircuitBuilder;
    pub use plonky2::plonk::circuit_data::{CircuitConfig, CommonCircuitData, VerifierCircuitData, VerifierOnlyCircuitData};
    pub use plonky2::plonk::proof::ProofWithPublicInputs;
    pub use zk_circuits_common::circuit::{wormhole_leaf_circuit_config, wormhole_private_batch_circuit_config, wormhole_public_batch_circuit_config, C, D};

    pub struct Fix {
        pub common: CommonCircuitData<F, D>,
        pub vo: VerifierOnlyCircuitData<C, D>,
        pub common_bytes: Vec<u8>,
        pub vo_bytes: Vec<u8>,
        pub dummy_bytes: Vec<u8>,
        pub dummy: ProofWithPublicInputs<F, C, D>,
        pub dir: std::path::PathBuf,
    }
    impl Fix {
        /// Real leaf circuit, its verifier data and a real dummy leaf proof.
        pub fn build(out: &ChildOut, tag: &str) -> Fix {
            let fail = |m: String| -> ! {
                out.line(json!({"t": "machinery", "msg": m}));
                std::process::exit(2)
            };
            let r = catch(|| -> Result<Fix, String> {
                let circuit = wormhole_circuit::circuit::circuit_logic::WormholeCircuit::new(wormhole_leaf_circuit_config()).map_err(|e| e.to_string())?;
                let targets = circuit.targets();
                let data = circuit.build_circuit();
                let dummy_bytes = wormhole_aggregator::generate_dummy_proof(&data, &targets).map_err(|e| e.to_string())?;
                let vd = data.verifier_data();
                let common_bytes = vd.common.to_bytes(&plonky2::util::serialization::DefaultGateSerializer).map_err(|e| format!("{e:?}"))?;
                let vo_bytes = vd.verifier_only.to_bytes().map_err(|e| format!("{e:?}"))?;
                let dummy = wormhole_aggregator::dummy_proof::load_dummy_proof(dummy_bytes.clone(), &vd.common).map_err(|e| e.to_string())?;
                let dir = std::env::temp_dir().join(format!("pure-{tag}-{}", std::process::id()));
                let _ = std::fs::remove_dir_all(&dir);
                std::fs::create_dir_all(&dir).map_err(|e| e.to_string())?;
                Ok(Fix { common: vd.common, vo: vd.verifier_only, common_bytes, vo_bytes, dummy_bytes, dummy, dir })
            });
            match r {
                Ok(Ok(f)) => f,
                Ok(Err(e)) => fail(format!("cannot build the leaf fixtures: {e}")),
                Err(p) => fail(format!("building the leaf fixtures panicked: {p}")),
            }
        }
        /// A common-data value whose public-input count is the private-batch layout length for
        /// n leaves (wrapping, like unchecked layout arithmetic would), so that shape checks
        /// behind the count check cannot mask a missing count check.
        pub fn fab_common(&self, n: usize) -> CommonCircuitData<F, D> {
            let mut c = self.common.clone();
            c.num_public_inputs = 21usize.wrapping_mul(n).wrapping_add(8);
            c
        }
        /// Fresh directory holding leaf artifacts under both the leaf and the private-batch
        /// file names, plus an optional config.json.
        pub fn artifact_dir(&self, name: &str, config_json: Option<&str>) -> std::path::PathBuf {
            let d = self.dir.join(name);
            let _ = std::fs::remove_dir_all(&d);
            std::fs::create_dir_all(&d).unwrap();
            for (f, b) in [
                ("common.bin", &self.common_bytes),
                ("verifier.bin", &self.vo_bytes),
                ("dummy_proof.bin", &self.dummy_bytes),
                ("private_batch_common.bin", &self.common_bytes),
                ("private_batch_verifier.bin", &self.vo_bytes),
                ("dummy_private_batch_proof.bin", &self.dummy_bytes),
            ] {
                std::fs::write(d.join(f), b).unwrap();
            }
            if let Some(c) = config_json {
                std::fs::write(d.join("config.json"), c).unwrap();
            }
            d
        }
    }
    impl Drop for Fix {
        fn drop(&mut self) {
            let _ = std::fs::remove_dir_all(&self.dir);
        }
    }
}

// =====================================================================================
// C28 — circuit-config policy
// =====================================================================================
mod c28 {
    use super::fx::*;
    use super::*;
    use zk_circuits_common::circuit::validate_circuit_config;

    #[allow(dead_code)]
    #[path = "/repo/wormhole/memprof/src/config.rs"]
    mod memprof_config;
    use memprof_config::{AggConfigArgs, ZkMode};

    #[derive(clap::Parser, Debug)]
    struct Cli {
        #[command(flatten)]
        agg: AggConfigArgs,
    }

    /// smallest k with 2^k >= n (0 for n <= 1)
    fn ceil_log2(n: usize) -> u128 {
        let mut k = 0u32;
        while k < 127 && (1u128 << k) < n as u128 {
            k += 1;
        }
        k as u128
    }
    /// Reference: the stated conjunction.
    pub fn ref_ok(c: &CircuitConfig) -> bool {
        c.num_challenges > 0
            && c.security_bits > 0
            && c.fri_config.num_query_rounds > 0
            && c.num_wires >= 135
            && c.num_routed_wires >= 37
            && c.num_routed_wires <= c.num_wires
            && c.max_quotient_degree_factor >= 7
            && c.fri_config.rate_bits <= 8
            && c.fri_config.cap_height <= 8
            && c.fri_config.rate_bits as u128 >= ceil_log2(c.max_quotient_degree_factor)
    }
    fn show(c: &CircuitConfig) -> String {
        format!(
            "challenges={} security_bits={} query_rounds={} wires={} routed={} quotient={} rate_bits={} cap_height={} zk={}",
            c.num_challenges, c.security_bits, c.fri_config.num_query_rounds, c.num_wires, c.num_routed_wires, c.max_quotient_degree_factor, c.fri_config.rate_bits, c.fri_config.cap_height, c.zero_knowledge
        )
    }

    fn grid_stage(out: &ChildOut, thorough: bool) {
        const M: usize = usize::MAX;
        let small: Vec<usize> = vec![0, 1, 2];
        let wires: Vec<usize> = if thorough { vec![0, 1, 134, 135, 136, 143, M] } else { vec![0, 134, 135, 136, M] };
        let quotient: Vec<usize> = if thorough { vec![0, 1, 6, 7, 8, 9, 15, 16, 17, 32, 33, 64, 65, 128, 129, 255, 256, 257, 1 << 63, (1 << 63) + 1, M] } else { vec![0, 1, 6, 7, 8, 9, 16, 17, 32, 33, 128, 129, 256, 257, M] };
        let rate: Vec<usize> = if thorough { vec![0, 1, 2, 3, 4, 5, 6, 7, 8, 9, 10, 63, 64, M] } else { vec![0, 2, 3, 4, 5, 7, 8, 9, 63, M] };
        let cap: Vec<usize> = if thorough { vec![0, 1, 4, 7, 8, 9, 63, 64, M] } else { vec![0, 4, 8, 9, 63, M] };
        let zks: Vec<bool> = if thorough { vec![false, true] } else { vec![false] };
        let mut outer: Vec<(usize, usize, usize, usize, usize, bool)> = vec![];
        for &nc in &small {
            for &sb in &small {
                for &qr in &small {
                    for &nw in &wires {
                        let mut routed: Vec<usize> = vec![0, 36, 37, 38, nw.saturating_sub(1), nw, nw.saturating_add(1), M];
                        routed.sort();
                        routed.dedup();
                        for &ro in &routed {
                            for &zk in &zks {
                                outer.push((nc, sb, qr, nw, ro, zk));
                            }
                        }
                    }
                }
            }
        }
        let accepted = AtomicU64::new(0);
        outer.par_iter().for_each(|&(nc, sb, qr, nw, ro, zk)| {
            let mut n = 0u64;
            let mut acc = 0u64;
            for &q in &quotient {
                for &rb in &rate {
                    for &ch in &cap {
                        let mut c = if zk { CircuitConfig::standard_recursion_zk_config() } else { CircuitConfig::standard_recursion_config() };
                        c.num_challenges = nc;
                        c.security_bits = sb;
                        c.fri_config.num_query_rounds = qr;
                        c.num_wires = nw;
                        c.num_routed_wires = ro;
                        c.max_quotient_degree_factor = q;
                        c.fri_config.rate_bits = rb;
                        c.fri_config.cap_height = ch;
                        let want = ref_ok(&c);
                        n += 1;
                        match catch(|| validate_circuit_config(&c).map_err(|e| e.to_string())) {
                            Err(p) => out.violation(&format!("validate:panic:{}", show(&c)), &format!("validate_circuit_config panicked: {p} [{}]", show(&c)), json!({"config": show(&c)})),
                            Ok(Ok(())) => {
                                acc += 1;
                                if !want {
                                    out.violation(&format!("validate:accepts-failing:{}", show(&c)), &format!("validate_circuit_config accepted a config outside the policy [{}]", show(&c)), json!({"config": show(&c)}));
                                }
                            }
                            Ok(Err(e)) => {
                                if want {
                                    out.violation(&format!("validate:rejects-passing:{}", show(&c)), &format!("validate_circuit_config rejected a config inside the policy: {e} [{}]", show(&c)), json!({"config": show(&c)}));
                                }
                            }
                        }
                    }
                }
            }
            out.eval(n);
            out.distinct(n);
            accepted.fetch_add(acc, Ordering::Relaxed);
        });
        // the canonical configs pass
        for (name, c) in [("leaf", wormhole_leaf_circuit_config()), ("private batch", wormhole_private_batch_circuit_config()), ("public batch", wormhole_public_batch_circuit_config())] {
            out.eval(1);
            if !ref_ok(&c) || !matches!(catch(|| validate_circuit_config(&c).is_ok()), Ok(true)) {
                out.violation(&format!("validate:canonical:{name}"), &format!("the canonical {name} config does not pass the policy [{}]", show(&c)), json!({"config": show(&c)}));
            }
        }
        out.extra("grid (validate_circuit_config)", json!({"num_challenges, security_bits, num_query_rounds": small, "num_wires": format!("{wires:?}"), "num_routed_wires": "0,36,37,38,wires-1,wires,wires+1,usize::MAX", "max_quotient_degree_factor": format!("{quotient:?}"), "rate_bits": format!("{rate:?}"), "cap_height": format!("{cap:?}"), "zero_knowledge": format!("{zks:?}"), "accepted": accepted.load(Ordering::Relaxed)}));
        out.sample(json!({"config": "wires=135 routed=37 quotient=16 rate_bits=4 cap_height=8 -> accepted; quotient=17 rate_bits=4 -> rejected (ceil log2 17 = 5)"}));
    }

    /// Failing configs at distance 1 and 2 from a canonical base.
    fn failing_configs(base: &CircuitConfig) -> Vec<CircuitConfig> {
        const M: usize = usize::MAX;
        let nw0 = base.num_wires;
        let alph: Vec<Vec<usize>> = vec![
            vec![0, 1],                              // num_challenges
            vec![0, 1],                              // security_bits
            vec![0, 1],                              // num_query_rounds
            vec![0, 134, 136, M],                    // num_wires
            vec![0, 36, 37, nw0, nw0 + 1, 137, M],   // num_routed_wires
            vec![0, 1, 6, 7, 9, 16, 17, M],          // max_quotient_degree_factor
            vec![0, 2, 4, 8, 9, 63, M],              // rate_bits
            vec![0, 8, 9, 63, M],                    // cap_height
        ];
        let set = |c: &mut CircuitConfig, f: usize, v: usize| match f {
            0 => c.num_challenges = v,
            1 => c.security_bits = v,
            2 => c.fri_config.num_query_rounds = v,
            3 => c.num_wires = v,
            4 => c.num_routed_wires = v,
            5 => c.max_quotient_degree_factor = v,
            6 => c.fri_config.rate_bits = v,
            _ => c.fri_config.cap_height = v,
        };
        let alts: Vec<usize> = alph.iter().map(|a| a.len()).collect();
        let mut outv = vec![];
        let mut seen = std::collections::HashSet::new();
        for e in edits_within_distance(&alts, 2) {
            let mut c = base.clone();
            for &(f, a) in &e {
                set(&mut c, f, alph[f][a]);
            }
            if !ref_ok(&c) && seen.insert(show(&c)) {
                outv.push(c);
            }
        }
        outv
    }

    fn constructor_stage(out: &ChildOut, _thorough: bool) {
        let fix = Fix::build(out, "c28");
        let leaf_base = wormhole_leaf_circuit_config();
        let priv_base = wormhole_private_batch_circuit_config();
        let pub_base = wormhole_public_batch_circuit_config();
        let e2s = |e: anyhow::Error| e.to_string();
        type Ctor<'a> = (&'static str, CircuitConfig, Box<dyn Fn(CircuitConfig) -> Result<(), String> + 'a>);
        let fab1 = fix.fab_common(1);
        let ctors: Vec<Ctor> = vec![
            ("WormholeCircuit::new", leaf_base.clone(), Box::new(|c| wormhole_circuit::circuit::circuit_logic::WormholeCircuit::new(c).map(|_| ()).map_err(e2s))),
            ("WormholeProver::new", leaf_base.clone(), Box::new(|c| wormhole_prover::WormholeProver::new(c).map(|_| ()).map_err(e2s))),
            (
                "PrivateBatchCircuit::new",
                priv_base.clone(),
                Box::new(|c| wormhole_aggregator::private_batch::circuit::circuit_logic::PrivateBatchCircuit::new(c, &fix.common, &fix.vo, 1).map(|_| ()).map_err(e2s)),
            ),
            (
                "PublicBatchCircuit::new",
                pub_base.clone(),
                Box::new(|c| wormhole_aggregator::public_batch::circuit::circuit_logic::PublicBatchCircuit::new(c, fab1.clone(), &fix.vo, 1, 1).map(|_| ()).map_err(e2s)),
            ),
            (
                "PrivateBatchProver::new",
                priv_base.clone(),
                Box::new(|c| wormhole_aggregator::private_batch::prover::PrivateBatchProver::new(c, fix.common.clone(), &fix.vo, 1, fix.dummy.clone()).map(|_| ()).map_err(e2s)),
            ),
            (
                "PublicBatchProver::new",
                pub_base.clone(),
                Box::new(|c| wormhole_aggregator::public_batch::prover::PublicBatchProver::new(c, fab1.clone(), &fix.vo, 1, 1, fix.dummy.clone()).map(|_| ()).map_err(e2s)),
            ),
        ];
        let mut sizes = serde_json::Map::new();
        for (name, base, call) in &ctors {
            let cfgs = failing_configs(base);
            sizes.insert((*name).into(), json!(cfgs.len()));
            for c in &cfgs {
                if !out.group_open(name) {
                    break;
                }
                let label = format!("{name} [{}]", show(c));
                let arg = c.clone();
                let Some(m) = out.guarded(&label, || call(arg)) else { continue };
                out.eval(1);
                out.distinct(1);
                let case = json!({"constructor": name, "config": show(c), "peak alloc": m.peak, "total alloc": m.total});
                match m.r {
                    Err(p) => out.group_violation(name, &format!("ctor:panic:{label}"), &format!("{name} panicked on a config outside the policy: {p} [{}]", show(c)), case),
                    Ok(Ok(())) => out.group_violation(name, &format!("ctor:accepted:{label}"), &format!("{name} accepted a config outside the policy [{}]", show(c)), case),
                    Ok(Err(_)) => {
                        if m.peak >= MIB {
                            out.group_violation(name, &format!("ctor:late:{label}"), &format!("{name} rejected a config outside the policy only after building ({} bytes peak allocation) [{}]", m.peak, show(c)), case);
                        }
                    }
                }
            }
        }
        out.extra("failing configs per constructor (distance <= 2 from the canonical config)", Value::Object(sizes));
        out.sample(json!({"constructor": "PrivateBatchCircuit::new with rate_bits=9 -> Err before any allocation"}));
    }
    fn memprof_stage(out: &ChildOut, thorough: bool) {
        const M: usize = usize::MAX;
        let opt = |v: &[usize]| -> Vec<Option<usize>> { std::iter::once(None).chain(v.iter().map(|&x| Some(x))).collect() };
        let rate = opt(if thorough { &[0, 1, 2, 3, 4, 5, 8, 9, 63, M] } else { &[0, 2, 3, 4, 5, 8, 9] });
        let cap = opt(if thorough { &[0, 4, 8, 9, 63, M] } else { &[0, 4, 8, 9] });
        let wires = opt(if thorough { &[0, 59, 60, 134, 135, 136, M] } else { &[0, 134, 135, 136] });
        let routed = opt(if thorough { &[0, 36, 37, 38, 60, 134, 135, 136, 137, M] } else { &[0, 36, 37, 135, 136, 137] });
        let quot = opt(if thorough { &[0, 1, 6, 7, 8, 9, 16, 17, 256, 257, M] } else { &[0, 1, 6, 7, 8, 9, 16, 17] });
        let sec = opt(&[0, 1, 100]);
        let zk = [None, Some(ZkMode::Rowblinding), Some(ZkMode::Disabled)];
        let mut outer: Vec<(Option<usize>, Option<usize>, Option<usize>, Option<usize>)> = vec![];
        for &r in &rate {
            for &c in &cap {
                for &w in &wires {
                    for &ro in &routed {
                        outer.push((r, c, w, ro));
                    }
                }
            }
        }
        let accepted = AtomicU64::new(0);
        let panics = AtomicU64::new(0);
        outer.par_iter().for_each(|&(r, c, w, ro)| {
            let mut n = 0u64;
            let mut acc = 0u64;
            for &q in &quot {
                for &qr in &sec {
                    for &sb in &sec {
                        for &nc in &sec {
                            for &z in &zk {
                                for allow in [false, true] {
                                    let a = AggConfigArgs { zk_mode: z, rate_bits: r, cap_height: c, num_wires: w, num_routed_wires: ro, max_quotient_degree_factor: q, num_query_rounds: qr, security_bits: sb, num_challenges: nc, allow_weakening_security: allow };
                                    n += 1;
                                    match catch(|| a.validate()) {
                                        Err(_) => {
                                            panics.fetch_add(1, Ordering::Relaxed);
                                        }
                                        Ok(Err(_)) => {}
                                        Ok(Ok(())) => {
                                            acc += 1;
                                            match catch(|| a.build()) {
                                                Err(p) => out.violation(&format!("memprof:build-panic:{a:?}"), &format!("accepted flag set, but building its config panicked: {p} [{a:?}]"), json!({"flags": format!("{a:?}")})),
                                                Ok(cfg) => {
                                                    let shared = catch(|| validate_circuit_config(&cfg).map_err(|e| e.to_string()));
                                                    if !ref_ok(&cfg) || !matches!(shared, Ok(Ok(()))) {
                                                        out.violation(
                                                            &format!("memprof:accepts-failing:{a:?}"),
                                                            &format!("the profiling CLI accepts a flag set whose config fails the shared policy (reference: {}, validate_circuit_config: {:?}) [{a:?}] -> [{}]", ref_ok(&cfg), shared, show(&cfg)),
                                                            json!({"flags": format!("{a:?}"), "config": show(&cfg)}),
                                                        );
                                                    }
                                                }
                                            }
                                        }
                                    }
                                }
                            }
                        }
                    }
                }
            }
            out.eval(n);
            out.distinct(acc);
            accepted.fetch_add(acc, Ordering::Relaxed);
        });
        if accepted.load(Ordering::Relaxed) == 0 {
            out.line(json!({"t": "machinery", "msg": "memprof sweep accepted no flag set (vacuous)"}));
            std::process::exit(2);
        }
        out.extra("memprof flag grid", json!({"rate_bits": format!("{rate:?}"), "cap_height": format!("{cap:?}"), "num_wires": format!("{wires:?}"), "num_routed_wires": format!("{routed:?}"), "max_quotient_degree_factor": format!("{quot:?}"), "num_query_rounds / security_bits / num_challenges": format!("{sec:?}"), "zk_mode": "unset, rowblinding, disabled", "allow_weakening_security": "false, true", "accepted flag sets": accepted.load(Ordering::Relaxed), "validate() panics (counted as not accepted)": panics.load(Ordering::Relaxed)}));
        out.sample(json!({"memprof": "--max-quotient-degree-factor 16 (rate_bits unset = 3) -> rejected; with --rate-bits 4 -> accepted, config passes the policy"}));

        // the command line really maps onto those fields: every subset of {one value per flag}
        use clap::Parser;
        let flags: Vec<(&str, &str)> = vec![("--rate-bits", "4"), ("--cap-height", "8"), ("--num-wires", "136"), ("--num-routed-wires", "37"), ("--max-quotient-degree-factor", "16"), ("--num-query-rounds", "1"), ("--security-bits", "1"), ("--num-challenges", "1"), ("--zk-mode", "disabled"), ("--allow-weakening-security", "")];
        for mask in 0u32..(1 << flags.len()) {
            let mut argv: Vec<String> = vec!["memprof".into()];
            let g = |i: usize| mask & (1 << i) != 0;
            for (i, (f, v)) in flags.iter().enumerate() {
                if g(i) {
                    argv.push((*f).into());
                    if !v.is_empty() {
                        argv.push((*v).into());
                    }
                }
            }
            let direct = AggConfigArgs {
                zk_mode: g(8).then_some(ZkMode::Disabled),
                rate_bits: g(0).then_some(4),
                cap_height: g(1).then_some(8),
                num_wires: g(2).then_some(136),
                num_routed_wires: g(3).then_some(37),
                max_quotient_degree_factor: g(4).then_some(16),
                num_query_rounds: g(5).then_some(1),
                security_bits: g(6).then_some(1),
                num_challenges: g(7).then_some(1),
                allow_weakening_security: g(9),
            };
            out.eval(1);
            match catch(|| Cli::try_parse_from(&argv).map(|c| format!("{:?}", c.agg)).map_err(|e| e.to_string())) {
                Ok(Ok(s)) if s == format!("{direct:?}") => {
                    // and the parsed set obeys the implication too
                    if let Ok(Ok(())) = catch(|| direct.validate()) {
                        if let Ok(cfg) = catch(|| direct.build()) {
                            if !ref_ok(&cfg) {
                                out.violation(&format!("memprof:cli-accepts-failing:{argv:?}"), &format!("command line {argv:?} is accepted but its config fails the policy [{}]", show(&cfg)), json!({"argv": argv}));
                            }
                        }
                    }
                }
                other => {
                    out.line(json!({"t": "machinery", "msg": format!("clap parse of {argv:?} does not give the directly constructed flag set: {other:?}")}));
                    std::process::exit(2);
                }
            }
        }
        out.distinct(1 << flags.len());
    }

    pub fn child(out: &ChildOut, thorough: bool) {
        out.stage(1, "validate_circuit_config grid", || grid_stage(out, thorough));
        out.stage(2, "constructors", || constructor_stage(out, thorough));
        out.stage(3, "memprof flags", || memprof_stage(out, thorough));
    }

    pub fn describe(rep: &Report) {
        rep.rule("validate_circuit_config: Ok iff challenges, security bits, query rounds > 0, wires >= 135, 37 <= routed <= wires, quotient >= 7, rate_bits <= 8, cap_height <= 8, rate_bits >= ceil(log2 quotient) (reference computed with u128 powers of two), on the full grid. Constructors (leaf circuit, leaf prover, private/public batch circuit, private/public batch prover): every config failing the reference at distance <= 2 from the canonical config => Err, no panic, < 1 MiB peak allocation during the call. memprof (config.rs #[path]-included): validate() Ok => reference and validate_circuit_config accept build(); clap parsing of every subset of ten flags equals the directly constructed flag set. distinct = configs / (constructor, config) / accepted flag sets");
        rep.assume("CircuitConfig fields outside the policy (num_constants, use_base_arithmetic_gate, proof_of_work_bits, reduction strategy) are held at their standard values; zero_knowledge is varied in the thorough tier");
        rep.assume("the batch constructors are given real leaf verifier data and a real dummy leaf proof; the public-batch constructors get leaf common data relabelled to the private-batch public-input length (the config check precedes any use of it)");
    }
}

// =====================================================================================
// C29 — per-layer proof counts
// =====================================================================================
mod c29 {
    use super::fx::*;
    use super::*;
    use qp_wormhole_inputs::public_batch_pi::{pi_len, try_pi_len};
    use qp_wormhole_inputs::{PrivateBatchPublicInputs, PublicBatchPublicInputs};
    use wormhole_aggregator::common::recursive::add_recursive_verifiers;
    use wormhole_aggregator::common::utils::private_batch_num_leaves_from_padded_pi_len;
    use wormhole_aggregator::pool::{PoolLimits, ProofPool};
    use wormhole_aggregator::private_batch::circuit::build::generate_private_batch_circuit_binaries;
    use wormhole_aggregator::private_batch::circuit::circuit_logic::PrivateBatchCircuit;
    use wormhole_aggregator::private_batch::prover::PrivateBatchProver;
    use wormhole_aggregator::public_batch::circuit::build::generate_public_batch_circuit_binaries;
    use wormhole_aggregator::public_batch::circuit::circuit_logic::PublicBatchCircuit;
    use wormhole_aggregator::public_batch::prover::PublicBatchProver;
    use wormhole_aggregator::{validate_proof_count, CircuitBinsConfig};
    use wormhole_circuit::inputs::ParsePrivateBatchPublicInputs;

    const M: usize = usize::MAX;
    /// The count alphabet of the design.
    const K: [usize; 11] = [0, 1, 2, 63, 64, 65, 66, 1000, 1 << 32, 1 << 63, M];
    const BAD_QUICK: [usize; 7] = [0, 65, 66, 1000, 1 << 32, 1 << 63, M];
    const BAD_THOROUGH: [usize; 17] = [0, 65, 66, 67, 128, 255, 256, 1000, 1024, 65536, 1 << 31, (1 << 32) - 1, 1 << 32, (1 << 63) - 1, 1 << 63, M - 1, M];
    static THOROUGH: std::sync::atomic::AtomicBool = std::sync::atomic::AtomicBool::new(false);
    /// counts outside 1..=64 driven at every entry point, small ones first
    fn bad() -> &'static [usize] {
        if THOROUGH.load(Ordering::Relaxed) {
            &BAD_THOROUGH
        } else {
            &BAD_QUICK
        }
    }
    fn valid(c: usize) -> bool {
        (1..=64).contains(&c)
    }
    fn e2s(e: anyhow::Error) -> String {
        format!("{e:#}")
    }

    // ---------------------------------------------------------------------------------
    fn arithmetic_stage(out: &ChildOut) {
        // validate_proof_count itself, two-sided
        for c in (0..=1100usize).chain(K) {
            out.eval(1);
            match catch(|| validate_proof_count(c, "x").is_ok()) {
                Ok(ok) if ok == valid(c) => {}
                r => out.violation(&format!("validate_proof_count:{c}"), &format!("validate_proof_count({c}) = {r:?}, expected Ok iff 1 <= count <= 64"), json!({"count": c.to_string()})),
            }
        }
        out.distinct(1101);
        // checked layout length against u128 arithmetic
        let mut t: Vec<usize> = vec![0, 1, 2, 3, 63, 64, 65, 1000, 1 << 16, 1 << 31, (1 << 32) - 1, 1 << 32, (1 << 32) + 1, 1 << 48, 1 << 62, (1 << 63) - 1, 1 << 63, (1 << 63) + 1, M / 28, M / 20, M / 14 - 1, M / 14, M / 14 + 1, (M - 12) / 14, (M - 12) / 14 + 1, M / 10, M / 10 + 1, M / 8, M / 4, M / 2, M / 2 + 1, M - 1, M];
        // pairs whose product sits at the edge: m * n around (usize::MAX - 12) / 14
        let edge = (M - 12) / 14;
        for d in [3usize, 1 << 16, (1 << 32) - 1, 1 << 32] {
            t.push(edge / d);
            t.push(edge / d + 1);
            t.push(d);
        }
        t.sort();
        t.dedup();
        let lim = M as u128;
        for &m in &t {
            for &n in &t {
                let (m1, n1) = (m as u128, n as u128);
                let slots = 2 * n1;
                let exit = m1.checked_mul(slots).and_then(|x| x.checked_mul(5));
                let nulls = m1.checked_mul(n1).and_then(|x| x.checked_mul(4));
                let total = exit.and_then(|e| nulls.and_then(|z| e.checked_add(z))).and_then(|x| x.checked_add(12));
                let fits = slots <= lim && exit.is_some_and(|x| x <= lim) && nulls.is_some_and(|x| x <= lim) && total.is_some_and(|x| x <= lim);
                let want = if fits { Some(total.unwrap() as usize) } else { None };
                out.eval(1);
                match catch(|| try_pi_len(m, n)) {
                    Ok(r) if r == want => {}
                    r => out.violation(&format!("try_pi_len:{m}:{n}"), &format!("try_pi_len({m}, {n}) = {r:?}, u128 arithmetic says {want:?}"), json!({"m": m.to_string(), "n": n.to_string()})),
                }
            }
        }
        out.distinct((t.len() * t.len()) as u64);
        // unchecked layout lengths on every valid pair
        for m in 1..=64usize {
            for n in 1..=64usize {
                let want = 12 + 14 * m * n;
                out.eval(1);
                let r = catch(|| (pi_len(m, n), try_pi_len(m, n)));
                if r != Ok((want, Some(want))) {
                    out.violation(&format!("pi_len:{m}:{n}"), &format!("pi_len({m},{n}) / try_pi_len = {r:?}, expected {want}"), json!({"m": m, "n": n}));
                }
            }
        }
        out.distinct(64 * 64);
        // length -> leaf count helper: every length around the layouts, and huge ones
        let mut lens: Vec<usize> = (0..=8 + 21 * 70).collect();
        for c in [1000usize, 1 << 32, 1 << 40, (M - 8) / 21 - 1, (M - 8) / 21] {
            lens.extend([8 + 21 * c - 1, 8 + 21 * c, 8 + 21 * c + 1]);
        }
        lens.extend([M - 1, M]);
        for &l in &lens {
            let want = if l >= 8 && (l - 8) % 21 == 0 && valid((l - 8) / 21) { Some((l - 8) / 21) } else { None };
            out.eval(1);
            match catch(|| private_batch_num_leaves_from_padded_pi_len(l).ok()) {
                Ok(r) if r == want => {}
                r => out.violation(&format!("num_leaves_from_len:{l}"), &format!("private_batch_num_leaves_from_padded_pi_len({l}) = {r:?}, expected {want:?}"), json!({"len": l.to_string()})),
            }
        }
        out.distinct(lens.len() as u64);
        // the config type, two-sided
        let opts: Vec<Option<usize>> = std::iter::once(None).chain(K.iter().map(|&x| Some(x))).collect();
        for &a in &K {
            for &b in &opts {
                let want = valid(a) && b.map(valid).unwrap_or(true);
                out.eval(2);
                let r1 = catch(|| CircuitBinsConfig::new(a, b).map(|c| (c.num_leaf_proofs, c.num_private_batch_proofs)).ok());
                let r2 = catch(|| CircuitBinsConfig { num_leaf_proofs: a, num_private_batch_proofs: b }.validate().is_ok());
                if r1 != Ok(want.then_some((a, b))) || r2 != Ok(want) {
                    out.violation(&format!("CircuitBinsConfig:{a}:{b:?}"), &format!("CircuitBinsConfig::new({a}, {b:?}) = {r1:?}, validate = {r2:?}; expected acceptance = {want}"), json!({"num_leaf_proofs": a.to_string(), "num_private_batch_proofs": format!("{b:?}")}));
                }
            }
        }
        out.distinct((K.len() * opts.len()) as u64);
        out.extra("arithmetic", json!({"validate_proof_count": "0..=1100 and the count alphabet", "try_pi_len grid": format!("{} x {} values incl. every overflow edge", t.len(), t.len()), "pi_len": "all 64 x 64 valid pairs", "length helper": format!("{} lengths", lens.len()), "count alphabet": format!("{K:?}")}));
        out.sample(json!({"try_pi_len": "(2^63, 1) -> None; (64, 64) -> Some(57356)"}));
    }

    // ---------------------------------------------------------------------------------
    fn files_stage(out: &ChildOut) {
        let dir = std::env::temp_dir().join(format!("pure-c29-files-{}", std::process::id()));
        let _ = std::fs::remove_dir_all(&dir);
        std::fs::create_dir_all(&dir).unwrap();
        let cfgp = dir.join("config.json");
        let load = |label: &str| out.guarded(label, || CircuitBinsConfig::load(&dir).map(|c| (c.num_leaf_proofs, c.num_private_batch_proofs)).map_err(e2s));
        // round trip of every valid pair, current and legacy key
        let mut pairs = 0u64;
        for a in 1..=64usize {
            for b in std::iter::once(None).chain((1..=64usize).map(Some)) {
                pairs += 1;
                let _ = std::fs::remove_file(&cfgp);
                let label = format!("config round trip ({a}, {b:?})");
                let saved = out.guarded(&format!("{label} save"), || CircuitBinsConfig::new(a, b).and_then(|c| c.save(&dir)).map_err(e2s));
                if let Some(m) = saved {
                    out.eval(1);
                    if !matches!(m.r, Ok(Ok(()))) {
                        out.violation(&format!("config:save:{a}:{b:?}"), &format!("saving the valid config ({a}, {b:?}) failed: {:?}", m.r), json!({"pair": format!("({a}, {b:?})")}));
                        continue;
                    }
                    if let Some(m) = load(&format!("{label} load")) {
                        out.eval(1);
                        if m.r != Ok(Ok((a, b))) {
                            out.violation(&format!("config:roundtrip:{a}:{b:?}"), &format!("config ({a}, {b:?}) does not round-trip through config.json: loaded {:?}", m.r), json!({"pair": format!("({a}, {b:?})"), "file": std::fs::read_to_string(&cfgp).unwrap_or_default()}));
                        }
                    }
                }
                // legacy key name
                let text = match b {
                    Some(b) => format!("{{\n  \"num_leaf_proofs\": {a},\n  \"num_layer0_proofs\": {b}\n}}"),
                    None => format!("{{\"num_leaf_proofs\": {a}, \"num_layer0_proofs\": null}}"),
                };
                std::fs::write(&cfgp, &text).unwrap();
                if let Some(m) = load(&format!("{label} legacy load")) {
                    out.eval(1);
                    if m.r != Ok(Ok((a, b))) {
                        out.violation(&format!("config:legacy:{a}:{b:?}"), &format!("legacy-key config file for ({a}, {b:?}) loads as {:?}", m.r), json!({"file": text}));
                    }
                }
            }
        }
        out.distinct(pairs);
        // the loader on the whole count alphabet, both key names, with the allocator watching
        let mut n = 0u64;
        for &a in &K {
            for b in std::iter::once(None).chain(K.iter().map(|&x| Some(x))) {
                for key in ["num_private_batch_proofs", "num_layer0_proofs"] {
                    let text = match b {
                        Some(b) => format!("{{\"num_leaf_proofs\":{a},\"{key}\":{b}}}"),
                        None => format!("{{\"num_leaf_proofs\":{a}}}"),
                    };
                    std::fs::write(&cfgp, &text).unwrap();
                    let want = (valid(a) && b.map(valid).unwrap_or(true)).then_some((a, b));
                    n += 1;
                    if let Some(m) = load(&format!("CircuitBinsConfig::load {text}")) {
                        out.eval(1);
                        let case = json!({"file": text, "peak alloc": m.peak});
                        match (&m.r, want) {
                            (Err(p), _) => out.violation(&format!("load:panic:{text}"), &format!("CircuitBinsConfig::load panicked: {p} [{text}]"), case),
                            (Ok(Ok(g)), Some(w)) if *g == w => {}
                            (Ok(Ok(g)), _) => out.violation(&format!("load:accepted:{text}"), &format!("CircuitBinsConfig::load returned {g:?} for {text} (counts must be in 1..=64)"), case),
                            (Ok(Err(e)), Some(_)) => out.violation(&format!("load:rejected:{text}"), &format!("CircuitBinsConfig::load rejected a valid file: {e} [{text}]"), case),
                            (Ok(Err(_)), None) => {
                                if m.peak >= MIB {
                                    out.violation(&format!("load:late:{text}"), &format!("CircuitBinsConfig::load allocated {} bytes before rejecting {text}", m.peak), case);
                                }
                            }
                        }
                    }
                }
            }
        }
        // malformed files: never a panic, and whatever is returned is within range
        let malformed: Vec<(&str, Vec<u8>)> = vec![
            ("empty", vec![]),
            ("{}", b"{}".to_vec()),
            ("no leaf count", b"{\"num_private_batch_proofs\":4}".to_vec()),
            ("negative", b"{\"num_leaf_proofs\":-1}".to_vec()),
            ("float", b"{\"num_leaf_proofs\":1.5}".to_vec()),
            ("string", b"{\"num_leaf_proofs\":\"7\"}".to_vec()),
            ("2^64", b"{\"num_leaf_proofs\":18446744073709551616}".to_vec()),
            ("1e2", b"{\"num_leaf_proofs\":1e2}".to_vec()),
            ("both keys", b"{\"num_leaf_proofs\":7,\"num_private_batch_proofs\":4,\"num_layer0_proofs\":4}".to_vec()),
            ("both keys, one bad", b"{\"num_leaf_proofs\":7,\"num_private_batch_proofs\":4,\"num_layer0_proofs\":65}".to_vec()),
            ("duplicate leaf key", b"{\"num_leaf_proofs\":7,\"num_leaf_proofs\":65}".to_vec()),
            ("trailing garbage", b"{\"num_leaf_proofs\":7} x".to_vec()),
            ("array", b"[7,4]".to_vec()),
            ("null", b"null".to_vec()),
            ("not utf-8", vec![b'{', 0xff, 0xfe, b'}']),
            ("extra field", b"{\"num_leaf_proofs\":7,\"zzz\":[1,2,3]}".to_vec()),
            ("extra field bad count", b"{\"num_leaf_proofs\":0,\"zzz\":[1,2,3]}".to_vec()),
            ("deep nesting", format!("{{\"num_leaf_proofs\":7,\"z\":{}{}}}", "[".repeat(100_000), "]".repeat(100_000)).into_bytes()),
            ("truncated", b"{\"num_leaf_proofs\":7,\"num_private_batch_proofs\":".to_vec()),
        ];
        for (name, bytes) in &malformed {
            std::fs::write(&cfgp, bytes).unwrap();
            n += 1;
            if let Some(m) = load(&format!("CircuitBinsConfig::load malformed: {name}")) {
                out.eval(1);
                match &m.r {
                    Err(p) => out.violation(&format!("load:panic:{name}"), &format!("CircuitBinsConfig::load panicked on a malformed file ({name}): {p}"), json!({"file": name})),
                    Ok(Ok((a, b))) => {
                        if !valid(*a) || !b.map(valid).unwrap_or(true) {
                            out.violation(&format!("load:accepted:{name}"), &format!("CircuitBinsConfig::load returned out-of-range counts ({a}, {b:?}) for the file '{name}'"), json!({"file": name}));
                        }
                    }
                    Ok(Err(_)) => {}
                }
            }
        }
        // an oversized (sparse) file is refused before it is read; a missing file is an error
        {
            let f = std::fs::File::create(&cfgp).unwrap();
            f.set_len(64 * 1024 * 1024 + 1).unwrap();
            drop(f);
            n += 1;
            if let Some(m) = load("CircuitBinsConfig::load 64 MiB + 1 sparse file") {
                out.eval(1);
                if !matches!(m.r, Ok(Err(_))) || m.peak >= MIB {
                    out.violation("load:oversized", &format!("CircuitBinsConfig::load on an oversized file: {:?}, {} bytes peak allocation", m.r, m.peak), json!({"peak alloc": m.peak}));
                }
            }
            let _ = std::fs::remove_file(&cfgp);
            n += 1;
            if let Some(m) = load("CircuitBinsConfig::load missing file") {
                out.eval(1);
                if !matches!(m.r, Ok(Err(_))) {
                    out.violation("load:missing", &format!("CircuitBinsConfig::load without a config.json: {:?}", m.r), json!({}));
                }
            }
        }
        out.distinct(n);
        let _ = std::fs::remove_dir_all(&dir);
        out.extra("config files", json!({"round trips": format!("{pairs} valid pairs x (save+load, legacy key load)"), "loader on count alphabet": format!("{} x {} x 2 key names", K.len(), K.len() + 1), "malformed files": malformed.len() + 2}));
        out.sample(json!({"config file": "{\"num_leaf_proofs\":64,\"num_layer0_proofs\":64} -> Ok((64, Some(64))); num_leaf_proofs 65 -> Err"}));
    }

    // ---------------------------------------------------------------------------------
    /// One rejecting call at an entry point: must be Err, no panic, < 1 MiB peak allocation.
    fn reject(out: &ChildOut, group: &str, counts: &str, f: impl FnOnce() -> Result<(), String>) -> bool {
        if !out.group_open(group) {
            return true;
        }
        let label = format!("{group} counts {counts}");
        let Some(m) = out.guarded(&label, f) else { return true };
        out.eval(1);
        out.distinct(1);
        let case = json!({"entry point": group, "counts": counts, "peak alloc": m.peak, "total alloc": m.total});
        match m.r {
            Err(p) => out.group_violation(group, &format!("count:panic:{label}"), &format!("{group} panicked on counts {counts}: {p}"), case),
            Ok(Ok(())) => out.group_violation(group, &format!("count:accepted:{label}"), &format!("{group} accepted counts {counts} (every per-layer count must be in 1..=64)"), case),
            Ok(Err(_)) => {
                if m.peak >= MIB {
                    out.group_violation(group, &format!("count:late:{label}"), &format!("{group} rejected counts {counts} only after allocating {} bytes (peak; {} cumulative): it built or allocated before checking", m.peak, m.total), case);
                } else {
                    return true;
                }
            }
        }
        false
    }
    /// A call with valid counts at a cheap entry point: informational (non-vacuity).
    fn accept(out: &ChildOut, group: &str, counts: &str, f: impl FnOnce() -> Result<(), String>) {
        let Some(m) = out.guarded(&format!("{group} valid counts {counts}"), f) else { return };
        out.eval(1);
        out.distinct(1);
        match m.r {
            Ok(Ok(())) => out.count("valid counts accepted at entry points (non-vacuity)", 1),
            Ok(Err(e)) => out.count(&format!("valid counts rejected by {group} (informational): {e}"), 1),
            Err(p) => out.group_violation(group, &format!("count:panic-valid:{group}:{counts}"), &format!("{group} panicked on valid counts {counts}: {p}"), json!({"entry point": group, "counts": counts})),
        }
    }
    fn two_count_cases() -> Vec<(usize, usize)> {
        let mut v = vec![];
        // cheap neighbours first: a broken entry point exhausts its violation budget before
        // the cases that would make it build 64 recursive verifiers
        for &b in bad() {
            v.extend([(b, 1), (1, b)]);
        }
        for &b in bad() {
            v.extend([(b, 64), (64, b), (b, b)]);
        }
        v.extend([(0, M), (M, 0), (65, 0), (1 << 32, 1 << 32)]);
        v.dedup();
        v
    }

    fn parser_stage(out: &ChildOut) {
        for &n in &[0usize, 65, 66, 100, 1000, 5000] {
            let mut v = if n == 0 { vec![0u64; 8] } else { super::c24::private_base(n, 0) };
            v[0] = 2 * n as u64;
            let felts: Vec<F> = v.iter().map(|&x| fe(x)).collect();
            reject(out, "PrivateBatchPublicInputs::try_from_u64_slice", &format!("n_leaf={n} (len {})", v.len()), || PrivateBatchPublicInputs::try_from_u64_slice(&v).map(|_| ()).map_err(e2s));
            reject(out, "PrivateBatchPublicInputs::try_from_felts", &format!("n_leaf={n} (len {})", v.len()), || <PrivateBatchPublicInputs as ParsePrivateBatchPublicInputs>::try_from_felts(&felts).map(|_| ()).map_err(e2s));
        }
        for (m, n) in two_count_cases() {
            let wrapped = 12usize.wrapping_add(14usize.wrapping_mul(m.wrapping_mul(n)));
            let mut lens = vec![12usize, 26];
            if wrapped <= 200_000 {
                lens.push(wrapped);
            }
            lens.dedup();
            for l in lens {
                let mut v = vec![0u64; l];
                if l > 11 {
                    v[11] = 2u64.wrapping_mul(m as u64).wrapping_mul(n as u64);
                }
                reject(out, "PublicBatchPublicInputs::try_from_u64_slice", &format!("({m}, {n}) with {l} elements"), || PublicBatchPublicInputs::try_from_u64_slice(&v, m, n).map(|_| ()).map_err(e2s));
            }
        }
        for &(m, n) in &[(1usize, 1usize), (64, 64), (2, 63)] {
            let v = super::c24::public_base(m, n, 0);
            accept(out, "PublicBatchPublicInputs::try_from_u64_slice", &format!("({m}, {n})"), || PublicBatchPublicInputs::try_from_u64_slice(&v, m, n).map(|_| ()).map_err(e2s));
        }
        for &n in &[1usize, 64] {
            let v = super::c24::private_base(n, 0);
            accept(out, "PrivateBatchPublicInputs::try_from_u64_slice", &format!("n_leaf={n}"), || PrivateBatchPublicInputs::try_from_u64_slice(&v).map(|_| ()).map_err(e2s));
        }
    }

    fn entry_stage(out: &ChildOut, thorough: bool) {
        let fix = Fix::build(out, "c29");
        let pcfg = wormhole_private_batch_circuit_config;
        let ucfg = wormhole_public_batch_circuit_config;
        let limits = PoolLimits { max_proofs: M, max_buckets: 16, max_verifies_per_window: 16, verify_window: std::time::Duration::from_secs(60) };
        let exists = |p: &std::path::Path| p.exists();
        let listing = |p: &std::path::Path| -> Vec<String> {
            let mut v: Vec<String> = std::fs::read_dir(p).map(|d| d.filter_map(|e| e.ok()).map(|e| e.file_name().to_string_lossy().into_owned()).collect()).unwrap_or_default();
            v.sort();
            v
        };
        // ---- one-count entry points ----
        for &c in bad() {
            let cs = c.to_string();
            {
                let mut b = CircuitBuilder::<F, D>::new(pcfg());
                reject(out, "add_recursive_verifiers", &cs, || add_recursive_verifiers::<F, C, D>(&mut b, &fix.common, &fix.vo, c).map(|_| ()).map_err(e2s));
            }
            reject(out, "PrivateBatchCircuit::new", &cs, || PrivateBatchCircuit::new(pcfg(), &fix.common, &fix.vo, c).map(|_| ()).map_err(e2s));
            {
                let (common, dummy) = (fix.common.clone(), fix.dummy.clone());
                reject(out, "PrivateBatchProver::new", &cs, || PrivateBatchProver::new(pcfg(), common, &fix.vo, c, dummy).map(|_| ()).map_err(e2s));
            }
            reject(out, "PrivateBatchProver::new_from_bytes", &cs, || PrivateBatchProver::new_from_bytes(&fix.common_bytes, &fix.vo_bytes, &fix.dummy_bytes, c).map(|_| ()).map_err(e2s));
            {
                let d = fix.artifact_dir("pbp-files", None);
                reject(out, "PrivateBatchProver::new_from_files", &cs, || PrivateBatchProver::new_from_files(&d.join("common.bin"), &d.join("verifier.bin"), &d.join("dummy_proof.bin"), c).map(|_| ()).map_err(e2s));
            }
            {
                let d = fix.artifact_dir("pbp-dir", Some(&format!("{{\"num_leaf_proofs\":{c}}}")));
                reject(out, "PrivateBatchProver::new_from_binaries_dir", &cs, || PrivateBatchProver::new_from_binaries_dir(&d).map(|_| ()).map_err(e2s));
            }
            for include_prover in [false, true] {
                let g = "generate_private_batch_circuit_binaries";
                // (a) a directory that does not exist yet: rejected, and still not there afterwards
                let d = fix.dir.join("gen-private-absent");
                let _ = std::fs::remove_dir_all(&d);
                if reject(out, g, &format!("{cs} (include_prover={include_prover}, fresh output dir)"), || generate_private_batch_circuit_binaries(&d, c, include_prover).map_err(e2s)) && exists(&d) {
                    out.group_violation(g, &format!("count:side-effect:{g}:{cs}"), &format!("{g} created its output directory before rejecting count {cs}"), json!({"count": cs}));
                }
                // (b) a directory holding valid leaf artifacts: still rejected before reading/building
                let d = fix.artifact_dir("gen-private", None);
                let before = listing(&d);
                if reject(out, g, &format!("{cs} (include_prover={include_prover}, leaf artifacts present)"), || generate_private_batch_circuit_binaries(&d, c, include_prover).map_err(e2s)) && listing(&d) != before {
                    out.group_violation(g, &format!("count:side-effect2:{g}:{cs}"), &format!("{g} changed its output directory before rejecting count {cs}"), json!({"count": cs}));
                }
            }
        }
        // ---- two-count entry points (private-batch count m, leaf count n) ----
        for (m, n) in two_count_cases() {
            let cs = format!("(num_private_batch_proofs={m}, num_leaf_proofs={n})");
            {
                let fab = fix.fab_common(n);
                reject(out, "PublicBatchCircuit::new", &cs, || PublicBatchCircuit::new(ucfg(), fab, &fix.vo, m, n).map(|_| ()).map_err(e2s));
            }
            {
                let (fab, dummy) = (fix.fab_common(n), fix.dummy.clone());
                reject(out, "PublicBatchProver::new", &cs, || PublicBatchProver::new(ucfg(), fab, &fix.vo, m, n, dummy).map(|_| ()).map_err(e2s));
            }
            reject(out, "PublicBatchProver::new_from_bytes", &cs, || PublicBatchProver::new_from_bytes(&fix.common_bytes, &fix.vo_bytes, &fix.dummy_bytes, (n, m)).map(|_| ()).map_err(e2s));
            {
                let d = fix.artifact_dir("pub-files", None);
                reject(out, "PublicBatchProver::new_from_files", &cs, || PublicBatchProver::new_from_files(&d.join("private_batch_common.bin"), &d.join("private_batch_verifier.bin"), &d.join("dummy_private_batch_proof.bin"), (n, m)).map(|_| ()).map_err(e2s));
            }
            {
                let cfg = format!("{{\"num_leaf_proofs\":{n},\"num_private_batch_proofs\":{m}}}");
                let d = fix.artifact_dir("pub-dir", Some(&cfg));
                reject(out, "PublicBatchProver::new_from_binaries_dir", &cs, || PublicBatchProver::new_from_binaries_dir(&d).map(|_| ()).map_err(e2s));
                reject(out, "PublicBatchAggregator::new", &cs, || wormhole_aggregator::aggregator::PublicBatchAggregator::new(&d, Default::default()).map(|_| ()).map_err(e2s));
            }
            {
                let v = VerifierCircuitData { verifier_only: fix.vo.clone(), common: fix.fab_common(n) };
                reject(out, "ProofPool::new", &format!("(inner_num_leaves={n}, batch_size={m})"), || ProofPool::new(v, n, m, limits).map(|_| ()).map_err(e2s));
            }
            {
                let g = "generate_public_batch_circuit_binaries";
                let d = fix.dir.join("gen-public-absent");
                let _ = std::fs::remove_dir_all(&d);
                if reject(out, g, &format!("{cs} (fresh output dir)"), || generate_public_batch_circuit_binaries(&d, m, n).map_err(e2s)) && exists(&d) {
                    out.group_violation(g, &format!("count:side-effect:{g}:{cs}"), &format!("{g} created its output directory before rejecting {cs}"), json!({"counts": cs}));
                }
                let d = fix.artifact_dir("gen-public", None);
                let before = listing(&d);
                if reject(out, g, &format!("{cs} (artifacts present)"), || generate_public_batch_circuit_binaries(&d, m, n).map_err(e2s)) && listing(&d) != before {
                    out.group_violation(g, &format!("count:side-effect2:{g}:{cs}"), &format!("{g} changed its output directory before rejecting {cs}"), json!({"counts": cs}));
                }
            }
            {
                let g = "generate_all_circuit_binaries";
                let parent = fix.dir.join("gen-all");
                let _ = std::fs::remove_dir_all(&parent);
                std::fs::create_dir_all(&parent).unwrap();
                let d = parent.join("out");
                if reject(out, g, &cs, || circuit_builder::generate_all_circuit_binaries(&d, false, n, Some(m)).map_err(e2s)) && !listing(&parent).is_empty() {
                    out.group_violation(g, &format!("count:side-effect:{g}:{cs}"), &format!("{g} created {:?} next to its output directory before rejecting {cs}", listing(&parent)), json!({"counts": cs}));
                }
            }
        }
        // leaf-count-only form of the top-level builder
        for &c in bad() {
            let g = "generate_all_circuit_binaries";
            let parent = fix.dir.join("gen-all");
            let _ = std::fs::remove_dir_all(&parent);
            std::fs::create_dir_all(&parent).unwrap();
            let d = parent.join("out");
            if reject(out, g, &format!("(num_leaf_proofs={c}, no public batch)"), || circuit_builder::generate_all_circuit_binaries(&d, false, c, None).map_err(e2s)) && !listing(&parent).is_empty() {
                out.group_violation(g, &format!("count:side-effect:{g}:{c}"), &format!("{g} created {:?} before rejecting count {c}", listing(&parent)), json!({"count": c.to_string()}));
            }
        }
        // ---- valid counts at the cheap entry points (informational) ----
        let valids: Vec<usize> = if thorough { vec![1, 2, 64] } else { vec![1, 2] };
        for &c in &valids {
            let mut b = CircuitBuilder::<F, D>::new(pcfg());
            accept(out, "add_recursive_verifiers", &c.to_string(), || add_recursive_verifiers::<F, C, D>(&mut b, &fix.common, &fix.vo, c).map(|p| assert_eq!(p.len(), c)).map_err(e2s));
            accept(out, "PrivateBatchCircuit::new", &c.to_string(), || PrivateBatchCircuit::new(pcfg(), &fix.common, &fix.vo, c).map(|_| ()).map_err(e2s));
        }
        for &(m, n) in &[(1usize, 1usize), (64, 64), (1, 64), (64, 1)] {
            let v = VerifierCircuitData { verifier_only: fix.vo.clone(), common: fix.fab_common(n) };
            accept(out, "ProofPool::new", &format!("(inner_num_leaves={n}, batch_size={m})"), || ProofPool::new(v, n, m, limits).map(|_| ()).map_err(e2s));
        }
        out.extra("entry points", json!({"bad counts": format!("{:?}", bad()), "two-count cases": two_count_cases().len(), "one-count": ["add_recursive_verifiers", "PrivateBatchCircuit::new", "PrivateBatchProver::{new,new_from_bytes,new_from_files,new_from_binaries_dir}", "generate_private_batch_circuit_binaries (fresh dir / artifacts present, with and without prover)", "generate_all_circuit_binaries (leaf count only)"], "two-count": ["PublicBatchCircuit::new", "PublicBatchProver::{new,new_from_bytes,new_from_files,new_from_binaries_dir}", "PublicBatchAggregator::new", "ProofPool::new", "generate_public_batch_circuit_binaries", "generate_all_circuit_binaries"]}));
        out.sample(json!({"entry point": "ProofPool::new(inner_num_leaves=65, batch_size=1) with a verifier whose public-input count is 8+21*65 -> must be Err"}));
    }

    pub fn child(out: &ChildOut, thorough: bool) {
        THOROUGH.store(thorough, Ordering::Relaxed);
        out.stage(1, "arithmetic and config type", || arithmetic_stage(out));
        out.stage(2, "config files", || files_stage(out));
        out.stage(3, "parsers", || parser_stage(out));
        out.stage(4, "constructors, provers, pool, builders", || entry_stage(out, thorough));
    }

    pub fn describe(rep: &Report) {
        rep.rule("every entry point taking a per-layer count is called with each count of {0,65,66,1000,2^32,2^63,usize::MAX} (thorough: 17 counts incl. 67,128,255,256,1024,65536,2^31,2^32-1,2^63-1,usize::MAX-1) (two-count entry points: the bad count in either position next to 1 and 64, and both bad): must return Err, must not panic, < 1 MiB peak allocation during the call (counting allocator), builders must not create or touch their output directory. validate_proof_count, CircuitBinsConfig::{new,validate,load} and the length helper are checked two-sided (Ok iff 1..=64). try_pi_len == u128 arithmetic on a grid holding every overflow edge; pi_len exact on all 64x64 valid pairs. config.json: all 64 x 65 valid pairs saved and reloaded, reloaded from the legacy key, malformed files never panic and never yield out-of-range counts. distinct = distinct (entry point, counts) / inputs");
        rep.assume("the statement only demands rejection at the circuit/prover/pool/builder entry points; acceptance of valid counts there is exercised for counts 1, 2 (64 thorough) and reported as a counter, not as a verdict");
        rep.assume("public-batch constructors and the pool get common data whose public-input count equals the private-batch layout length for the supplied leaf count, so a later shape check cannot hide a missing count check; parsers cannot be given 2^32-element slices, their huge-count cases are (count arguments, short slice)");
        rep.assume("the circuit-builder CLI's parse_proof_count is private to the binary; its backstop CircuitBinsConfig::new inside generate_all_circuit_binaries is what is driven");
    }
}

fn main() {
    if std::env::var_os("VERIF_DEBUG_PANICS").is_none() {
        quiet_panics();
    }
    let tier = tier_from_args();
    let thorough = tier == "thorough";
    let prop = arg_value("--property").unwrap_or_else(|| machinery_error("usage: pure --property <C24|C25|C26|C28|C29|C35> --tier <quick|thorough>"));
    if let Some(path) = arg_value("--child-out") {
        child_main(&prop, thorough, &path);
    }
    let rep = Report::new(&prop, "exploration", &tier);
    match prop.as_str() {
        "C24" => c24::run(&rep, thorough),
        "C25" => c25::run(&rep, thorough),
        "C26" => c26::run(&rep, thorough),
        "C35" => c35::run(&rep, thorough),
        "C28" => {
            c28::describe(&rep);
            run_parent(&rep, "C28", &tier);
        }
        "C29" => {
            c29::describe(&rep);
            run_parent(&rep, "C29", &tier);
        }
        other => machinery_error(&format!("pure: unknown property {other}")),
    }
    std::process::exit(rep.finish());
}
