//! C33 — secret material is scrubbed before its memory is released.
//!
//! The binary installs a global allocator that, while armed, scans every block handed to
//! `dealloc` (and the old block of every `realloc`) for the active secret pattern. Exactly the
//! two documented upstream `pad10_to_rate` buffers (whole-block byte equality) are exempt.
//! Every well-typed call sequence over the secret-handling API up to the tier's length bound
//! is executed, for each of four secret patterns; every object lives in its own heap block
//! (`Box`), so the drop-time scrub of `Secret` is observed by the allocator as well.
use plonky2::field::types::{Field, PrimeField64};
use serde_json::json;
use std::alloc::{GlobalAlloc, Layout, System};
use std::cell::UnsafeCell;
use std::sync::atomic::{AtomicBool, AtomicU64, AtomicUsize, Ordering};
use vharness::mcx::*;
use wormhole_circuit::inputs::{CircuitInputs, PrivateCircuitInputs, PublicCircuitInputs};
use wormhole_circuit::nullifier::{Nullifier, NULLIFIER_SALT};
use wormhole_circuit::sensitive::Secret;
use wormhole_circuit::unspendable_account::{UnspendableAccount, UNSPENDABLE_SALT};
use zk_circuits_common::circuit::F;
use zk_circuits_common::utils::{bytes_to_digest, string_to_felts, u64_to_felts, BytesDigest, Digest};

// ---------------------------------------------------------------------------------
// the scanning allocator
// ---------------------------------------------------------------------------------

const MAX_NEEDLES: usize = 8;
#[derive(Clone, Copy)]
struct Needle {
    len: usize,
    bytes: [u8; 32],
    /// 0 = whole secret, 1 = 16-byte half, 2 = one 8-byte limb
    kind: u8,
}
struct Active {
    needles: [Needle; MAX_NEEDLES],
    n_needles: usize,
    pad_nullifier: [u8; 128],
    pad_account: [u8; 64],
}
struct ActiveCell(UnsafeCell<Active>);
// written only while the allocator is disarmed, by the single harness thread
unsafe impl Sync for ActiveCell {}
static ACTIVE: ActiveCell = ActiveCell(UnsafeCell::new(Active {
    needles: [Needle { len: 0, bytes: [0; 32], kind: 0 }; MAX_NEEDLES],
    n_needles: 0,
    pad_nullifier: [0; 128],
    pad_account: [0; 64],
}));

static ARMED: AtomicBool = AtomicBool::new(false);
static CUR_OP: AtomicUsize = AtomicUsize::new(0);
static HITS: AtomicUsize = AtomicUsize::new(0);
static EXEMPT: AtomicUsize = AtomicUsize::new(0);
static FREES: AtomicU64 = AtomicU64::new(0);
static FREED_BYTES: AtomicU64 = AtomicU64::new(0);
static TRACE: AtomicU64 = AtomicU64::new(0);
const MAX_HITS: usize = 4;
/// (op index, block size, needle kind, needle offset in block)
static HIT_OP: [AtomicUsize; MAX_HITS] = [AtomicUsize::new(0), AtomicUsize::new(0), AtomicUsize::new(0), AtomicUsize::new(0)];
static HIT_SIZE: [AtomicUsize; MAX_HITS] = [AtomicUsize::new(0), AtomicUsize::new(0), AtomicUsize::new(0), AtomicUsize::new(0)];
static HIT_KIND: [AtomicUsize; MAX_HITS] = [AtomicUsize::new(0), AtomicUsize::new(0), AtomicUsize::new(0), AtomicUsize::new(0)];
static HIT_OFF: [AtomicUsize; MAX_HITS] = [AtomicUsize::new(0), AtomicUsize::new(0), AtomicUsize::new(0), AtomicUsize::new(0)];

fn find(block: &[u8], needle: &[u8]) -> Option<usize> {
    if block.len() < needle.len() {
        return None;
    }
    let first = needle[0];
    let last = block.len() - needle.len();
    let mut i = 0;
    while i <= last {
        if block[i] == first && &block[i..i + needle.len()] == needle {
            return Some(i);
        }
        i += 1;
    }
    None
}

#[inline(never)]
unsafe fn scan_freed(ptr: *mut u8, size: usize) {
    FREES.fetch_add(1, Ordering::Relaxed);
    FREED_BYTES.fetch_add(size as u64, Ordering::Relaxed);
    let t = TRACE.load(Ordering::Relaxed);
    TRACE.store(t.wrapping_mul(0x100000001b3).wrapping_add(0x8000_0000 | size as u64), Ordering::Relaxed);
    if size < 8 {
        return;
    }
    let block = unsafe { core::slice::from_raw_parts(ptr, size) };
    let act = unsafe { &*ACTIVE.0.get() };
    for n in &act.needles[..act.n_needles] {
        if let Some(off) = find(block, &n.bytes[..n.len]) {
            if block == &act.pad_nullifier[..] || block == &act.pad_account[..] {
                EXEMPT.fetch_add(1, Ordering::Relaxed);
            } else {
                let k = HITS.fetch_add(1, Ordering::Relaxed);
                if k < MAX_HITS {
                    HIT_OP[k].store(CUR_OP.load(Ordering::Relaxed), Ordering::Relaxed);
                    HIT_SIZE[k].store(size, Ordering::Relaxed);
                    HIT_KIND[k].store(n.kind as usize, Ordering::Relaxed);
                    HIT_OFF[k].store(off, Ordering::Relaxed);
                }
            }
            return;
        }
    }
}

struct ScanningAllocator;
unsafe impl GlobalAlloc for ScanningAllocator {
    unsafe fn alloc(&self, layout: Layout) -> *mut u8 {
        if ARMED.load(Ordering::Relaxed) {
            let t = TRACE.load(Ordering::Relaxed);
            TRACE.store(t.wrapping_mul(0x100000001b3).wrapping_add(layout.size() as u64), Ordering::Relaxed);
        }
        unsafe { System.alloc(layout) }
    }
    unsafe fn alloc_zeroed(&self, layout: Layout) -> *mut u8 {
        if ARMED.load(Ordering::Relaxed) {
            let t = TRACE.load(Ordering::Relaxed);
            TRACE.store(t.wrapping_mul(0x100000001b3).wrapping_add(layout.size() as u64), Ordering::Relaxed);
        }
        unsafe { System.alloc_zeroed(layout) }
    }
    unsafe fn dealloc(&self, ptr: *mut u8, layout: Layout) {
        if ARMED.load(Ordering::Relaxed) {
            unsafe { scan_freed(ptr, layout.size()) };
        }
        // Every released block is wiped after the scan (armed or not), so memory handed out
        // later never carries residue of an earlier block (the exempt upstream buffers, the
        // harness's own temporaries): whatever the scan finds in a block was written during
        // that block's own lifetime.
        unsafe {
            // volatile wipe: a plain memset before `free` is a dead store the optimizer removes
            zeroize::Zeroize::zeroize(core::slice::from_raw_parts_mut(ptr, layout.size()));
            System.dealloc(ptr, layout)
        }
    }
    /// never in place: the old block is scanned and released like any other freed block
    /// (an in-place `System.realloc` may move the data and release the old block unseen)
    unsafe fn realloc(&self, ptr: *mut u8, layout: Layout, new_size: usize) -> *mut u8 {
        let new_layout = unsafe { Layout::from_size_align_unchecked(new_size, layout.align()) };
        let new_ptr = unsafe { self.alloc(new_layout) };
        if !new_ptr.is_null() {
            unsafe {
                core::ptr::copy_nonoverlapping(ptr, new_ptr, layout.size().min(new_size));
                self.dealloc(ptr, layout);
            }
        }
        new_ptr
    }
}
#[global_allocator]
static ALLOCATOR: ScanningAllocator = ScanningAllocator;

fn reset_counters() {
    HITS.store(0, Ordering::Relaxed);
    EXEMPT.store(0, Ordering::Relaxed);
    FREES.store(0, Ordering::Relaxed);
    FREED_BYTES.store(0, Ordering::Relaxed);
    TRACE.store(0xcbf29ce484222325, Ordering::Relaxed);
}
fn arm() {
    ARMED.store(true, Ordering::SeqCst);
}
fn disarm() {
    ARMED.store(false, Ordering::SeqCst);
}

// ---------------------------------------------------------------------------------
// secret patterns
// ---------------------------------------------------------------------------------

const P_ORDER: u64 = 0xFFFF_FFFF_0000_0001;

#[derive(Clone, Copy)]
struct Pattern {
    name: &'static str,
    bytes: [u8; 32],
    tc: u64,
}

fn limbs(d: [u64; 4]) -> [u8; 32] {
    let mut b = [0u8; 32];
    for i in 0..4 {
        b[i * 8..i * 8 + 8].copy_from_slice(&d[i].to_le_bytes());
    }
    b
}

fn patterns() -> [Pattern; 4] {
    let mut zero_limb = [0u8; 32];
    for (k, b) in zero_limb.iter_mut().enumerate().skip(8) {
        *b = 0x21 + (k as u8 - 8) * 3; // 0x21..0x66, pairwise distinct, limb 0 stays zero
    }
    let mut high = [0u8; 32];
    for (k, b) in high.iter_mut().enumerate() {
        *b = 0x80 + (k as u8) * 4; // 0x80..0xfc: every byte has the high bit, top byte of each limb <= 0xfc
    }
    [
        Pattern { name: "ascii (the suite's pattern)", bytes: *b"wormhole-zeroize-regression-pat!", tc: 42 },
        Pattern { name: "limbs p-1-i", bytes: limbs([P_ORDER - 1, P_ORDER - 2, P_ORDER - 3, P_ORDER - 4]), tc: 0 },
        Pattern { name: "limb 0 zero, distinctive rest", bytes: zero_limb, tc: u64::MAX },
        Pattern { name: "high-bit bytes 0x80..0xfc", bytes: high, tc: 1 << 32 },
    ]
}

fn felts_le_bytes(felts: &[F]) -> Vec<u8> {
    felts.iter().flat_map(|f| f.to_canonical_u64().to_le_bytes()).collect()
}

/// install needles and the two upstream pad images for `scan_for`
fn install(scan_for: &Pattern) -> Vec<String> {
    assert!(!ARMED.load(Ordering::SeqCst));
    let secret = BytesDigest::try_from(scan_for.bytes).unwrap_or_else(|_| machinery_error("pattern is not a canonical digest"));
    let sf = bytes_to_digest(secret);
    if felts_le_bytes(&sf) != scan_for.bytes.to_vec() {
        machinery_error("felt encoding of the pattern is not its byte image (not little-endian / not canonical?)");
    }
    let mut pad_n: Vec<F> = string_to_felts(NULLIFIER_SALT).unwrap();
    pad_n.extend(sf);
    pad_n.extend(u64_to_felts(scan_for.tc));
    pad_n.push(F::ONE);
    pad_n.resize(16, F::ZERO);
    let mut pad_a: Vec<F> = string_to_felts(UNSPENDABLE_SALT).unwrap();
    pad_a.extend(sf);
    pad_a.push(F::ONE);
    if pad_a.len() != 8 {
        machinery_error("account preimage no longer pads to one rate block");
    }
    let act = unsafe { &mut *ACTIVE.0.get() };
    act.pad_nullifier.copy_from_slice(&felts_le_bytes(&pad_n));
    act.pad_account.copy_from_slice(&felts_le_bytes(&pad_a));
    let mut described = vec![];
    let mut n = 0;
    let mut push = |bytes: &[u8], kind: u8, what: String| {
        let mut b = [0u8; 32];
        b[..bytes.len()].copy_from_slice(bytes);
        act.needles[n] = Needle { len: bytes.len(), bytes: b, kind };
        n += 1;
        described.push(what);
    };
    push(&scan_for.bytes, 0, "whole secret (32 bytes)".into());
    for h in 0..2 {
        push(&scan_for.bytes[h * 16..h * 16 + 16], 1, format!("half {h} (16 bytes)"));
    }
    for l in 0..4 {
        let limb = &scan_for.bytes[l * 8..l * 8 + 8];
        let distinct = (0..8).all(|i| (0..i).all(|j| limb[i] != limb[j]));
        if distinct {
            push(limb, 2, format!("limb {l} (8 pairwise distinct bytes)"));
        }
    }
    act.n_needles = n;
    described
}

// ---------------------------------------------------------------------------------
// the typed object pool and the operation alphabet
// ---------------------------------------------------------------------------------

#[derive(Clone, Copy, PartialEq, Eq, Debug)]
#[repr(u8)]
enum Ty {
    Sec,
    Nul,
    Acc,
    BytesN,
    BytesA,
    FeltsN,
    FeltsA,
    Inp,
}
const TYS: [Ty; 8] = [Ty::Sec, Ty::Nul, Ty::Acc, Ty::BytesN, Ty::BytesA, Ty::FeltsN, Ty::FeltsA, Ty::Inp];

enum Obj {
    Sec(Box<Secret>),
    Nul(Box<Nullifier>),
    Acc(Box<UnspendableAccount>),
    // whatever the serializers return, held behind a trait object so that the harness also
    // compiles against a version that returns a bare Vec
    BytesN(Box<dyn AsRef<[u8]>>),
    BytesA(Box<dyn AsRef<[u8]>>),
    FeltsN(Box<dyn AsRef<[F]>>),
    FeltsA(Box<dyn AsRef<[F]>>),
    Inp(Box<CircuitInputs>),
}
impl Obj {
    fn ty(&self) -> Ty {
        match self {
            Obj::Sec(_) => Ty::Sec,
            Obj::Nul(_) => Ty::Nul,
            Obj::Acc(_) => Ty::Acc,
            Obj::BytesN(_) => Ty::BytesN,
            Obj::BytesA(_) => Ty::BytesA,
            Obj::FeltsN(_) => Ty::FeltsN,
            Obj::FeltsA(_) => Ty::FeltsA,
            Obj::Inp(_) => Ty::Inp,
        }
    }
}

#[derive(Clone, Copy, PartialEq, Eq, Debug)]
enum Op {
    SecretNewValid,
    SecretNewInvalid,
    SecretFromDigest,
    SecretFromFelts,
    SecretTryFrom,
    SecretExposeDigest,
    SecretExposeFelts,
    NullifierNew,
    NullifierFromPreimage,
    NullifierToBytes,
    NullifierFromBytes,
    NullifierToFieldElements,
    NullifierFromFieldElements,
    NullifierFromInputs,
    AccountNew,
    AccountFromSecret,
    AccountToBytes,
    AccountFromBytes,
    AccountToFieldElements,
    AccountFromFieldElements,
    AccountFromInputs,
    BuildInputs,
    /// rejection paths: a decoder is handed the secret next to a malformed rest and must
    /// refuse it without leaving the secret in a freed block
    NullifierFromFeltsBadCountLo,
    NullifierFromFeltsBadCountHi,
    NullifierFromFeltsBadLen,
    NullifierFromBytesBadLen,
    AccountFromFeltsBadLen,
    AccountFromBytesBadLen,
    Drop(Ty),
}

fn alphabet() -> Vec<Op> {
    use Op::*;
    let mut v = vec![
        SecretNewValid,
        SecretNewInvalid,
        SecretFromDigest,
        SecretFromFelts,
        SecretTryFrom,
        SecretExposeDigest,
        SecretExposeFelts,
        NullifierNew,
        NullifierFromPreimage,
        NullifierToBytes,
        NullifierFromBytes,
        NullifierToFieldElements,
        NullifierFromFieldElements,
        NullifierFromInputs,
        AccountNew,
        AccountFromSecret,
        AccountToBytes,
        AccountFromBytes,
        AccountToFieldElements,
        AccountFromFieldElements,
        AccountFromInputs,
        BuildInputs,
        NullifierFromFeltsBadCountLo,
        NullifierFromFeltsBadCountHi,
        NullifierFromFeltsBadLen,
        NullifierFromBytesBadLen,
        AccountFromFeltsBadLen,
        AccountFromBytesBadLen,
    ];
    for t in TYS {
        v.push(Drop(t));
    }
    v
}

impl Op {
    /// the type of live object the operation needs (well-typedness), and what it creates
    fn needs(self) -> Option<Ty> {
        use Op::*;
        match self {
            SecretExposeDigest | SecretExposeFelts => Some(Ty::Sec),
            NullifierToBytes | NullifierToFieldElements => Some(Ty::Nul),
            NullifierFromBytes => Some(Ty::BytesN),
            NullifierFromFieldElements => Some(Ty::FeltsN),
            NullifierFromInputs | AccountFromInputs => Some(Ty::Inp),
            AccountToBytes | AccountToFieldElements => Some(Ty::Acc),
            AccountFromBytes => Some(Ty::BytesA),
            AccountFromFieldElements => Some(Ty::FeltsA),
            Drop(t) => Some(t),
            _ => None,
        }
    }
    fn creates(self) -> Option<Ty> {
        use Op::*;
        match self {
            SecretNewValid | SecretFromDigest | SecretFromFelts | SecretTryFrom => Some(Ty::Sec),
            NullifierNew | NullifierFromPreimage | NullifierFromBytes | NullifierFromFieldElements | NullifierFromInputs => Some(Ty::Nul),
            NullifierToBytes => Some(Ty::BytesN),
            NullifierToFieldElements => Some(Ty::FeltsN),
            AccountNew | AccountFromSecret | AccountFromBytes | AccountFromFieldElements | AccountFromInputs => Some(Ty::Acc),
            AccountToBytes => Some(Ty::BytesA),
            AccountToFieldElements => Some(Ty::FeltsA),
            BuildInputs => Some(Ty::Inp),
            _ => None,
        }
    }
}

const PUBLIC_HASH: [u8; 32] = [0x11; 32];
const PUBLIC_ACCOUNT: [u8; 32] = [0x22; 32];

struct World {
    pool: Vec<Obj>,
    /// problems that are not the allocator's to see (caller buffer not zeroed, wrong value)
    problems: Vec<String>,
}

fn last_of(pool: &[Obj], t: Ty) -> usize {
    pool.iter().rposition(|o| o.ty() == t).unwrap_or_else(|| machinery_error("ill-typed sequence reached the executor"))
}

fn build_inputs(secret: BytesDigest, tc: u64) -> CircuitInputs {
    CircuitInputs {
        private: PrivateCircuitInputs {
            secret: Secret::from(secret),
            transfer_count: tc,
            unspendable_account: BytesDigest::new_unchecked(PUBLIC_ACCOUNT),
            parent_hash: BytesDigest::new_unchecked([5u8; 32]),
            state_root: BytesDigest::new_unchecked([3u8; 32]),
            extrinsics_root: BytesDigest::new_unchecked([4u8; 32]),
            digest: [0xEE; 110],
            input_amount: 1000,
            zk_tree_root: [0u8; 32],
            zk_merkle_siblings: vec![],
            zk_merkle_positions: vec![],
        },
        public: PublicCircuitInputs {
            asset_id: 0,
            output_amount_1: 900,
            output_amount_2: 99,
            volume_fee_bps: 10,
            nullifier: BytesDigest::new_unchecked(PUBLIC_HASH),
            block_hash: BytesDigest::new_unchecked([0u8; 32]),
            exit_account_1: BytesDigest::new_unchecked([2u8; 32]),
            exit_account_2: BytesDigest::new_unchecked([3u8; 32]),
            block_number: 1,
        },
    }
}

/// Execute one operation with secret value `val` (a `Copy` digest on the stack).
#[inline(never)]
fn step(w: &mut World, op: Op, val: &Pattern) {
    use Op::*;
    let secret = BytesDigest::new_unchecked(val.bytes);
    let want_felts: Digest = bytes_to_digest(secret);
    match op {
        SecretNewValid => {
            // the caller's buffer lives on the heap: it is checked here and scanned when freed
            let mut buf: Box<[u8; 32]> = Box::new(val.bytes);
            match Secret::new(&mut buf) {
                Ok(s) => w.pool.push(Obj::Sec(Box::new(s))),
                Err(_) => w.problems.push("Secret::new rejected a canonical secret".into()),
            }
            if *buf != [0u8; 32] {
                w.problems.push("Secret::new left the caller's buffer non-zero for a valid secret".into());
                buf.fill(0); // keep the allocator's verdict about the API's own buffers only
            }
        }
        SecretNewInvalid => {
            let mut bad = val.bytes;
            bad[24..32].copy_from_slice(&u64::MAX.to_le_bytes()); // last limb >= p
            let mut buf: Box<[u8; 32]> = Box::new(bad);
            if Secret::new(&mut buf).is_ok() {
                w.problems.push("Secret::new accepted a non-canonical secret".into());
            }
            if *buf != [0u8; 32] {
                w.problems.push("Secret::new left the caller's buffer non-zero for an invalid secret".into());
                buf.fill(0);
            }
        }
        SecretFromDigest => w.pool.push(Obj::Sec(Box::new(Secret::from(secret)))),
        SecretFromFelts => w.pool.push(Obj::Sec(Box::new(Secret::from(want_felts)))),
        SecretTryFrom => match Secret::try_from(val.bytes) {
            Ok(s) => w.pool.push(Obj::Sec(Box::new(s))),
            Err(_) => w.problems.push("Secret::try_from rejected a canonical secret".into()),
        },
        SecretExposeDigest => {
            let i = last_of(&w.pool, Ty::Sec);
            if let Obj::Sec(s) = &w.pool[i] {
                if *s.expose_digest() != val.bytes {
                    w.problems.push("expose_digest returned a different value".into());
                }
            }
        }
        SecretExposeFelts => {
            let i = last_of(&w.pool, Ty::Sec);
            if let Obj::Sec(s) = &w.pool[i] {
                if s.expose_felts() != want_felts {
                    w.problems.push("expose_felts returned a different value".into());
                }
            }
        }
        NullifierNew => w.pool.push(Obj::Nul(Box::new(Nullifier::new(BytesDigest::new_unchecked(PUBLIC_HASH), secret, val.tc)))),
        NullifierFromPreimage => w.pool.push(Obj::Nul(Box::new(Nullifier::from_preimage(secret, val.tc)))),
        NullifierToBytes => {
            let i = last_of(&w.pool, Ty::Nul);
            if let Obj::Nul(n) = &w.pool[i] {
                let b = n.to_bytes();
                w.pool.push(Obj::BytesN(Box::new(b)));
            }
        }
        NullifierFromBytes => {
            let i = last_of(&w.pool, Ty::BytesN);
            if let Obj::BytesN(b) = &w.pool[i] {
                match Nullifier::from_bytes((**b).as_ref()) {
                    Ok(n) => w.pool.push(Obj::Nul(Box::new(n))),
                    Err(_) => w.problems.push("Nullifier::from_bytes rejected to_bytes output".into()),
                }
            }
        }
        NullifierToFieldElements => {
            let i = last_of(&w.pool, Ty::Nul);
            if let Obj::Nul(n) = &w.pool[i] {
                let f = n.to_field_elements();
                w.pool.push(Obj::FeltsN(Box::new(f)));
            }
        }
        NullifierFromFieldElements => {
            let i = last_of(&w.pool, Ty::FeltsN);
            if let Obj::FeltsN(f) = &w.pool[i] {
                match Nullifier::from_field_elements((**f).as_ref()) {
                    Ok(n) => w.pool.push(Obj::Nul(Box::new(n))),
                    Err(_) => w.problems.push("Nullifier::from_field_elements rejected to_field_elements output".into()),
                }
            }
        }
        NullifierFromInputs => {
            let i = last_of(&w.pool, Ty::Inp);
            if let Obj::Inp(inp) = &w.pool[i] {
                let n = Nullifier::from(&**inp);
                w.pool.push(Obj::Nul(Box::new(n)));
            }
        }
        AccountNew => w.pool.push(Obj::Acc(Box::new(UnspendableAccount::new(BytesDigest::new_unchecked(PUBLIC_ACCOUNT), secret)))),
        AccountFromSecret => w.pool.push(Obj::Acc(Box::new(UnspendableAccount::from_secret(secret)))),
        AccountToBytes => {
            let i = last_of(&w.pool, Ty::Acc);
            if let Obj::Acc(a) = &w.pool[i] {
                let b = a.to_bytes();
                w.pool.push(Obj::BytesA(Box::new(b)));
            }
        }
        AccountFromBytes => {
            let i = last_of(&w.pool, Ty::BytesA);
            if let Obj::BytesA(b) = &w.pool[i] {
                match UnspendableAccount::from_bytes((**b).as_ref()) {
                    Ok(a) => w.pool.push(Obj::Acc(Box::new(a))),
                    Err(_) => w.problems.push("UnspendableAccount::from_bytes rejected to_bytes output".into()),
                }
            }
        }
        AccountToFieldElements => {
            let i = last_of(&w.pool, Ty::Acc);
            if let Obj::Acc(a) = &w.pool[i] {
                let f = a.to_field_elements();
                w.pool.push(Obj::FeltsA(Box::new(f)));
            }
        }
        AccountFromFieldElements => {
            let i = last_of(&w.pool, Ty::FeltsA);
            if let Obj::FeltsA(f) = &w.pool[i] {
                match UnspendableAccount::from_field_elements((**f).as_ref()) {
                    Ok(a) => w.pool.push(Obj::Acc(Box::new(a))),
                    Err(_) => w.problems.push("UnspendableAccount::from_field_elements rejected to_field_elements output".into()),
                }
            }
        }
        AccountFromInputs => {
            let i = last_of(&w.pool, Ty::Inp);
            if let Obj::Inp(inp) = &w.pool[i] {
                let a = UnspendableAccount::from(&**inp);
                w.pool.push(Obj::Acc(Box::new(a)));
            }
        }
        BuildInputs => w.pool.push(Obj::Inp(Box::new(build_inputs(secret, val.tc)))),
        NullifierFromFeltsBadCountLo | NullifierFromFeltsBadCountHi | NullifierFromFeltsBadLen => {
            // the caller's elements live on the stack (not the allocator's business)
            let hash: Digest = bytes_to_digest(BytesDigest::new_unchecked(PUBLIC_HASH));
            let big = plonky2::field::types::Field::from_noncanonical_u64(1u64 << 32);
            let one = plonky2::field::types::Field::from_canonical_u64(1);
            let (c0, c1) = if op == NullifierFromFeltsBadCountLo { (one, big) } else { (big, one) };
            let elems = [hash[0], hash[1], hash[2], hash[3], want_felts[0], want_felts[1], want_felts[2], want_felts[3], c0, c1];
            let slice: &[_] = if op == NullifierFromFeltsBadLen { &elems[..9] } else { &elems[..] };
            if Nullifier::from_field_elements(slice).is_ok() {
                w.problems.push("Nullifier::from_field_elements accepted malformed elements".into());
            }
        }
        NullifierFromBytesBadLen => {
            let mut buf = [0u8; 71];
            buf[..32].copy_from_slice(&PUBLIC_HASH);
            buf[32..64].copy_from_slice(&val.bytes);
            if Nullifier::from_bytes(&buf).is_ok() {
                w.problems.push("Nullifier::from_bytes accepted 71 bytes".into());
            }
        }
        AccountFromFeltsBadLen => {
            let acc: Digest = bytes_to_digest(BytesDigest::new_unchecked(PUBLIC_ACCOUNT));
            let elems = [acc[0], acc[1], acc[2], acc[3], want_felts[0], want_felts[1], want_felts[2], want_felts[3], want_felts[0]];
            if UnspendableAccount::from_field_elements(&elems).is_ok() || UnspendableAccount::from_field_elements(&elems[..7]).is_ok() {
                w.problems.push("UnspendableAccount::from_field_elements accepted a wrong length".into());
            }
        }
        AccountFromBytesBadLen => {
            let mut buf = [0u8; 65];
            buf[..32].copy_from_slice(&PUBLIC_ACCOUNT);
            buf[32..64].copy_from_slice(&val.bytes);
            if UnspendableAccount::from_bytes(&buf).is_ok() || UnspendableAccount::from_bytes(&buf[..63]).is_ok() {
                w.problems.push("UnspendableAccount::from_bytes accepted a wrong length".into());
            }
        }
        Drop(t) => {
            let i = last_of(&w.pool, t);
            let o = w.pool.remove(i);
            drop(o);
        }
    }
}

#[derive(Debug, Clone, PartialEq)]
struct Hit {
    op_index: usize,
    block_size: usize,
    needle: &'static str,
    offset: usize,
}
#[derive(Debug, Clone, PartialEq)]
struct Outcome {
    hits: Vec<Hit>,
    n_hits: usize,
    exempt: usize,
    frees: u64,
    freed_bytes: u64,
    trace: u64,
    problems: Vec<String>,
}

/// Execute one call sequence on a fresh pool, armed, and drop everything at the end
/// (oldest first) while still armed.
fn execute(seq: &[Op], val: &Pattern) -> Outcome {
    // the harness's own containers are allocated before arming and released after disarming:
    // only the API's blocks and the boxed objects are ever scanned
    let mut w = World { pool: Vec::with_capacity(seq.len() + 1), problems: Vec::with_capacity(4 * seq.len() + 4) };
    reset_counters();
    arm();
    for (i, op) in seq.iter().enumerate() {
        CUR_OP.store(i, Ordering::Relaxed);
        step(&mut w, *op, val);
    }
    CUR_OP.store(seq.len(), Ordering::Relaxed);
    while !w.pool.is_empty() {
        let o = w.pool.remove(0);
        drop(o);
    }
    disarm();
    let n_hits = HITS.load(Ordering::Relaxed);
    let hits = (0..n_hits.min(MAX_HITS))
        .map(|k| Hit {
            op_index: HIT_OP[k].load(Ordering::Relaxed),
            block_size: HIT_SIZE[k].load(Ordering::Relaxed),
            needle: ["whole secret", "16-byte half", "8-byte limb"][HIT_KIND[k].load(Ordering::Relaxed).min(2)],
            offset: HIT_OFF[k].load(Ordering::Relaxed),
        })
        .collect();
    Outcome {
        hits,
        n_hits,
        exempt: EXEMPT.load(Ordering::Relaxed),
        frees: FREES.load(Ordering::Relaxed),
        freed_bytes: FREED_BYTES.load(Ordering::Relaxed),
        trace: TRACE.load(Ordering::Relaxed),
        problems: w.problems,
    }
}

/// all well-typed sequences of length 1..=max_len (type-count model of the pool)
fn sequences(max_len: usize) -> Vec<Vec<Op>> {
    let alpha = alphabet();
    let mut out = Vec::new();
    fn rec(alpha: &[Op], counts: &mut [u8; 8], cur: &mut Vec<Op>, max_len: usize, out: &mut Vec<Vec<Op>>) {
        if cur.len() == max_len {
            return;
        }
        for &op in alpha {
            if let Some(t) = op.needs() {
                if counts[t as usize] == 0 {
                    continue;
                }
            }
            if let Op::Drop(t) = op {
                counts[t as usize] -= 1;
            }
            if let Some(t) = op.creates() {
                counts[t as usize] += 1;
            }
            cur.push(op);
            out.push(cur.clone());
            rec(alpha, counts, cur, max_len, out);
            cur.pop();
            if let Some(t) = op.creates() {
                counts[t as usize] -= 1;
            }
            if let Op::Drop(t) = op {
                counts[t as usize] += 1;
            }
        }
    }
    rec(&alpha, &mut [0u8; 8], &mut Vec::new(), max_len, &mut out);
    // shortest sequences first, so the first reported counterexample is a shortest one
    out.sort_by_key(|s| s.len());
    out
}

fn seq_text(seq: &[Op]) -> String {
    seq.iter().map(|o| format!("{o:?}")).collect::<Vec<_>>().join(" ; ")
}

/// the allocator must see a planted leak and must exempt a planted pad image, or nothing it
/// reports means anything
fn self_test(p: &Pattern) {
    reset_counters();
    let leak: Vec<u8> = {
        let mut v = vec![0xA5u8; 7];
        v.extend_from_slice(&p.bytes);
        v.extend_from_slice(&[0x5A; 9]);
        v
    };
    let partial: Vec<u8> = p.bytes[16..32].to_vec();
    let pad: Vec<u8> = unsafe { (*ACTIVE.0.get()).pad_account.to_vec() };
    let mut grow: Vec<u8> = Vec::with_capacity(32);
    grow.extend_from_slice(&p.bytes);
    let clean: Vec<u8> = vec![0u8; 64];
    arm();
    drop(leak);
    let h1 = HITS.load(Ordering::Relaxed);
    drop(partial);
    let h2 = HITS.load(Ordering::Relaxed);
    drop(pad);
    let e = EXEMPT.load(Ordering::Relaxed);
    grow.push(1); // reallocates: the old 32-byte block is released unscrubbed
    let h3 = HITS.load(Ordering::Relaxed);
    drop(clean);
    let h4 = HITS.load(Ordering::Relaxed);
    disarm();
    if h1 != 1 || h2 != 2 || e != 1 || h3 != 3 || h4 != 3 {
        machinery_error(&format!("allocator self-test failed for pattern '{}': hits after whole/half/pad/realloc/clean = {h1}/{h2}/{h3}/{h4}, exempt {e}", p.name));
    }
    // `grow` still holds the pattern: scrub it before it is freed (disarmed anyway)
    drop(grow);
}

fn main() {
    quiet_panics();
    let tier = tier_from_args();
    let thorough = tier == "thorough";
    let rep = Report::new("C33", "exploration", &tier);
    let max_len: usize = arg_value("--max-len").and_then(|s| s.parse().ok()).unwrap_or(if thorough { 5 } else { 4 });

    let pats = patterns();
    let seqs = sequences(max_len);
    let short: Vec<&Vec<Op>> = seqs.iter().filter(|s| s.len() <= 2).collect();
    let mut op_counts: std::collections::BTreeMap<String, u64> = Default::default();
    let mut total_frees = 0u64;
    let mut total_bytes = 0u64;
    let mut total_exempt = 0u64;
    let mut hashing_calls = 0u64;
    let mut needles_desc = serde_json::Map::new();
    let mut by_len = vec![0u64; max_len + 1];

    for (pi, p) in pats.iter().enumerate() {
        let desc = install(p);
        needles_desc.insert(p.name.to_string(), json!(desc));
        self_test(p);

        // calibration: the same API traffic carrying a DIFFERENT secret must not trip this
        // pattern's needles; otherwise a needle is ambiguous with unrelated memory contents
        let decoy = pats[(pi + 1) % pats.len()];
        for s in &short {
            let o = execute(s, &decoy);
            if o.n_hits != 0 || o.exempt != 0 {
                machinery_error(&format!("needles of pattern '{}' match memory of a run that never held it ({}): ambiguous needle", p.name, seq_text(s)));
            }
        }
        // determinism of the observation
        {
            let a = execute(&seqs[seqs.len() / 2], p);
            let b = execute(&seqs[seqs.len() / 2], p);
            if a != b {
                machinery_error("the same call sequence produced two different allocator observations");
            }
        }

        for (si, s) in seqs.iter().enumerate() {
            let o = execute(s, p);
            rep.eval(1);
            by_len[s.len()] += 1;
            total_frees += o.frees;
            total_bytes += o.freed_bytes;
            total_exempt += o.exempt as u64;
            let n_hash = s.iter().filter(|o| matches!(o, Op::NullifierFromPreimage | Op::AccountFromSecret)).count();
            hashing_calls += n_hash as u64;
            if o.frees > 0 {
                rep.distinct(hash64(&(pi, o.trace)));
            }
            if pi == 0 {
                for op in s.iter() {
                    *op_counts.entry(format!("{op:?}")).or_default() += 1;
                }
            }
            if o.exempt > n_hash {
                machinery_error(&format!("more exempted blocks ({}) than hashing constructor calls ({n_hash}) in [{}]", o.exempt, seq_text(s)));
            }
            if o.n_hits > 0 || !o.problems.is_empty() {
                let again = execute(s, p);
                if again != o {
                    machinery_error(&format!("violating sequence did not reproduce: [{}] first={o:?} again={again:?}", seq_text(s)));
                }
                let at = |h: &Hit| if h.op_index < s.len() { format!("during op #{} {:?}", h.op_index, s[h.op_index]) } else { "during the final drop of all live objects".to_string() };
                let mut what = vec![];
                for h in &o.hits {
                    what.push(format!("a {}-byte heap block still containing the {} (offset {}) was freed {}", h.block_size, h.needle, h.offset, at(h)));
                }
                what.extend(o.problems.iter().cloned());
                rep.violation(
                    &format!("scrub:p{pi}:{}", s.iter().map(|o| format!("{o:?}")).collect::<Vec<_>>().join(">")),
                    &format!("pattern '{}', calls [{}]: {}", p.name, seq_text(s), what.join("; ")),
                    json!({"pattern": p.name, "secret_hex": hex::encode(p.bytes), "transfer_count": p.tc, "calls": s.iter().map(|o| format!("{o:?}")).collect::<Vec<_>>(),
                           "unscrubbed_frees": o.n_hits, "details": what}),
                );
            }
            if si % (seqs.len() / 3 + 1) == seqs.len() / 5 && pi < 3 {
                rep.sample(json!({"pattern": p.name, "calls": s.iter().map(|o| format!("{o:?}")).collect::<Vec<_>>(), "blocks_freed_and_scanned": o.frees, "upstream_pad_blocks_exempted": o.exempt, "unscrubbed": o.n_hits}));
            }
        }
    }

    rep.extra("max_sequence_length", json!(max_len));
    rep.extra("well_typed_sequences_per_pattern", json!(seqs.len()));
    rep.extra("sequences_by_length (all patterns)", json!(by_len));
    rep.extra("patterns", json!(pats.iter().map(|p| json!({"name": p.name, "secret_hex": hex::encode(p.bytes), "transfer_count": p.tc})).collect::<Vec<_>>()));
    rep.extra("needles", serde_json::Value::Object(needles_desc));
    rep.extra("operation_alphabet", json!(alphabet().iter().map(|o| format!("{o:?}")).collect::<Vec<_>>()));
    rep.extra("operation_executions (one pattern)", json!(op_counts));
    rep.extra("blocks_freed_and_scanned", json!(total_frees));
    rep.extra("bytes_scanned", json!(total_bytes));
    rep.extra("upstream_pad_blocks_exempted", json!(total_exempt));
    rep.extra("hashing_constructor_calls (from_preimage + from_secret)", json!(hashing_calls));
    rep.extra("calibration_runs_with_decoy_secret", json!(short.len() * pats.len()));
    rep.rule("every well-typed call sequence of length 1..=L over the 30-operation alphabet (an operation is enabled when a live object of the type it consumes exists; it acts on the most recently created one), times 4 secret patterns; each object is boxed, all live objects are dropped (oldest first) at the end with the allocator still armed. distinct_nontrivial = distinct (pattern, trace of allocation/free sizes observed by the allocator) among sequences that freed at least one heap block while armed");
    rep.assume("single-threaded; stack copies, registers and plonky2's own buffers are out of scope as the crate documents; the two upstream pad10_to_rate images are exempted by whole-block equality only");
    rep.assume("felt form = byte form: little-endian host, canonical limbs (asserted at start for every pattern)");
    std::process::exit(rep.finish());
}
