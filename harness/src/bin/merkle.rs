//! C27: native 4-ary Merkle proofs verify exactly the valid paths, `from_unsorted` builds
//! them, and the leaf circuit agrees with the native verifier.
use rayon::prelude::*;
use serde_json::json;
use vharness::cx::{Cx, Verdict, P};
use vharness::leafnative::{bytes_to_limbs, limbs_to_bytes};
use vharness::leafref::*;
use vharness::leafx::LeafCtx;
use vharness::mcx::*;
use zk_circuits_common::zk_merkle::{is_canonical_hash, ZkMerkleProof};

type H = [u8; 32];

fn canon(hh: &H) -> bool {
    bytes_to_limbs(hh).iter().all(|&l| l < P)
}

/// Reference: the statement of C27, written over limbs and the harness's own Poseidon2 fold.
fn reference_verify(sibs: &[[H; 3]], pos: &[u8], leaf: &H, root: &H) -> bool {
    if sibs.len() > 16 || sibs.len() != pos.len() {
        return false;
    }
    if !canon(leaf) || !sibs.iter().flatten().all(canon) {
        return false;
    }
    let mut cur = bytes_to_limbs(leaf);
    for (s, &p) in sibs.iter().zip(pos) {
        if p > 3 {
            return false;
        }
        let s: Vec<[u64; 4]> = s.iter().map(bytes_to_limbs).collect();
        let ch: [[u64; 4]; 4] = match p {
            0 => [cur, s[0], s[1], s[2]],
            1 => [s[0], cur, s[1], s[2]],
            2 => [s[0], s[1], cur, s[2]],
            _ => [s[0], s[1], s[2], cur],
        };
        cur = h(&ch.concat());
    }
    limbs_to_bytes(cur) == *root
}
fn reference_fold(sibs: &[[H; 3]], pos: &[u8], leaf: &H) -> H {
    let mut cur = bytes_to_limbs(leaf);
    for (s, &p) in sibs.iter().zip(pos) {
        let s: Vec<[u64; 4]> = s.iter().map(bytes_to_limbs).collect();
        let ch: [[u64; 4]; 4] = match p {
            0 => [cur, s[0], s[1], s[2]],
            1 => [s[0], cur, s[1], s[2]],
            2 => [s[0], s[1], cur, s[2]],
            _ => [s[0], s[1], s[2], cur],
        };
        cur = h(&ch.concat());
    }
    limbs_to_bytes(cur)
}

#[derive(Clone)]
struct Proof {
    label: String,
    sibs: Vec<[H; 3]>,
    pos: Vec<u8>,
    leaf: H,
    root: H,
}

fn main() {
    quiet_panics();
    let tier = tier_from_args();
    let thorough = tier == "thorough";
    let rep = Report::new("C27", "exploration", &tier);
    let ctx = LeafCtx::new();
    let cx = Cx::new(&ctx.data);

    // base statement whose leaf hash is used for all paths that go to the circuit
    let base = LeafA::real(27, 0, &[], 5000, 10, 3000, 1900);
    let leaf: H = limbs_to_bytes(base.leaf_hash());
    let hs: Vec<H> = (1..=4u64).map(|k| limbs_to_bytes(h(&[0xC27, k]))).collect();
    let mut noncanon1 = hs[0];
    noncanon1[0..8].copy_from_slice(&P.to_le_bytes()); // limb 0 == p
    let mut noncanon2 = hs[1];
    noncanon2[24..32].copy_from_slice(&u64::MAX.to_le_bytes()); // limb 3 == 2^64-1
    let mut pm1 = [0u8; 32];
    for i in 0..4 {
        pm1[i * 8..i * 8 + 8].copy_from_slice(&(P - 1).to_le_bytes());
    }

    let mut proofs: Vec<Proof> = Vec::new();
    // (1) every position vector over 0..5 for depth <= 3 (4 thorough), siblings from the alphabet
    let dmax_full = if thorough { 4 } else { 3 };
    for d in 0..=dmax_full {
        let sizes = vec![6usize; d];
        let mut pvs: Vec<Vec<u8>> = Vec::new();
        product_indices(&sizes, |ix| pvs.push(ix.iter().map(|&x| x as u8).collect()));
        if d == 0 {
            pvs = vec![vec![]];
        }
        for pv in pvs {
            let sibs: Vec<[H; 3]> = (0..d).map(|l| [hs[l % 4], hs[(l + 1) % 4], hs[(l + 2) % 4]]).collect();
            let pv_valid: Vec<u8> = pv.iter().map(|&p| p.min(3)).collect();
            let root = reference_fold(&sibs, &pv_valid, &leaf);
            proofs.push(Proof { label: format!("positions {pv:?}"), sibs, pos: pv, leaf, root });
        }
    }
    // (2) every depth 0..17 valid path + all single corruptions
    for d in 0..=17usize {
        let pos: Vec<u8> = (0..d).map(|l| ((l * 7 + d) % 4) as u8).collect();
        let sibs: Vec<[H; 3]> = (0..d)
            .map(|l| {
                let a = limbs_to_bytes(h(&[0xC27, d as u64, l as u64, 0]));
                let mut b = limbs_to_bytes(h(&[0xC27, d as u64, l as u64, 1]));
                b[0..8].copy_from_slice(&(l as u64 + 1).to_le_bytes()); // small limb 0: has a +p byte alias
                // a sibling equal to another sibling and (level 1) equal to a plausible running hash alias
                [a, b, if l % 5 == 4 { a } else { pm1 }]
            })
            .collect();
        let root = reference_fold(&sibs, &pos, &leaf);
        let valid = Proof { label: format!("valid depth {d}"), sibs: sibs.clone(), pos: pos.clone(), leaf, root };
        proofs.push(valid.clone());
        // corruptions
        let mut r2 = root;
        r2[5] ^= 1;
        proofs.push(Proof { label: format!("depth {d}: root byte flipped"), root: r2, ..valid.clone() });
        let mut l2 = leaf;
        l2[9] ^= 0x40;
        proofs.push(Proof { label: format!("depth {d}: leaf byte flipped"), leaf: l2, ..valid.clone() });
        proofs.push(Proof { label: format!("depth {d}: noncanonical leaf"), leaf: noncanon1, ..valid.clone() });
        // length mismatches
        let mut p2 = pos.clone();
        p2.push(0);
        proofs.push(Proof { label: format!("depth {d}: one position too many"), pos: p2, ..valid.clone() });
        if d > 0 {
            let mut p3 = pos.clone();
            p3.pop();
            proofs.push(Proof { label: format!("depth {d}: one position missing"), pos: p3, ..valid.clone() });
        }
        let levels: Vec<usize> = if thorough { (0..d).collect() } else { vec![0, d / 2, d.saturating_sub(1)].into_iter().filter(|&l| l < d).collect() };
        for &l in &levels {
            for s in 0..3 {
                for byte in [0usize, 31] {
                    let mut sb = sibs.clone();
                    sb[l][s][byte] ^= 1;
                    // keep it canonical if the flip made a limb >= p (rare): fall through, the reference handles it
                    proofs.push(Proof { label: format!("depth {d}: sibling[{l}][{s}] byte {byte} flipped"), sibs: sb, ..valid.clone() });
                }
                if s == 1 {
                    // the byte alias limb0 + p of a genuine sibling: same field element, other bytes
                    let mut sb = sibs.clone();
                    sb[l][1][0..8].copy_from_slice(&(l as u64 + 1 + P).to_le_bytes());
                    proofs.push(Proof { label: format!("depth {d}: sibling[{l}][1] replaced by its +p byte alias"), sibs: sb, ..valid.clone() });
                }
                let mut sb = sibs.clone();
                sb[l][s] = if s == 0 { noncanon1 } else { noncanon2 };
                proofs.push(Proof { label: format!("depth {d}: sibling[{l}][{s}] noncanonical"), sibs: sb, ..valid.clone() });
            }
            for np in [0u8, 1, 2, 3, 4, 5, 255] {
                if np != pos[l] {
                    let mut p4 = pos.clone();
                    p4[l] = np;
                    proofs.push(Proof { label: format!("depth {d}: position[{l}] {} -> {np}", pos[l]), pos: p4, ..valid.clone() });
                }
            }
        }
    }

    // (3) noncanonical bytes that a lax verifier would accept: a depth-0 proof whose leaf and
    // root are the SAME noncanonical bytes (nothing is hashed at depth 0, so only an explicit
    // canonicality check can refuse it), and the +p byte alias of a genuine small-limb leaf at
    // depth 0..3 with the root the genuine leaf folds to
    {
        let mut small = limbs_to_bytes(h(&[0xC27, 777]));
        small[0..8].copy_from_slice(&5u64.to_le_bytes());
        let mut alias = small;
        alias[0..8].copy_from_slice(&(5u64 + P).to_le_bytes());
        for (nm, x) in [("limb0 = p", noncanon1), ("limb3 = 2^64-1", noncanon2), ("+p alias of a small limb", alias)] {
            proofs.push(Proof { label: format!("depth 0: leaf = root = noncanonical bytes ({nm})"), sibs: vec![], pos: vec![], leaf: x, root: x });
        }
        for d in 0..=3usize {
            let sibs: Vec<[H; 3]> = (0..d).map(|l| [hs[l % 4], hs[(l + 1) % 4], hs[(l + 2) % 4]]).collect();
            let pos: Vec<u8> = (0..d).map(|l| (l % 4) as u8).collect();
            let root = reference_fold(&sibs, &pos, &small);
            proofs.push(Proof { label: format!("depth {d}: genuine small-limb leaf (control)"), sibs: sibs.clone(), pos: pos.clone(), leaf: small, root });
            proofs.push(Proof { label: format!("depth {d}: +p byte alias of the genuine leaf, genuine root"), sibs: sibs.clone(), pos: pos.clone(), leaf: alias, root });
            if d == 0 {
                proofs.push(Proof { label: "depth 0: canonical leaf, root = its +p byte alias".into(), sibs: vec![], pos: vec![], leaf: small, root: alias });
            }
        }
    }

    // ---- native verifier vs reference ----
    let n_valid = std::sync::atomic::AtomicU64::new(0);
    proofs.par_iter().for_each(|p| {
        rep.eval(1);
        rep.distinct(hash64(&(&p.sibs, &p.pos, &p.leaf, &p.root)));
        let want = reference_verify(&p.sibs, &p.pos, &p.leaf, &p.root);
        if want {
            n_valid.fetch_add(1, std::sync::atomic::Ordering::Relaxed);
        }
        let zp = ZkMerkleProof::new(0, p.sibs.clone(), p.pos.clone(), p.leaf, p.root);
        let r = catch(|| (zp.verify(), zp.verify_with_positions()));
        match r {
            Err(e) => rep.violation(&format!("native-panic:{}", p.label), &format!("native verifier panicked ({}): {e}", p.label), json!({"proof": p.label})),
            Ok((a, b)) => {
                if a != want || b != want {
                    rep.violation(
                        &format!("native-verdict:{}", p.label),
                        &format!("native verifier says verify={a}/verify_with_positions={b}, the reference says {want} for: {}", p.label),
                        json!({"proof": p.label, "positions": p.pos, "depth": p.sibs.len()}),
                    );
                }
            }
        }
    });

    // ---- circuit agreement on every path whose hashes are canonical (felts cannot carry others) ----
    let n_circ = std::sync::atomic::AtomicU64::new(0);
    proofs.par_iter().for_each(|p| {
        if !canon(&p.leaf) || !p.sibs.iter().flatten().all(canon) || !canon(&p.root) {
            return;
        }
        if p.leaf != leaf {
            return; // the circuit derives the leaf hash from leaf data; a foreign leaf hash is not expressible
        }
        if p.pos.len() != p.sibs.len() {
            return; // the circuit has one position target per level: not expressible
        }
        let mut a = base.clone();
        a.v[DEPTH] = p.sibs.len() as u64;
        for l in 0..p.sibs.len().min(16) {
            a.v[POS + l] = p.pos[l] as u64;
            for s in 0..3 {
                a.set4(SIB + (l * 3 + s) * 4, bytes_to_limbs(&p.sibs[l][s]));
            }
        }
        a.set4(ROOT, bytes_to_limbs(&p.root));
        a.recompute(&[ROOT, ACC, TO, NULL]);
        let native = ZkMerkleProof::new(0, p.sibs.clone(), p.pos.clone(), p.leaf, p.root).verify();
        let v = cx.run(&a.to_inputs(&ctx.targets), &[], &[], false).verdict;
        n_circ.fetch_add(1, std::sync::atomic::Ordering::Relaxed);
        rep.eval(1);
        if v.accepted() != native {
            rep.violation(
                &format!("circuit-vs-native:{}", p.label),
                &format!("leaf circuit {} but native verifier says {native} for path: {}", v.short(), p.label),
                json!({"proof": p.label, "positions": p.pos, "depth": p.sibs.len()}),
            );
        }
        let _ = Verdict::accepted;
    });

    // ---- from_unsorted ----
    let alphabet: Vec<(&str, H)> = vec![("a", hs[0]), ("b", hs[1]), ("c", hs[2]), ("pm1", pm1), ("LEAF", leaf), ("NC", noncanon1)];
    let mut n_unsorted = 0u64;
    let mut unsorted_cases: Vec<(String, Vec<[H; 3]>, H)> = Vec::new();
    // every sibling triple over the alphabet at depth 1 and 2 (equal-to-running-hash and duplicates included)
    let mut triples: Vec<[usize; 3]> = Vec::new();
    product_indices(&[alphabet.len(); 3], |ix| triples.push([ix[0], ix[1], ix[2]]));
    for t in &triples {
        let lvl = [alphabet[t[0]].1, alphabet[t[1]].1, alphabet[t[2]].1];
        unsorted_cases.push((format!("d1 [{},{},{}]", alphabet[t[0]].0, alphabet[t[1]].0, alphabet[t[2]].0), vec![lvl], leaf));
    }
    for (i, t) in triples.iter().enumerate() {
        let t2 = triples[(i * 7 + 3) % triples.len()];
        let l1 = [alphabet[t[0]].1, alphabet[t[1]].1, alphabet[t[2]].1];
        let l2 = [alphabet[t2[0]].1, alphabet[t2[1]].1, alphabet[t2[2]].1];
        unsorted_cases.push((format!("d2 #{i}"), vec![l1, l2], leaf));
    }
    for d in 0..=18usize {
        let sibs: Vec<[H; 3]> = (0..d).map(|l| [limbs_to_bytes(h(&[1, l as u64])), limbs_to_bytes(h(&[2, l as u64])), limbs_to_bytes(h(&[3, l as u64]))]).collect();
        unsorted_cases.push((format!("depth {d} random canonical"), sibs.clone(), leaf));
        unsorted_cases.push((format!("depth {d} noncanonical leaf"), sibs, noncanon2));
    }
    for (label, sibs, lf) in &unsorted_cases {
        n_unsorted += 1;
        rep.eval(1);
        rep.distinct(hash64(&(label, 1u8)));
        let want_ok = sibs.len() <= 16 && canon(lf) && sibs.iter().flatten().all(canon);
        let r = catch(|| ZkMerkleProof::from_unsorted(0, sibs.clone(), *lf, [0u8; 32]));
        match r {
            Err(e) => rep.violation(&format!("unsorted-panic:{label}"), &format!("from_unsorted panicked ({label}): {e}"), json!({"case": label})),
            Ok(Err(_)) => {
                if want_ok {
                    rep.violation(&format!("unsorted-refused:{label}"), &format!("from_unsorted refuses a canonical path of depth {} ({label})", sibs.len()), json!({"case": label}));
                }
            }
            Ok(Ok(mut pr)) => {
                if !want_ok {
                    rep.violation(&format!("unsorted-accepted:{label}"), &format!("from_unsorted accepts a path that is too deep or noncanonical ({label})"), json!({"case": label}));
                    continue;
                }
                // positions = first sorted rank of the running hash
                let mut cur = *lf;
                let mut ok = true;
                for (l, lvl) in sibs.iter().enumerate() {
                    let mut all = vec![cur, lvl[0], lvl[1], lvl[2]];
                    all.sort();
                    let rank = all.iter().position(|x| *x == cur).unwrap() as u8;
                    if pr.positions.get(l) != Some(&rank) {
                        ok = false;
                    }
                    cur = limbs_to_bytes(h(&all.iter().flat_map(bytes_to_limbs).collect::<Vec<_>>()));
                }
                if !ok {
                    rep.violation(&format!("unsorted-positions:{label}"), &format!("from_unsorted positions are not the sorted rank of the running hash ({label})"), json!({"case": label, "positions": pr.positions}));
                }
                pr.root = cur;
                if !pr.verify() {
                    rep.violation(&format!("unsorted-verify:{label}"), &format!("proof built by from_unsorted does not verify against the folded root ({label})"), json!({"case": label}));
                }
                // the circuit-side wrapper must agree
                let leafdata = wormhole_circuit::zk_merkle_proof::ZkLeafData::new([0u8; 32], 0, 0, 0, 0, 0, 0);
                let r2 = catch(|| wormhole_circuit::zk_merkle_proof::ZkMerkleProofData::from_unsorted(cur, sibs.clone(), *lf, leafdata, true));
                match r2 {
                    Ok(Ok(d2)) => {
                        if d2.positions != pr.positions {
                            rep.violation(&format!("unsorted-wrapper:{label}"), "ZkMerkleProofData::from_unsorted disagrees with ZkMerkleProof::from_unsorted on positions", json!({"case": label}));
                        }
                    }
                    _ => rep.violation(&format!("unsorted-wrapper-refused:{label}"), "ZkMerkleProofData::from_unsorted refuses/panics on a canonical path", json!({"case": label})),
                }
            }
        }
    }
    let _ = is_canonical_hash;
    rep.sample(json!({"proof": proofs[10].label, "native_expected": reference_verify(&proofs[10].sibs, &proofs[10].pos, &proofs[10].leaf, &proofs[10].root)}));
    rep.sample(json!({"proof": proofs[proofs.len() / 2].label}));
    rep.sample(json!({"from_unsorted": unsorted_cases[17].0}));
    rep.extra("native_proofs", json!(proofs.len()));
    rep.extra("of_which_valid_by_reference", json!(n_valid.load(std::sync::atomic::Ordering::Relaxed)));
    rep.extra("circuit_agreement_runs", json!(n_circ.load(std::sync::atomic::Ordering::Relaxed)));
    rep.extra("from_unsorted_cases", json!(n_unsorted));
    rep.extra("bounds", json!({"position vectors": format!("all over 0..5 for depth <= {dmax_full}"), "depths": "0..17 valid + single corruptions (root, leaf, each sibling byte 0/31 and noncanonical, each position -> 0..5,255, length +-1)", "from_unsorted": "all 216 sibling triples over {a,b,c,p-1 limbs, running hash, noncanonical} at depth 1, 216 pairs at depth 2, depth 0..18"}));
    rep.rule("case = one native proof (siblings, positions, leaf hash, root); oracle = reference fold over the harness's own Poseidon2 (depth<=16, lengths equal, canonical, positions<=3, fold=root); verify and verify_with_positions must equal it; every canonical same-leaf path is also run through the leaf circuit (CX), ACCEPT <=> native verify; from_unsorted Ok <=> depth<=16 and canonical, positions = first sorted rank, result verifies. distinct = distinct proofs");
    rep.assume("non-canonical bytes are outside the circuit's domain (field elements) and are only checked natively; Poseidon2 collision resistance");
    std::process::exit(rep.finish());
}
