//! C14 (batch provers admit exactly what the circuit can prove) and C15 (padding and
//! shuffling are exact and uniform): the real provers driven over every vector of a small
//! alphabet of genuine proofs, and over every scripted answer of the shuffle RNG.
use plonky2::field::types::{Field, PrimeField64};
use plonky2::iop::target::Target;
use plonky2::plonk::circuit_data::{CircuitData, VerifierCircuitData};
use rayon::prelude::*;
use serde_json::json;
use std::collections::HashMap;
use std::sync::Mutex;
use vharness::cx::{Cx, Verdict, C, D, F, P};
use vharness::fixtures::*;
use vharness::mcx::*;
use vharness::privx::dig;
use vharness::wrapref::*;
use wormhole_aggregator::private_batch::circuit::circuit_logic::PrivateBatchCircuitTargets;
use wormhole_aggregator::private_batch::prover::PrivateBatchProver;
use wormhole_aggregator::public_batch::prover::{PublicBatchInputs, PublicBatchProver};
use wormhole_aggregator::verif_hooks;

struct Item {
    name: String,
    proof: Proof,
    valid: bool,
}

fn two31() -> u32 {
    1u32 << 31
}

fn leaf_alphabet(leaf: &VerifierCircuitData<F, C, D>) -> Vec<Item> {
    let (x, y) = (dig(10), dig(11));
    let sp = |name: &'static str, seed: u64, asset: u32, input: u32, fee: u32, out1: u32, out2: u32, e1: D4, e2: D4| LeafSpec { name, seed, asset, input, fee, out1, out2, exit1: e1, exit2: e2 };
    let b1 = prove_block(
        1,
        500,
        &[
            sp("a", 11, 0, 1000, 0, 5, 1, x, y),
            sp("b", 12, 0, u32::MAX, 0, two31(), 0, x, dig(12)),
            sp("c", 13, 0, u32::MAX, 0, two31(), 7, x, dig(13)),
            sp("d", 14, 0, u32::MAX, 0, two31() - 1, 0, x, dig(14)),
            // pays X through its SECOND output: with b the group sum reaches 2^32 across output positions
            sp("k", 18, 0, u32::MAX, 0, 0, two31(), dig(19), x),
            sp("g", 15, 0, 1000, 20, 1, 1, dig(15), dig(16)),
            sp("i", 16, 1, 1000, 0, 3, 3, x, y),
            sp("j", 17, 1, 1000, 0, 4, 0, dig(17), dig(18)),
        ],
    );
    let b2 = prove_block(2, 501, &[sp("h", 21, 0, 1000, 0, 2, 2, x, y)]);
    let mut items: Vec<Item> = b1.into_iter().chain(b2).map(|(s, p)| Item { name: s.name.into(), proof: p, valid: true }).collect();
    let dm = dummy_leaf_proof();
    items.push(Item { name: "dm".into(), proof: dm.clone(), valid: true });
    // a dummy with asset id 1 (the leaf circuit allows it: zero block hash, zero outputs)
    let mut di = wormhole_aggregator::build_dummy_circuit_inputs().unwrap();
    di.public.asset_id = 1;
    items.push(Item { name: "d1".into(), proof: prove_leaf(&di).expect("asset-1 dummy proves"), valid: true });
    // tampered twins of `a`
    let a = items[0].proof.clone();
    let mut t1 = a.clone();
    t1.proof.openings.wires[0].0[0] += F::ONE;
    items.push(Item { name: "t1(opening flipped)".into(), proof: t1, valid: false });
    let mut t2 = a.clone();
    t2.public_inputs[1] += F::ONE;
    items.push(Item { name: "t2(public input flipped)".into(), proof: t2, valid: false });
    let mut t3 = a.clone();
    t3.public_inputs.pop();
    items.push(Item { name: "t3(20 public inputs)".into(), proof: t3, valid: false });
    for it in &items {
        let ok = it.proof.public_inputs.len() == 21 && leaf.verify(it.proof.clone()).is_ok();
        if ok != it.valid {
            machinery_error(&format!("fixture {} validity is {ok}, expected {}", it.name, it.valid));
        }
    }
    items
}

fn policy_private(v: &[&Item], n: usize) -> Result<(), &'static str> {
    if v.is_empty() {
        return Err("empty");
    }
    if v.len() > n {
        return Err("too many");
    }
    if v.iter().any(|i| !i.valid) {
        return Err("invalid proof");
    }
    if v.iter().all(|i| slot_of_proof(&i.proof, Z4).is_dummy()) {
        return Err("all dummy");
    }
    if v.len() < n && v.iter().any(|i| i.proof.public_inputs[0] != F::ZERO) {
        return Err("padding asset != 0");
    }
    Ok(())
}

struct ProverPool {
    zk: bool,
    n: usize,
    leaf: VerifierCircuitData<F, C, D>,
    dummy: Proof,
    free: Mutex<Vec<PrivateBatchProver>>,
    built: std::sync::atomic::AtomicU64,
}
impl ProverPool {
    fn take(&self) -> PrivateBatchProver {
        if let Some(p) = self.free.lock().unwrap().pop() {
            return p;
        }
        self.built.fetch_add(1, std::sync::atomic::Ordering::Relaxed);
        let cfg = plonky2::plonk::circuit_data::CircuitConfig { zero_knowledge: self.zk, ..zk_circuits_common::circuit::wormhole_private_batch_circuit_config() };
        PrivateBatchProver::new(cfg, self.leaf.common.clone(), &self.leaf.verifier_only, self.n, self.dummy.clone()).expect("private batch prover")
    }
    fn give(&self, p: PrivateBatchProver) {
        self.free.lock().unwrap().push(p);
    }
}

fn committed_slots(p: &PrivateBatchProver, t: &PrivateBatchCircuitTargets) -> Vec<Slot> {
    let pw = &p.verif_partial_witness().target_values;
    let g = |tg: &Target| pw.get(tg).map(|x| x.to_canonical_u64()).unwrap_or(u64::MAX);
    t.leaf_proofs
        .iter()
        .zip(&t.dummy_nullifier_pre_images)
        .map(|(lp, pre)| {
            let v: Vec<u64> = lp.public_inputs.iter().map(g).collect();
            Slot { asset: v[0], a1: v[1], a2: v[2], fee: v[3], nullifier: [v[4], v[5], v[6], v[7]], e1: [v[8], v[9], v[10], v[11]], e2: [v[12], v[13], v[14], v[15]], bh: [v[16], v[17], v[18], v[19]], number: v[20], pre: [g(&pre[0]), g(&pre[1]), g(&pre[2]), g(&pre[3])] }
        })
        .collect()
}

fn main() {
    quiet_panics();
    let tier = tier_from_args();
    let thorough = tier == "thorough";
    let prop = arg_value("--property").unwrap_or_else(|| "C14".into());
    let code = match prop.as_str() {
        "C14" => c14(&tier, thorough),
        "C15" => c15(&tier, thorough),
        _ => machinery_error("provers: unknown property"),
    };
    std::process::exit(code);
}

fn c14(tier: &str, thorough: bool) -> i32 {
    let rep = Report::new("C14", "exploration", tier);
    let leaf = leaf_verifier();
    let items = leaf_alphabet(&leaf);
    let dummy = items.iter().find(|i| i.name == "dm").unwrap().proof.clone();
    let idx = |n: &str| items.iter().position(|i| i.name.starts_with(n)).unwrap();
    let ns: Vec<usize> = if thorough { vec![2, 3] } else { vec![2] };
    let mut plan = serde_json::Map::new();
    for n in ns {
        let w = build_priv_wrapper(n, &leaf.common);
        let wcx = Cx::new(&w.data);
        let (full, ft) = private_batch_circuit(n, &leaf);
        let fcx = Cx::new(&full);
        // commit's admission logic does not depend on the circuit config: most vectors burn a
        // prover (a failing commit consumes it), so they use the same circuit without row
        // blinding (4.5x faster to build); every 7th vector uses the production config and its
        // committed partial witness is evaluated on the production recursive circuit.
        let pool = ProverPool { zk: false, n, leaf: leaf.clone(), dummy: dummy.clone(), free: Mutex::new(vec![]), built: 0.into() };
        let prod = ProverPool { zk: true, n, leaf: leaf.clone(), dummy: dummy.clone(), free: Mutex::new(vec![]), built: 0.into() };
        // vectors
        let alpha: Vec<usize> = if thorough { (0..items.len()).collect() } else { ["a", "b", "c", "d", "k", "g", "h", "i", "dm", "d1", "t2"].iter().map(|s| idx(s)).collect() };
        let over: Vec<usize> = ["a", "b", "dm"].iter().map(|s| idx(s)).collect();
        let mut vectors: Vec<Vec<usize>> = vec![vec![]];
        for len in 1..=n {
            product_indices(&vec![alpha.len(); len], |ix| vectors.push(ix.iter().map(|&i| alpha[i]).collect()));
        }
        product_indices(&vec![over.len(); n + 1], |ix| vectors.push(ix.iter().map(|&i| over[i]).collect()));
        let n_ok = std::sync::atomic::AtomicU64::new(0);
        let n_full = std::sync::atomic::AtomicU64::new(0);
        let n_proved = std::sync::atomic::AtomicU64::new(0);
        vectors.par_iter().enumerate().for_each(|(vi, v)| {
            rep.eval(1);
            rep.distinct(hash64(&(n, v)));
            let its: Vec<&Item> = v.iter().map(|&i| &items[i]).collect();
            let names: Vec<&str> = its.iter().map(|i| i.name.as_str()).collect();
            let pol = policy_private(&its, n);
            let case = json!({"layer": "private", "n": n, "vector": names, "policy": pol.err().unwrap_or("ok")});
            let use_prod = vi % 7 == 0;
            let prover = if use_prod { prod.take() } else { pool.take() };
            let r = catch(|| prover.commit(its.iter().map(|i| i.proof.clone()).collect()));
            match r {
                Err(p) => rep.violation(&format!("priv-panic:{n}:{names:?}"), &format!("PrivateBatchProver::commit panicked on {names:?}: {p}"), case),
                Ok(Err(e)) => {
                    if pol.is_ok() {
                        // (iii): rejected for another reason => the padded batch must be unprovable
                        let mut slots: Vec<Slot> = its.iter().enumerate().map(|(k, i)| slot_of_proof(&i.proof, dig(4000 + k as u64))).collect();
                        while slots.len() < n {
                            slots.push(slot_of_proof(&dummy, dig(4100 + slots.len() as u64)));
                        }
                        for perm in permutations(n) {
                            let arr: Vec<Slot> = perm.iter().map(|&k| slots[k].clone()).collect();
                            if wcx.run(&w.inputs(&arr), &[], &[], false).verdict.accepted() {
                                let mut c = case.clone();
                                c["commit_error"] = json!(e.to_string());
                                c["provable_arrangement"] = json!(perm);
                                rep.violation(&format!("priv-overreject:{n}:{names:?}"), &format!("commit rejects {names:?} ({e}) although the vector is policy-conformant and the padded batch satisfies the circuit"), c);
                                break;
                            }
                        }
                    }
                }
                Ok(Ok(pr)) => {
                    n_ok.fetch_add(1, std::sync::atomic::Ordering::Relaxed);
                    if let Err(why) = pol {
                        rep.violation(&format!("priv-policy:{n}:{names:?}"), &format!("commit accepts {names:?} although the documented policy forbids it: {why}"), case.clone());
                    }
                    // (ii) the committed witness satisfies the circuit
                    let slots = committed_slots(&pr, &ft);
                    let wv = wcx.run(&w.inputs(&slots), &[], &[], false).verdict;
                    let mut full_checked = false;
                    if use_prod {
                        // the real recursive circuit on the committed partial witness itself
                        let inputs: Vec<(Target, F)> = pr.verif_partial_witness().target_values.iter().map(|(t, v)| (*t, *v)).collect();
                        let fv = fcx.run(&inputs, &[], &[], false).verdict;
                        n_full.fetch_add(1, std::sync::atomic::Ordering::Relaxed);
                        full_checked = true;
                        if fv.accepted() != wv.accepted() {
                            machinery_error(&format!("wrapper-only circuit and full recursive circuit disagree on committed batch {names:?}: {} vs {}", wv.short(), fv.short()));
                        }
                    }
                    if !wv.accepted() {
                        let key = format!("priv-unprovable:{n}:{}", { let mut s: Vec<&str> = names.clone(); s.sort(); s.join("+") });
                        let mut c = case.clone();
                        c["committed_slots"] = json!(slots.iter().map(|s| s.pis()).collect::<Vec<_>>());
                        c["circuit"] = json!(wv.short());
                        c["spec"] = json!(private_accepts(&slots).err());
                        c["full_recursive_circuit_checked"] = json!(full_checked);
                        rep.violation(&key, &format!("commit accepts {names:?} but the committed witness does not satisfy the circuit ({}): prove() must fail", private_accepts(&slots).err().unwrap_or("?")), c);
                        // the prover is not reusable after a failed witness; drop it
                        return;
                    }
                    if use_prod && vi % 21 == 0 {
                        // and really prove a few
                        n_proved.fetch_add(1, std::sync::atomic::Ordering::Relaxed);
                        match pr.prove() {
                            Ok(_) => {}
                            Err(e) => rep.violation(&format!("priv-prove:{n}:{names:?}"), &format!("commit accepted {names:?} and the circuit model accepts, yet prove() failed: {e}"), case.clone()),
                        }
                        return;
                    }
                    let mut pr = pr;
                    pr.verif_reset(ft.clone());
                    if use_prod {
                        prod.give(pr);
                    } else {
                        pool.give(pr);
                    }
                }
            }
        });
        plan.insert(format!("private N={n}"), json!({"vectors": vectors.len(), "commit_ok": n_ok, "full_recursive_cx_runs": n_full, "real_proves": n_proved, "provers_built": pool.built, "production_config_provers_built": prod.built, "alphabet": alpha.iter().map(|&i| items[i].name.clone()).collect::<Vec<_>>()}));
        rep.sample(json!({"layer": "private", "n": n, "vector": vectors[vectors.len() / 3].iter().map(|&i| items[i].name.clone()).collect::<Vec<_>>()}));
    }

    // ---------------- public layer (M=2 over N=1 private batches) ----------------
    {
        let (pb, pbt) = private_batch_circuit(1, &leaf);
        let pbv = pb.verifier_data();
        let mk = |name: &str| -> Proof { prove_private_raw(&pb, &pbt, &[items[idx(name)].proof.clone()], &[dig(77)]).unwrap_or_else(|e| panic!("inner {name}: {e}")) };
        let names = ["a", "b", "h", "i", "g", "dm"];
        let mut inners: Vec<(String, Proof, bool)> = names.par_iter().map(|nm| (format!("I{nm}"), mk(nm), true)).collect();
        let mut t = inners[0].1.clone();
        t.public_inputs[9] += F::ONE;
        inners.push(("It(public input flipped)".into(), t, false));
        let mut s = inners[0].1.clone();
        s.public_inputs.pop();
        inners.push(("Is(28 public inputs)".into(), s, false));
        let dummy_inner = inners[5].1.clone();
        let n_ok = std::sync::atomic::AtomicU64::new(0);
        let mut n_vectors = 0usize;
        // M=2 over the whole inner alphabet; M=3 over {a, b, h (other block), g (other fee), dummy}:
        // a supplied all-dummy inner between two conflicting real ones needs three slots
        for (m, sel) in [(2usize, (0..inners.len()).collect::<Vec<usize>>()), (3usize, vec![0, 1, 2, 4, 5])] {
        let w = build_pub_wrapper(m, 1, &leaf.common);
        let wcx = Cx::new(&w.data);
        let mut vectors: Vec<Vec<usize>> = vec![vec![]];
        for len in 1..=m + 1 {
            product_indices(&vec![sel.len(); len], |ix| vectors.push(ix.iter().map(|&i| sel[i]).collect()));
        }
        n_vectors += vectors.len();
        vectors.par_iter().for_each(|v| {
            rep.eval(1);
            rep.distinct(hash64(&("pub", m, v)));
            let its: Vec<&(String, Proof, bool)> = v.iter().map(|&i| &inners[i]).collect();
            let nm: Vec<&str> = its.iter().map(|i| i.0.as_str()).collect();
            let pol: Result<(), &str> = if its.is_empty() {
                Err("empty")
            } else if its.len() > m {
                Err("too many")
            } else if its.iter().any(|i| !i.2) {
                Err("invalid proof")
            } else if its.iter().all(|i| i.1.public_inputs[3..7].iter().all(|x| x.is_zero())) {
                Err("all dummy")
            } else {
                Ok(())
            };
            let case = json!({"layer": "public", "m": m, "vector": nm, "policy": pol.err().unwrap_or("ok")});
            let proofs: Vec<Proof> = its.iter().map(|i| i.1.clone()).collect();
            let r = catch(|| wormhole_aggregator::public_batch::prover::lib::verif_preflight(&proofs, m, &pbv));
            let padded = || -> Vec<Inner> {
                let mut x: Vec<Inner> = proofs.iter().map(|p| Inner { pis: p.public_inputs.iter().map(|f| f.to_canonical_u64()).collect() }).collect();
                while x.len() < m {
                    x.push(Inner { pis: dummy_inner.public_inputs.iter().map(|f| f.to_canonical_u64()).collect() });
                }
                x
            };
            match r {
                Err(p) => rep.violation(&format!("pub-panic:{m}:{nm:?}"), &format!("public-batch preflight panicked on {nm:?}: {p}"), case),
                Ok(Ok(())) => {
                    n_ok.fetch_add(1, std::sync::atomic::Ordering::Relaxed);
                    if let Err(why) = pol {
                        rep.violation(&format!("pub-policy:{m}:{nm:?}"), &format!("public-batch admission accepts {nm:?} although the documented policy forbids it: {why}"), case.clone());
                        return;
                    }
                    if !wcx.run(&w.inputs(dig(5), &padded()), &[], &[], false).verdict.accepted() {
                        rep.violation(&format!("pub-unprovable:{m}:{nm:?}"), &format!("public-batch admission accepts {nm:?} but the padded batch does not satisfy the circuit"), case);
                    }
                }
                Ok(Err(e)) => {
                    if pol.is_ok() && wcx.run(&w.inputs(dig(5), &padded()), &[], &[], false).verdict.accepted() {
                        rep.violation(&format!("pub-overreject:{m}:{nm:?}"), &format!("public-batch admission rejects {nm:?} ({e}) although policy-conformant and provable"), case);
                    }
                }
            }
        });
        }
        let m = 2usize;
        // commit == preflight + pad + fill: a few real commits, checked by the full circuit
        let (pubc, pubt) = {
            let c = wormhole_aggregator::public_batch::circuit::circuit_logic::PublicBatchCircuit::new(zk_circuits_common::circuit::wormhole_public_batch_circuit_config(), pbv.common.clone(), &pbv.verifier_only, m, 1).unwrap();
            let t = c.targets();
            (c.build_circuit(), t)
        };
        let pcx = Cx::new(&pubc);
        let mut real_commits = 0;
        for v in [vec![0usize], vec![0, 1], vec![1, 0], vec![5, 0], vec![0, 2], vec![3, 3], vec![5, 5]] {
            let proofs: Vec<Proof> = v.iter().map(|&i| inners[i].1.clone()).collect();
            let pre = wormhole_aggregator::public_batch::prover::lib::verif_preflight(&proofs, m, &pbv).is_ok();
            let prover = PublicBatchProver::new(zk_circuits_common::circuit::wormhole_public_batch_circuit_config(), pbv.common.clone(), &pbv.verifier_only, m, 1, dummy_inner.clone()).expect("public prover");
            let r = prover.commit(PublicBatchInputs { proofs, aggregator_address: zk_circuits_common::utils::BytesDigest::try_from([7u8; 32]).unwrap() });
            real_commits += 1;
            rep.eval(1);
            let nm: Vec<&str> = v.iter().map(|&i| inners[i].0.as_str()).collect();
            if r.is_ok() != pre {
                rep.violation(&format!("pub-commit-vs-preflight:{nm:?}"), "PublicBatchProver::commit and its admission preflight disagree", json!({"vector": nm}));
            }
            if let Ok(pr) = r {
                let inputs: Vec<(Target, F)> = pr.verif_partial_witness().target_values.iter().map(|(t, v)| (*t, *v)).collect();
                let fv = pcx.run(&inputs, &[], &[], false).verdict;
                if !fv.accepted() {
                    rep.violation(&format!("pub-commit-unprovable:{nm:?}"), &format!("PublicBatchProver::commit accepted {nm:?} but the committed witness does not satisfy the real recursive circuit: {}", fv.short()), json!({"vector": nm}));
                }
                let _ = &pubt;
            }
        }
        plan.insert("public M=2,N=1".into(), json!({"vectors (M=2 over 8 inners, M=3 over 5 inners)": n_vectors, "admitted": n_ok, "real_commits_checked_on_full_circuit": real_commits, "alphabet": inners.iter().map(|i| i.0.clone()).collect::<Vec<_>>()}));
    }
    rep.extra("plan", json!(plan));
    rep.rule("case = vector (length 0..N+1) over an alphabet of genuine leaf proofs (two blocks, two assets, two fees, shared exit accounts with group sums 2^32-1 and 2^32, duplicates, the dummy template, an asset-1 dummy, three tampered proofs) given to the real PrivateBatchProver::commit; oracle: Ok => documented policy holds and the committed witness (read back through hook H3) satisfies the wrapper constraints (and, on a subset, the full recursive circuit and a real prove()); Err with a policy-conformant vector => no arrangement of the padded batch satisfies the circuit. Same for the public layer through the admission preflight (hook H6) plus real commits. distinct = distinct vectors");
    rep.assume("decisions are compared as Ok/Err plus circuit verdicts, not by error text; the wrapper-only circuit stands for the recursive one except on the sampled subset where both are run (they must agree, else machinery error)");
    rep.finish()
}

// ---------------------------------------------------------------------------------------
// C15
// ---------------------------------------------------------------------------------------

/// The u32 word that makes rand 0.8's `gen_range(0..range)` return `k` (Lemire widening
/// multiply: hi = floor(v*range / 2^32) = k, lo < range <= zone).
fn word_for(k: u32, range: u32) -> u32 {
    (((k as u64) << 32).div_ceil(range as u64)) as u32
}
/// A word in the rejection zone of `range` (lo > zone), if the zone is not everything.
fn reject_word(range: u32) -> Option<u32> {
    let zone = (range << range.leading_zeros()).wrapping_sub(1);
    (0..=u32::MAX / 4096).map(|i| i * 4096 + 1).find(|&v| ((v as u64 * range as u64) & 0xFFFF_FFFF) as u32 > zone)
}

fn canon_block(tag: u64) -> [u8; 32] {
    vharness::leafnative::limbs_to_bytes(dig(9000 + tag))
}
fn noncanon_block(tag: u64) -> [u8; 32] {
    let mut b = canon_block(tag);
    b[8..16].copy_from_slice(&(P + tag).to_le_bytes());
    b
}

fn c15(tier: &str, thorough: bool) -> i32 {
    let rep = Report::new("C15", "model_checking", tier);
    let leaf = leaf_verifier();
    let sp = |name: &'static str, seed: u64| LeafSpec { name, seed, asset: 0, input: 1000, fee: 0, out1: 5, out2: 1, exit1: dig(10), exit2: dig(11) };
    let reals: Vec<Proof> = prove_block(1, 500, &[sp("r0", 31), sp("r1", 32), sp("r2", 33), sp("r3", 34), sp("r4", 35)]).into_iter().map(|x| x.1).collect();
    let dummy = dummy_leaf_proof();
    let ident = |s: &Slot| -> i64 {
        if s.is_dummy() {
            return -1;
        }
        reals.iter().position(|r| slot_of_proof(r, Z4).nullifier == s.nullifier).map(|x| x as i64).unwrap_or(-2)
    };
    let ns: Vec<usize> = if thorough { vec![2, 3, 4, 5] } else { vec![2, 3, 4] };
    // Every script is followed by SLACK canonical blocks that a conforming commit never touches,
    // so a commit that draws more (or fewer) random bytes than rand 0.8's Fisher-Yates plus one
    // 32-byte block per slot is observed (anomaly) instead of crashing the harness. Anomalies
    // alone are a machinery matter; together with a failed oracle they are part of a violation.
    const SLACK: usize = 8;
    let slack: Vec<u8> = (0..SLACK).flat_map(|i| canon_block(7000 + i as u64)).collect();
    let mut anomalies: Vec<String> = Vec::new();
    let mut scripts_total = 0u64;
    let mut edges = 0u64;
    let mut plan = serde_json::Map::new();
    for n in ns {
        let (_full, ft) = private_batch_circuit(n, &leaf);
        let mut prover = PrivateBatchProver::new(zk_circuits_common::circuit::wormhole_private_batch_circuit_config(), leaf.common.clone(), &leaf.verifier_only, n, dummy.clone()).expect("prover");
        for k in 1..=n {
            let supplied: Vec<Proof> = reals[..k].to_vec();
            // ---- every Fisher-Yates answer script ----
            let ranges: Vec<u32> = (2..=n as u32).rev().collect(); // draws for i = n-1 .. 1 have range i+1
            let mut idx_scripts: Vec<Vec<u32>> = Vec::new();
            product_indices(&ranges.iter().map(|&r| r as usize).collect::<Vec<_>>(), |ix| idx_scripts.push(ix.iter().map(|&x| x as u32).collect()));
            if n == 1 {
                idx_scripts = vec![vec![]];
            }
            let mut arrangements: HashMap<Vec<i64>, u64> = HashMap::new();
            for (si, script) in idx_scripts.iter().enumerate() {
                // variants: plain; and (for ranges with a rejection zone) one rejected draw first
                let mut variants: Vec<Vec<u32>> = vec![script.iter().zip(&ranges).map(|(&kk, &r)| word_for(kk, r)).collect()];
                if si % 3 == 0 {
                    if let Some((pos, rw)) = ranges.iter().enumerate().find_map(|(i, &r)| reject_word(r).map(|w| (i, w))) {
                        let mut v2 = variants[0].clone();
                        v2.insert(pos, rw);
                        variants.push(v2);
                    }
                }
                let mut first: Option<Vec<i64>> = None;
                for words in variants {
                    let mut bytes: Vec<u8> = words.iter().flat_map(|w| w.to_le_bytes()).collect();
                    for s in 0..n {
                        bytes.extend_from_slice(&canon_block((si * 10 + s) as u64));
                    }
                    bytes.extend_from_slice(&slack);
                    verif_hooks::set_rng_script(Some(bytes));
                    let r = catch(|| prover.commit(supplied.clone()));
                    let remaining = verif_hooks::rng_script_remaining();
                    verif_hooks::set_rng_script(None);
                    scripts_total += 1;
                    edges += (words.len() + n) as u64;
                    match r {
                        Err(p) => {
                            if p.contains("rng script exhausted") {
                                machinery_error("C15: the commit consumed more random bytes than rand 0.8's Fisher-Yates + one 32-byte block per slot; the scripted-RNG harness needs updating");
                            }
                            rep.violation(&format!("c15-panic:{n}:{k}:{script:?}"), &format!("commit panicked under a scripted RNG: {p}"), json!({"n": n, "k": k, "script": script}));
                            return rep.finish();
                        }
                        Ok(Err(e)) => {
                            rep.violation(&format!("c15-err:{n}:{k}"), &format!("commit of {k} compatible real proofs (N={n}) failed: {e}"), json!({"n": n, "k": k}));
                            return rep.finish();
                        }
                        Ok(Ok(p2)) => {
                            prover = p2;
                            if remaining != Some(slack.len()) {
                                anomalies.push(format!("N={n},k={k},script {script:?}: {:?} scripted bytes remain, expected {}", remaining, slack.len()));
                            }
                            let slots = committed_slots(&prover, &ft);
                            let arr: Vec<i64> = slots.iter().map(ident).collect();
                            // exactly the k supplied proofs plus N-k templates
                            let mut ms = arr.clone();
                            ms.sort();
                            let mut want: Vec<i64> = (0..k as i64).collect();
                            want.extend(std::iter::repeat(-1).take(n - k));
                            want.sort();
                            if ms != want {
                                rep.violation(&format!("c15-multiset:{n}:{k}:{script:?}"), &format!("committed batch (N={n}, k={k}) is not the supplied proofs plus N-k templates: {arr:?}"), json!({"n": n, "k": k, "script": script, "slots (index of supplied proof, -1 = template, -2 = foreign)": arr}));
                            }
                            // padded slots are exact copies of the template
                            for s in &slots {
                                if s.is_dummy() && s.pis() != slot_of_proof(&dummy, Z4).pis() {
                                    rep.violation(&format!("c15-template:{n}:{k}"), "a padded slot is not a copy of the validated dummy template", json!({"n": n, "k": k, "slot": s.pis()}));
                                }
                            }
                            // preimages: slot i gets the i-th accepted block, fresh and canonical
                            for (s, sl) in slots.iter().enumerate() {
                                let want = vharness::leafnative::bytes_to_limbs(&canon_block((si * 10 + s) as u64));
                                if sl.pre != want {
                                    rep.violation(&format!("c15-preimage:{n}:{k}:{s}"), &format!("slot {s} does not carry its own fresh random preimage"), json!({"n": n, "k": k, "slot": s, "committed": sl.pre, "expected": want}));
                                }
                            }
                            match &first {
                                None => first = Some(arr.clone()),
                                Some(f0) => {
                                    if f0 != &arr {
                                        rep.violation(&format!("c15-reject-path:{n}:{k}:{script:?}"), "a rejected random draw changes the resulting permutation", json!({"n": n, "k": k, "script": script}));
                                    }
                                }
                            }
                            prover.verif_reset(ft.clone());
                        }
                    }
                }
                *arrangements.entry(first.unwrap()).or_insert(0) += 1;
            }
            // bijection onto S_N: N!/(N-k)! distinct arrangements, each hit (N-k)! times
            let fact = |x: usize| -> u64 { (1..=x as u64).product() };
            let want_distinct = fact(n) / fact(n - k);
            let want_mult = fact(n - k);
            if arrangements.len() as u64 != want_distinct || arrangements.values().any(|&c| c != want_mult) {
                let mut hist: Vec<(Vec<i64>, u64)> = arrangements.iter().map(|(a, c)| (a.clone(), *c)).collect();
                hist.sort();
                rep.violation(&format!("c15-uniform:{n}:{k}"), &format!("the map from RNG answers to slot orders (N={n}, k={k}) is not a bijection onto the permutations: {} distinct arrangements (expected {want_distinct}), multiplicities {:?} (expected all {want_mult})", arrangements.len(), hist.iter().map(|x| x.1).collect::<Vec<_>>()), json!({"n": n, "k": k, "histogram": hist}));
            }
            rep.distinct_many(arrangements.keys().map(|a| hash64(&(n, k, a))));
            plan.insert(format!("N={n},k={k}"), json!({"index_scripts": idx_scripts.len(), "distinct_arrangements": arrangements.len()}));
        }
        // ---- preimage blocks: every pattern of <=2 non-canonical blocks before each slot's block ----
        if n <= 3 {
            let k = 1;
            let mut pats: Vec<Vec<usize>> = Vec::new();
            product_indices(&vec![3usize; n], |ix| pats.push(ix.to_vec()));
            for pat in pats {
                let words: Vec<u32> = (2..=n as u32).rev().map(|r| word_for(0, r)).collect();
                let mut bytes: Vec<u8> = words.iter().flat_map(|w| w.to_le_bytes()).collect();
                let mut expect: Vec<[u64; 4]> = Vec::new();
                let mut tag = 0u64;
                for (s, &rej) in pat.iter().enumerate() {
                    for _ in 0..rej {
                        bytes.extend_from_slice(&noncanon_block(tag));
                        tag += 1;
                    }
                    let b = canon_block(500 + s as u64 + 10 * tag);
                    bytes.extend_from_slice(&b);
                    expect.push(vharness::leafnative::bytes_to_limbs(&b));
                }
                bytes.extend_from_slice(&slack);
                verif_hooks::set_rng_script(Some(bytes));
                let r = catch(|| prover.commit(reals[..k].to_vec()));
                let remaining = verif_hooks::rng_script_remaining();
                verif_hooks::set_rng_script(None);
                scripts_total += 1;
                edges += (n + pat.iter().sum::<usize>()) as u64;
                match r {
                    Ok(Ok(p2)) => {
                        prover = p2;
                        if remaining != Some(slack.len()) {
                            anomalies.push(format!("N={n}, preimage rejections {pat:?}: {:?} scripted bytes remain, expected {}", remaining, slack.len()));
                        }
                        let slots = committed_slots(&prover, &ft);
                        for (s, sl) in slots.iter().enumerate() {
                            if sl.pre != expect[s] || sl.pre.iter().any(|&l| l >= P) {
                                rep.violation(&format!("c15-preimage-reject:{n}:{pat:?}:{s}"), &format!("slot {s} preimage is not the first canonical block drawn for it (rejections per slot {pat:?})"), json!({"n": n, "rejections": pat, "committed": sl.pre, "expected": expect[s]}));
                            }
                        }
                        prover.verif_reset(ft.clone());
                    }
                    Ok(Err(e)) => {
                        rep.violation(&format!("c15-preimage-err:{n}:{pat:?}"), &format!("commit failed when the RNG produced non-canonical preimage blocks: {e}"), json!({"n": n, "rejections": pat}));
                        prover = PrivateBatchProver::new(zk_circuits_common::circuit::wormhole_private_batch_circuit_config(), leaf.common.clone(), &leaf.verifier_only, n, dummy.clone()).expect("prover");
                    }
                    Err(p) => {
                        if p.contains("rng script exhausted") {
                            machinery_error("C15: preimage path consumed more blocks than scripted");
                        }
                        rep.violation(&format!("c15-preimage-panic:{n}:{pat:?}"), &format!("commit panicked on non-canonical preimage blocks: {p}"), json!({"n": n, "rejections": pat}));
                        return rep.finish();
                    }
                }
            }
        }
    }
    // ---- unscripted: two commits draw different preimages (fresh randomness is really used) ----
    {
        let n = 2;
        let (_f, ft) = private_batch_circuit(n, &leaf);
        let mut prover = PrivateBatchProver::new(zk_circuits_common::circuit::wormhole_private_batch_circuit_config(), leaf.common.clone(), &leaf.verifier_only, n, dummy.clone()).expect("prover");
        let mut seen: Vec<[u64; 4]> = Vec::new();
        for _ in 0..3 {
            prover = prover.commit(reals[..1].to_vec()).expect("commit");
            for s in committed_slots(&prover, &ft) {
                if seen.contains(&s.pre) || s.pre.iter().any(|&l| l >= P) {
                    rep.violation("c15-fresh", "unscripted commits reuse a dummy preimage or commit a non-canonical one", json!({"preimage": s.pre}));
                }
                seen.push(s.pre);
            }
            prover.verif_reset(ft.clone());
        }
    }
    // ---- public layer: supplied order followed by templates ----
    {
        let (pb, pbt) = private_batch_circuit(1, &leaf);
        let pbv = pb.verifier_data();
        let inners: Vec<Proof> = (0..3).into_par_iter().map(|i| prove_private_raw(&pb, &pbt, &[reals[i].clone()], &[dig(60 + i as u64)]).unwrap()).collect();
        let dummy_inner = prove_private_raw(&pb, &pbt, &[dummy.clone()], &[dig(70)]).unwrap();
        // a supplied all-dummy inner (index 3): distinguishable from the padding template by its
        // replacement nullifier; it must stay where the caller put it
        let mut inners = inners;
        inners.push(prove_private_raw(&pb, &pbt, &[dummy.clone()], &[dig(71)]).unwrap());
        let key = |p: &Proof| -> Vec<u64> { p.public_inputs.iter().map(|x| x.to_canonical_u64()).collect() };
        for m in [2usize, 3] {
            let c = wormhole_aggregator::public_batch::circuit::circuit_logic::PublicBatchCircuit::new(zk_circuits_common::circuit::wormhole_public_batch_circuit_config(), pbv.common.clone(), &pbv.verifier_only, m, 1).unwrap();
            let pt = c.targets();
            drop(c);
            let mut orders: Vec<Vec<usize>> = Vec::new();
            for len in 1..=m {
                product_indices(&vec![4usize; len], |ix| {
                    let mut d = ix.to_vec();
                    d.sort();
                    d.dedup();
                    // (a vector of dummy inners only is refused by design)
                    if d.len() == ix.len() && ix.iter().any(|&i| i < 3) {
                        orders.push(ix.to_vec())
                    }
                });
            }
            let mut prover = PublicBatchProver::new(zk_circuits_common::circuit::wormhole_public_batch_circuit_config(), pbv.common.clone(), &pbv.verifier_only, m, 1, dummy_inner.clone()).expect("public prover");
            for ord in orders {
                scripts_total += 1;
                edges += ord.len() as u64;
                let proofs: Vec<Proof> = ord.iter().map(|&i| inners[i].clone()).collect();
                prover = match prover.commit(PublicBatchInputs { proofs: proofs.clone(), aggregator_address: zk_circuits_common::utils::BytesDigest::try_from([9u8; 32]).unwrap() }) {
                    Ok(p) => p,
                    Err(e) => {
                        rep.violation(&format!("c15-pub-err:{m}:{ord:?}"), &format!("public commit of compatible inners failed: {e}"), json!({"m": m, "order": ord}));
                        return rep.finish();
                    }
                };
                let pw = &prover.verif_partial_witness().target_values;
                for (s, ptg) in pt.private_batch_proofs.iter().enumerate() {
                    let got: Vec<u64> = ptg.public_inputs.iter().map(|t| pw.get(t).map(|x| x.to_canonical_u64()).unwrap_or(u64::MAX)).collect();
                    let want = if s < ord.len() { key(&inners[ord[s]]) } else { key(&dummy_inner) };
                    if got != want {
                        rep.violation(&format!("c15-pub-order:{m}:{ord:?}:{s}"), &format!("public batch slot {s} is not the supplied inner in the given order followed by templates"), json!({"m": m, "order": ord, "slot": s}));
                    }
                }
                rep.distinct(hash64(&("pub", m, &ord)));
                prover.verif_reset(pt.clone());
            }
        }
    }
    if !anomalies.is_empty() {
        rep.extra("rng_consumption_anomalies", json!(anomalies.iter().take(5).collect::<Vec<_>>()));
        if rep.n_violations() == 0 {
            machinery_error(&format!("C15: the commit no longer consumes random bytes like rand 0.8's Fisher-Yates + one 32-byte block per slot ({}), but every observable oracle held: the scripted-RNG harness needs updating", anomalies[0]));
        }
    }
    rep.eval(scripts_total);
    rep.states.store(scripts_total, std::sync::atomic::Ordering::Relaxed);
    rep.transitions.store(edges.max(1), std::sync::atomic::Ordering::Relaxed);
    rep.traces.store(scripts_total, std::sync::atomic::Ordering::Relaxed);
    rep.extra("plan", json!(plan));
    rep.sample(json!({"n": 3, "k": 2, "script (Fisher-Yates index answers for i=2,1)": [2, 0], "words": [word_for(2, 3), word_for(0, 2)]}));
    rep.rule("choice tree over the environment answers of the shuffle RNG (hook H4): every sequence of Fisher-Yates index answers (N! scripts per (N,k), plus a rejected draw on ranges that have a rejection zone) and every pattern of <=2 non-canonical preimage blocks per slot; each script is executed by the real PrivateBatchProver::commit and the committed slots are read back (hook H3); oracle: multiset = supplied + (N-k) exact template copies, script->arrangement is a bijection onto S_N (N!/(N-k)! arrangements each hit (N-k)! times), slot i gets the i-th canonical block, nothing is left over; public prover: supplied order then templates for every ordered selection of three real inners and one supplied all-dummy inner (at least one real). distinct = distinct arrangements");
    rep.assume("uniformity of rand's ThreadRng / gen_range themselves; the scripted words assume rand 0.8.6's Lemire sampling (a changed consumption pattern is reported as a machinery error, not as a violation)");
    rep.finish()
}

#[allow(dead_code)]
fn unused(_: &CircuitData<F, C, D>) {}
