//! C34: the Lean spec type-checks (theorem half, by `lake build` + an axiom audit of every
//! theorem) and the circuit's grouped exit slots, first-real reference, totals and nullifier
//! ordering coincide with the spec's executable definitions evaluated by Lean itself on every
//! explored private-batch case (model = the Lean definitions; every exported trace validated).
use serde_json::json;
use std::process::Command;
use vharness::cx::Cx;
use vharness::leafx::LeafCtx;
use vharness::mcx::*;
use vharness::privx::*;
use vharness::wrapref::*;

fn sh(cmd: &mut Command) -> (bool, String) {
    match cmd.output() {
        Ok(o) => (o.status.success(), format!("{}{}", String::from_utf8_lossy(&o.stdout), String::from_utf8_lossy(&o.stderr))),
        Err(e) => (false, format!("spawn failed: {e}")),
    }
}

fn main() {
    quiet_panics();
    let tier = tier_from_args();
    let thorough = tier == "thorough";
    let rep = Report::new("C34", "model_checking", &tier);
    let scratch = std::env::temp_dir().join(format!("vharness-lean-{}", std::process::id()));
    let _ = std::fs::remove_dir_all(&scratch);
    let code = run(&rep, &scratch, thorough);
    let _ = std::fs::remove_dir_all(&scratch);
    std::process::exit(code);
}

fn run(rep: &Report, scratch: &std::path::Path, thorough: bool) -> i32 {
    std::fs::create_dir_all(scratch).unwrap();
    let formal = scratch.join("formal");
    let (ok, out) = sh(Command::new("cp").arg("-r").arg("/repo/formal").arg(&formal));
    if !ok {
        machinery_error(&format!("cannot copy /repo/formal: {out}"));
    }
    let _ = std::fs::remove_dir_all(formal.join(".lake"));
    for f in ["Driver.lean", "Axioms.lean"] {
        std::fs::copy(format!("/verif/lean/{f}"), formal.join(f)).unwrap_or_else(|e| machinery_error(&format!("copy {f}: {e}")));
    }
    // ---------------- theorem half ----------------
    let (ok, log) = sh(Command::new("lake").arg("build").current_dir(&formal));
    rep.eval(1);
    if !ok {
        let tail: String = log.lines().filter(|l| l.contains("error")).take(8).collect::<Vec<_>>().join(" | ");
        rep.violation("lean-build", &format!("the Lean specification does not type-check (lake build failed): {tail}"), json!({"log_tail": log.lines().rev().take(30).collect::<Vec<_>>()}));
        return rep.finish();
    }
    if log.contains("declaration uses 'sorry'") || log.contains("declaration uses `sorry`") {
        rep.violation("lean-sorry", "a declaration of the Lean specification uses sorry", json!({"log": log.lines().filter(|l| l.contains("sorry")).take(10).collect::<Vec<_>>()}));
    }
    let (ok, axout) = sh(Command::new("lake").args(["env", "lean", "Axioms.lean"]).current_dir(&formal));
    if !ok {
        machinery_error(&format!("axiom audit did not run: {}", axout.lines().take(5).collect::<Vec<_>>().join(" | ")));
    }
    let standard = ["propext", "Classical.choice", "Quot.sound"];
    let mut trusted: Vec<String> = Vec::new();
    let mut n_thm = 0u64;
    let mut named = 0u64;
    for l in axout.lines() {
        if let Some(r) = l.strip_prefix("AXIOM ") {
            let mut it = r.split_whitespace();
            let (name, module) = (it.next().unwrap_or(""), it.next().unwrap_or("?"));
            if module != "WormholeSpec.Trusted" {
                rep.violation(&format!("lean-axiom:{name}"), &format!("the spec declares axiom {name} outside its trusted-base module (in {module})"), json!({"axiom": name, "module": module}));
            }
            trusted.push(name.to_string());
        }
    }
    for l in axout.lines() {
        if let Some(r) = l.strip_prefix("THM ") {
            n_thm += 1;
            let (name, axs) = r.split_once(" :: ").unwrap_or((r, ""));
            if !name.contains(".eq_") && !name.contains(".mk.") {
                named += 1;
            }
            for a in axs.split_whitespace() {
                if !standard.contains(&a) && !trusted.iter().any(|t| t == a) {
                    rep.violation(&format!("lean-thm-axiom:{name}:{a}"), &format!("theorem {name} depends on {a}, which is neither a standard axiom nor one of the spec's declared trusted axioms"), json!({"theorem": name, "axiom": a}));
                }
            }
        }
    }
    if n_thm < 20 {
        machinery_error("axiom audit found implausibly few theorems");
    }
    rep.extra("lean_theorems_audited", json!(n_thm));
    rep.extra("lean_named_theorems (excluding auto-generated eq/inj lemmas)", json!(named));
    rep.extra("lean_trusted_axioms", json!(trusted));

    // ---------------- conformance half ----------------
    let leaf = LeafCtx::new();
    let al = Alpha::new();
    let mid = al.mid();
    let small = al.small();
    let full = al.full();
    let mut sets: Vec<(usize, Vec<Vec<Slot>>)> = Vec::new();
    let step = if thorough { 8 } else { 256 };
    sets.push((1, full.iter().step_by(step).map(|ix| vec![al.slot(ix)]).collect()));
    let mut v2 = Vec::new();
    for (i, a) in mid.iter().enumerate() {
        for (j, b) in mid.iter().enumerate() {
            if thorough || (i + 3 * j) % 4 == 0 {
                v2.push(vec![al.slot(a), al.slot(b)]);
            }
        }
    }
    sets.push((2, v2));
    let s3: Vec<&Vec<usize>> = if thorough { small.iter().collect() } else { small.iter().take(12).collect() };
    let mut v3 = Vec::new();
    for a in &s3 {
        for b in &s3 {
            for c in &s3 {
                v3.push(vec![al.slot(a), al.slot(b), al.slot(c)]);
            }
        }
    }
    sets.push((3, v3));
    let mut cases: Vec<(Vec<Slot>, Vec<u64>)> = Vec::new();
    let mut explored = 0u64;
    for (n, vectors) in sets {
        let w = build_priv_wrapper(n, &leaf.data.common);
        let cx = Cx::new(&w.data);
        for e in eval_vectors(&w, &cx, &vectors) {
            explored += 1;
            if e.accept {
                cases.push((e.slots, e.pis));
            }
        }
    }
    let mut text = String::new();
    for (slots, pis) in &cases {
        let n = slots.len();
        text.push_str(&n.to_string());
        for s in slots {
            for x in s.pis() {
                text.push(' ');
                text.push_str(&x.to_string());
            }
        }
        for x in &pis[8 + 10 * n..8 + 14 * n] {
            text.push(' ');
            text.push_str(&x.to_string());
        }
        text.push('\n');
    }
    std::fs::write(formal.join("cases.txt"), &text).unwrap();
    let (ok, out) = sh(Command::new("lake").args(["env", "lean", "--run", "Driver.lean", "cases.txt"]).current_dir(&formal));
    if !ok {
        machinery_error(&format!("Lean driver failed: {}", out.lines().take(6).collect::<Vec<_>>().join(" | ")));
    }
    let lines: Vec<&str> = out.lines().filter(|l| l.starts_with("G ")).collect();
    if lines.len() != cases.len() {
        machinery_error(&format!("Lean driver answered {} of {} cases", lines.len(), cases.len()));
    }
    for ((slots, pis), line) in cases.iter().zip(&lines) {
        rep.eval(1);
        rep.distinct(hash64(slots));
        let n = slots.len();
        let toks: Vec<&str> = line.split_whitespace().collect();
        let gi = 1;
        let hi = toks.iter().position(|t| *t == "H").unwrap();
        let ti = toks.iter().position(|t| *t == "T").unwrap();
        let si = toks.iter().position(|t| *t == "S").unwrap();
        let nums = |a: usize, b: usize| -> Vec<u64> { toks[a..b].iter().map(|t| t.parse::<u64>().unwrap_or(u64::MAX)).collect() };
        let lean_slots = nums(gi, hi);
        let circuit_slots = pis[8..8 + 10 * n].to_vec();
        let case = || json!({"n": n, "leaves": slots.iter().map(|s| s.pis()).collect::<Vec<_>>(), "circuit_output": pis, "lean": line});
        let key = format!("{:016x}", hash64(slots));
        if lean_slots != circuit_slots {
            rep.violation(&format!("lean-slots:{key}"), "circuit exit slots differ from the spec's groupExits (maskedChildPairs leaves)", case());
        }
        let h = nums(hi + 1, ti);
        // h = [found, asset, fee, bh0..3, number]; circuit header = [2N, asset, fee, bh(4), number]
        if h[0] == 1 {
            if pis[2] != h[2] || pis[3..7] != h[3..7] || pis[7] != h[7] || pis[1] != h[1] {
                rep.violation(&format!("lean-ref:{key}"), "circuit header is not the spec's first real child (leaves.find? isRealB)", case());
            }
        } else if pis[3..7] != [0, 0, 0, 0] {
            rep.violation(&format!("lean-ref-none:{key}"), "spec finds no real child but the circuit's block hash is not zero", case());
        }
        let t = nums(ti + 1, si);
        let total_out: u64 = (0..2 * n).map(|s| pis[8 + 5 * s]).sum();
        if t[0] != t[1] || t[1] != total_out {
            rep.violation(&format!("lean-total:{key}"), &format!("totals differ: spec inputExitTotal {} / slotsTotal {} / circuit {}", t[0], t[1], total_out), case());
        }
        if toks[si + 1] != "1" {
            rep.violation(&format!("lean-sorted:{key}"), "the circuit's nullifier region is not Pairwise digestLE according to the spec's order", case());
        }
        // permutation of the per-slot selections
        let mut want: Vec<D4> = slots.iter().map(|s| if s.is_dummy() { s.dummy_nullifier() } else { s.nullifier }).collect();
        let mut got: Vec<D4> = (0..n).map(|k| { let b = 8 + 10 * n + 4 * k; [pis[b], pis[b + 1], pis[b + 2], pis[b + 3]] }).collect();
        want.sort();
        got.sort();
        if want != got {
            rep.violation(&format!("lean-perm:{key}"), "the circuit's nullifier region is not a permutation of the per-slot selections", case());
        }
    }
    let n = cases.len() as u64;
    rep.states.store(n.max(1), std::sync::atomic::Ordering::Relaxed);
    rep.transitions.store(n.max(1), std::sync::atomic::Ordering::Relaxed);
    rep.traces.store(n, std::sync::atomic::Ordering::Relaxed);
    rep.extra("vectors_explored", json!(explored));
    rep.extra("accepted_cases_evaluated_by_lean", json!(n));
    if let Some((s, p)) = cases.get(cases.len() / 2) {
        rep.sample(json!({"leaves": s.iter().map(|x| x.pis()).collect::<Vec<_>>(), "circuit_output": p, "lean_line": lines[cases.len() / 2]}));
    }
    rep.rule("theorem half: `lake build` of a scratch copy of /repo/formal must succeed without sorry, and every theorem's axioms (collected by Lean's own collectAxioms) must be propext/Classical.choice/Quot.sound or an axiom declared in WormholeSpec.Trusted. conformance half: every accepted vector of the explored sets (N=1 slot alphabet, N=2 mid^2, N=3 small^3; strided in quick) is evaluated by Lean with the spec's own groupExits∘maskedChildPairs, find? isRealB, inputExitTotal, slotsTotal and digestLE, and compared with the output the real wrapper circuit produced under CX; states = cases, every case is a trace validated against the implementation. distinct = distinct accepted vectors");
    rep.assume("the theorem half is discharged by the Lean kernel, not by exploration; Felt is Nat in the spec, so cases stay below 2^64 and sums below the field modulus");
    rep.finish()
}
