//! C11: recursive verification accepts only the canonical child circuit. A family of
//! alternative child circuits, each with a VALID proof of a plausible statement, is offered to
//! the canonical private-batch / public-batch circuits; CX evaluates the full recursive
//! constraint system on the resulting witness.
use plonky2::field::types::Field;
use plonky2::gates::noop::NoopGate;
use plonky2::iop::target::Target;
use plonky2::iop::witness::{PartialWitness, WitnessWrite};
use plonky2::plonk::circuit_builder::CircuitBuilder;
use plonky2::plonk::circuit_data::{CircuitConfig, CircuitData};
use rayon::prelude::*;
use serde_json::json;
use std::sync::atomic::{AtomicU64, Ordering};
use vharness::cx::{f, Cx, Verdict, C, D, F};
use vharness::fixtures::*;
use vharness::leafnative::{build, HonestParams};
use vharness::mcx::*;
use vharness::privx::dig;
use wormhole_aggregator::private_batch::circuit::circuit_logic::PrivateBatchCircuit;
use wormhole_aggregator::public_batch::circuit::circuit_logic::PublicBatchCircuit;
use wormhole_circuit::circuit::circuit_logic::{CircuitTargets, WormholeCircuit};
use zk_circuits_common::circuit::CircuitFragment;

struct Alt {
    name: String,
    data: CircuitData<F, C, D>,
    proof: Proof,
}

fn free_pi_circuit(n_pis: usize, pad_to_rows: usize, cfg: CircuitConfig) -> (CircuitData<F, C, D>, Vec<Target>) {
    let mut b = CircuitBuilder::<F, D>::new(cfg);
    let pis = b.add_virtual_targets(n_pis);
    for k in 1..4.min(n_pis) {
        b.range_check(pis[k], 32);
    }
    b.register_public_inputs(&pis);
    while b.num_gates() + 8 < pad_to_rows {
        b.add_gate(NoopGate, vec![]);
    }
    (b.build::<C>(), pis)
}
fn prove_free(data: &CircuitData<F, C, D>, pis: &[Target], vals: &[u64]) -> Proof {
    let mut pw = PartialWitness::new();
    for (t, v) in pis.iter().zip(vals) {
        pw.set_target(*t, f(*v)).unwrap();
    }
    data.prove(pw).expect("free-PI circuit proves")
}

/// The leaf built from its public fragments; `strict` = unconditional nullifier/header
/// bindings (more constraints than canonical), otherwise no shared wiring at all (fewer).
fn fragment_leaf(strict: bool) -> (CircuitData<F, C, D>, CircuitTargets) {
    use wormhole_circuit::block_header::BlockHeader;
    use wormhole_circuit::nullifier::Nullifier;
    use wormhole_circuit::substrate_account::DualExitAccount;
    use wormhole_circuit::unspendable_account::UnspendableAccount;
    use wormhole_circuit::zk_merkle_proof::ZkMerkleProofData;
    let mut b = CircuitBuilder::<F, D>::new(zk_circuits_common::circuit::wormhole_leaf_circuit_config());
    let t = CircuitTargets::new(&mut b);
    UnspendableAccount::circuit(&t.unspendable_account, &mut b);
    ZkMerkleProofData::circuit(&t.zk_merkle_proof, &mut b);
    DualExitAccount::circuit(&t.exit_accounts, &mut b);
    if strict {
        Nullifier::circuit(&t.nullifier, &mut b);
        BlockHeader::circuit(&t.block_header, &mut b);
    } else {
        BlockHeader::circuit_without_hash_binding(&t.block_header, &mut b);
    }
    (b.build::<C>(), t)
}

fn main() {
    quiet_panics();
    let tier = tier_from_args();
    let thorough = tier == "thorough";
    let rep = Report::new("C11", "exploration", &tier);
    let leaf = leaf_verifier();
    let dummy = dummy_leaf_proof();
    let dummy_pis: Vec<u64> = dummy.public_inputs.iter().map(|x| vharness::cx::u(*x)).collect();
    let honest = build(&HonestParams { seed: 111, depth: 2, positions: vec![1, 2], asset: 0, input: 1000, fee: 10, out1: 500, out2: 400, tc: 5, block_number: 77 });

    // ---------------- alternative leaf-shaped circuits with valid proofs ----------------
    let mut alts: Vec<Alt> = Vec::new();
    let std_cfg = CircuitConfig::standard_recursion_config();
    {
        let (d, p) = free_pi_circuit(21, 0, std_cfg.clone());
        let pr = prove_free(&d, &p, &dummy_pis);
        alts.push(Alt { name: "free-PI leaf (repo's fake leaf)".into(), data: d, proof: pr });
        let (d, p) = free_pi_circuit(21, 256, std_cfg.clone());
        let pr = prove_free(&d, &p, &dummy_pis);
        alts.push(Alt { name: "free-PI leaf padded to the canonical 2^8 rows".into(), data: d, proof: pr });
        // a free-PI leaf claiming a real payout
        let (d, p) = free_pi_circuit(21, 256, std_cfg.clone());
        let pr = prove_free(&d, &p, &honest.a.expected_pis());
        alts.push(Alt { name: "free-PI leaf (2^8 rows) claiming a real statement".into(), data: d, proof: pr });
    }
    for (name, cfg) in [
        ("real leaf source, num_wires=136", CircuitConfig { num_wires: 136, ..std_cfg.clone() }),
        ("real leaf source, zero_knowledge=true", CircuitConfig { zero_knowledge: true, ..std_cfg.clone() }),
        ("real leaf source, cap_height=3", { let mut c = std_cfg.clone(); c.fri_config.cap_height = 3; c }),
        ("real leaf source, num_routed_wires=81", CircuitConfig { num_routed_wires: 81, ..std_cfg.clone() }),
    ] {
        if !thorough && (name.contains("81") || name.contains("136")) {
            continue;
        }
        let c = WormholeCircuit::new(cfg).expect("alt config valid");
        let t = c.targets();
        let d = c.build_circuit();
        let mut pw = PartialWitness::new();
        wormhole_prover::fill_witness(&mut pw, &wormhole_aggregator::build_dummy_circuit_inputs().unwrap(), &t).unwrap();
        let pr = d.prove(pw).expect("alt-config leaf proves the dummy");
        alts.push(Alt { name: name.into(), data: d, proof: pr });
    }
    {
        // one constraint group removed: no shared wiring; the dummy flag is a free witness
        let (d, t) = fragment_leaf(false);
        let mut pw = PartialWitness::new();
        wormhole_prover::fill_witness(&mut pw, &honest.inputs, &t).unwrap();
        pw.set_bool_target(t.zk_merkle_proof.is_not_dummy, true).unwrap();
        let pr = d.prove(pw).expect("fragment leaf proves");
        alts.push(Alt { name: "leaf fragments without the shared wiring (constraints removed), real statement".into(), data: d, proof: pr });
        // constraints added: unconditional nullifier and header bindings
        let (d, t) = fragment_leaf(true);
        let mut pw = PartialWitness::new();
        wormhole_prover::fill_witness(&mut pw, &honest.inputs, &t).unwrap();
        pw.set_bool_target(t.zk_merkle_proof.is_not_dummy, true).unwrap();
        let pr = d.prove(pw).expect("strict fragment leaf proves");
        alts.push(Alt { name: "leaf fragments with unconditional bindings (constraints added), real statement".into(), data: d, proof: pr });
    }
    for a in &alts {
        if a.data.verify(a.proof.clone()).is_err() {
            machinery_error(&format!("alternative circuit '{}' does not verify its own proof", a.name));
        }
        // (an alternative may share the digest - e.g. one more unused wire column changes neither
        // constants nor permutation - as long as its common data, hence its proof shape, differs)
        if a.data.verifier_only.circuit_digest == leaf.verifier_only.circuit_digest && a.data.common == leaf.common {
            machinery_error(&format!("alternative circuit '{}' is the canonical leaf circuit", a.name));
        }
    }

    // ---------------- canonical private-batch circuits ----------------
    let runs = AtomicU64::new(0);
    let unfit = AtomicU64::new(0);
    for n in [1usize, 2] {
        let (full, t) = private_batch_circuit(n, &leaf);
        let cx = Cx::new(&full);
        // non-vacuity + census: canonical children are accepted, nothing is left free
        {
            let mut pw = PartialWitness::new();
            fill_private(&mut pw, &t, &vec![dummy.clone(); n], &vec![dig(1); n]).unwrap();
            let inputs: Vec<(Target, F)> = pw.target_values.iter().map(|(a, b)| (*a, *b)).collect();
            let v = cx.run(&inputs, &[], &[], false).verdict;
            runs.fetch_add(1, Ordering::Relaxed);
            if !v.accepted() {
                machinery_error(&format!("canonical private-batch circuit N={n} rejects canonical dummy children: {}", v.short()));
            }
            // leave the proof targets out: generators must be blocked on them and on nothing else
            let only_pre: Vec<(Target, F)> = t.dummy_nullifier_pre_images.iter().flatten().map(|x| (*x, F::ZERO)).collect();
            if let Verdict::Reject(vharness::cx::Reject::Blocked { first, .. }) = cx.run(&only_pre, &[], &[], false).verdict {
                rep.extra(&format!("census N={n} (first blocked generator when no proof is supplied)"), json!(first));
            }
        }
        let jobs: Vec<(usize, usize)> = (0..alts.len()).flat_map(|ai| (0..n).map(move |s| (ai, s))).collect();
        jobs.par_iter().for_each(|&(ai, slot)| {
            {
                let a = &alts[ai];
                rep.eval(1);
                rep.distinct(hash64(&(n, &a.name, slot)));
                let case = json!({"outer": format!("private batch N={n}"), "foreign_child": a.name, "slot": slot});
                let mut proofs = vec![dummy.clone(); n];
                proofs[slot] = a.proof.clone();
                let mut pw = PartialWitness::new();
                let fit = catch(|| fill_private(&mut pw, &t, &proofs, &vec![dig(1); n]));
                match fit {
                    Err(_) | Ok(Err(_)) => {
                        // the proof does not even fit the proof targets: cannot be a witness
                        unfit.fetch_add(1, Ordering::Relaxed);
                    }
                    Ok(Ok(())) => {
                        let inputs: Vec<(Target, F)> = pw.target_values.iter().map(|(x, y)| (*x, *y)).collect();
                        let v = cx.run(&inputs, &[], &[], false).verdict;
                        runs.fetch_add(1, Ordering::Relaxed);
                        if v.accepted() {
                            rep.violation(&format!("priv:{n}:{}:{slot}", a.name), &format!("canonical private-batch circuit (N={n}) is SATISFIED by a valid proof of a different circuit in slot {slot}: {}", a.name), case);
                        }
                    }
                }
            }
        });
    }
    // constructors refuse children with another public-input count
    for npi in [20usize, 22, 0, 29] {
        rep.eval(1);
        let (d, _) = free_pi_circuit(npi, 0, std_cfg.clone());
        let r = catch(|| PrivateBatchCircuit::new(zk_circuits_common::circuit::wormhole_private_batch_circuit_config(), &d.common, &d.verifier_only, 1).map(|_| ()));
        if !matches!(r, Ok(Err(_))) {
            rep.violation(&format!("ctor-priv:{npi}"), &format!("PrivateBatchCircuit::new does not refuse (with an error) a child circuit with {npi} public inputs"), json!({"child_public_inputs": npi}));
        }
    }

    // ---------------- public layer ----------------
    {
        let (pb1, pbt1) = private_batch_circuit(1, &leaf);
        let pbv = pb1.verifier_data();
        let canon_inner = prove_private_raw(&pb1, &pbt1, &[dummy.clone()], &[dig(3)]).expect("canonical all-dummy inner");
        let inner_pis: Vec<u64> = canon_inner.public_inputs.iter().map(|x| vharness::cx::u(*x)).collect();
        let mut palts: Vec<Alt> = Vec::new();
        {
            let pcfg = zk_circuits_common::circuit::wormhole_private_batch_circuit_config();
            let (d, p) = free_pi_circuit(29, 0, pcfg.clone());
            let pr = prove_free(&d, &p, &inner_pis);
            palts.push(Alt { name: "free-PI circuit with the private-batch layout (29 public inputs), private-batch config".into(), data: d, proof: pr });
            let (d, p) = free_pi_circuit(29, 1 << 14, pcfg.clone());
            let pr = prove_free(&d, &p, &inner_pis);
            palts.push(Alt { name: "free-PI circuit (29 public inputs) padded to the canonical 2^14 rows".into(), data: d, proof: pr });
            // the private-batch circuit built without row blinding: same source, other domain/config
            let c = PrivateBatchCircuit::new(CircuitConfig { zero_knowledge: false, ..pcfg.clone() }, &leaf.common, &leaf.verifier_only, 1).unwrap();
            let tt = c.targets();
            let d = c.build_circuit();
            let pr = prove_private_raw(&d, &tt, &[dummy.clone()], &[dig(3)]).expect("non-zk inner proves");
            palts.push(Alt { name: "private-batch source built without row blinding".into(), data: d, proof: pr });
            // the private-batch wrapper over a free-PI leaf (verifies a different child)
            let (fl, fp) = free_pi_circuit(21, 0, std_cfg.clone());
            let fproof = prove_free(&fl, &fp, &dummy_pis);
            let c = PrivateBatchCircuit::new(pcfg.clone(), &fl.common, &fl.verifier_only, 1).unwrap();
            let tt = c.targets();
            let d = c.build_circuit();
            let pr = prove_private_raw(&d, &tt, &[fproof], &[dig(3)]).expect("inner over fake leaf proves");
            palts.push(Alt { name: "private-batch source over a free-PI leaf (different baked-in child key)".into(), data: d, proof: pr });
        }
        for a in &palts {
            if a.data.verify(a.proof.clone()).is_err() {
                machinery_error(&format!("alternative inner circuit '{}' does not verify its own proof", a.name));
            }
        }
        for m in [1usize, 2] {
            let c = PublicBatchCircuit::new(zk_circuits_common::circuit::wormhole_public_batch_circuit_config(), pbv.common.clone(), &pbv.verifier_only, m, 1).expect("canonical public batch");
            let t = c.targets();
            let full = c.build_circuit();
            let cx = Cx::new(&full);
            let fill = |proofs: &[Proof]| -> anyhow::Result<Vec<(Target, F)>> {
                let mut pw = PartialWitness::new();
                for (pt, p) in t.private_batch_proofs.iter().zip(proofs) {
                    pw.set_proof_with_pis_target(pt, p)?;
                }
                for k in 0..4 {
                    pw.set_target(t.aggregator_address[k], f(k as u64 + 1))?;
                }
                Ok(pw.target_values.iter().map(|(x, y)| (*x, *y)).collect())
            };
            let v = cx.run(&fill(&vec![canon_inner.clone(); m]).unwrap(), &[], &[], false).verdict;
            runs.fetch_add(1, Ordering::Relaxed);
            if !v.accepted() {
                machinery_error(&format!("canonical public-batch circuit M={m} rejects canonical inners: {}", v.short()));
            }
            for a in &palts {
                for slot in 0..m {
                    rep.eval(1);
                    rep.distinct(hash64(&("pub", m, &a.name, slot)));
                    let mut proofs = vec![canon_inner.clone(); m];
                    proofs[slot] = a.proof.clone();
                    if let Ok(Ok(inputs)) = catch(|| fill(&proofs)) {
                        let v = cx.run(&inputs, &[], &[], false).verdict;
                        runs.fetch_add(1, Ordering::Relaxed);
                        if v.accepted() {
                            rep.violation(&format!("pub:{m}:{}:{slot}", a.name), &format!("canonical public-batch circuit (M={m}) is SATISFIED by a valid proof of a different circuit in slot {slot}: {}", a.name), json!({"outer": format!("public batch M={m}"), "foreign_child": a.name, "slot": slot}));
                        }
                    } else {
                        unfit.fetch_add(1, Ordering::Relaxed);
                    }
                }
            }
        }
        // constructors: private-batch circuit for N=2 presented to a public batch built for N=1, etc.
        let (pb2, _) = private_batch_circuit(2, &leaf);
        for (label, common, vo, nl) in [("private batch N=2 declared as N=1", &pb2.common, &pb2.verifier_only, 1usize), ("private batch N=1 declared as N=2", &pb1.common, &pb1.verifier_only, 2), ("leaf circuit as inner", &leaf.common, &leaf.verifier_only, 1)] {
            rep.eval(1);
            let r = catch(|| PublicBatchCircuit::new(zk_circuits_common::circuit::wormhole_public_batch_circuit_config(), common.clone(), vo, 2, nl).map(|_| ()));
            if !matches!(r, Ok(Err(_))) {
                rep.violation(&format!("ctor-pub:{label}"), &format!("PublicBatchCircuit::new does not refuse (with an error): {label}"), json!({"case": label}));
            }
        }
        rep.extra("alternative_inner_circuits", json!(palts.iter().map(|a| a.name.clone()).collect::<Vec<_>>()));
    }
    rep.extra("alternative_leaf_circuits", json!(alts.iter().map(|a| a.name.clone()).collect::<Vec<_>>()));
    rep.extra("full_recursive_cx_runs", json!(runs.load(Ordering::Relaxed)));
    rep.extra("foreign_proofs_that_do_not_fit_the_proof_targets", json!(unfit.load(Ordering::Relaxed)));
    rep.sample(json!({"outer": "private batch N=2", "foreign_child": alts[1].name, "slot": 1, "expected": "unsatisfiable"}));
    rep.rule("case = (canonical outer circuit, alternative child circuit with a VALID proof of a plausible statement, slot); the foreign proof is written into the outer circuit's proof targets (next to canonical children in the other slots) and the complete recursive constraint system (all generators, all gate and copy constraints) is evaluated by CX; oracle: never satisfied (or the proof does not fit the targets); canonical children are accepted (non-vacuity); constructors return Err for children with another public-input count. distinct = distinct (outer, child, slot)");
    rep.assume("a finite family of alternative circuits, not all programs; FRI/PLONK soundness of the in-circuit verifier (a cheating prover who forges openings is outside this check)");
    std::process::exit(rep.finish());
}
