//! C23 — artifact publication is atomic under failures and crashes (engine FI, hook H7).
//!
//! Part 1 (publish): the real `commit_staging_dir_impl` (through `verif_commit_staging_dir`)
//! runs on real directories under a fresh temp dir. Every `rename` call (the injectable
//! closure) and every `remove_dir_all` call (the `verif_hooks::fs` stand-in) asks the choice
//! tree for an answer; `choice_tree(usize::MAX, ..)` explores EVERY answer script — any number
//! of faults — from each of the three initial states. The oracle is evaluated on the directory
//! tree left behind by every path.
//!
//! Part 2 (generation): `generate_all_circuit_binaries` runs in a child process (this binary
//! re-executed with `--gen-child`) whose stage hook returns an injected error, or kills the
//! process (`abort`, a real crash: nothing unwinds), at each stage boundary. The parent
//! inspects the directory tree afterwards.
use circuit_builder::verif_hooks::{set_remove_hook, set_stage_hook};
use circuit_builder::{generate_all_circuit_binaries, verif_commit_staging_dir};
use serde_json::{json, Value};
use std::cell::RefCell;
use std::collections::{BTreeMap, BTreeSet};
use std::path::{Path, PathBuf};
use std::sync::atomic::{AtomicU64, Ordering};
use vharness::mcx::*;

const CRASH: &str = "VHARNESS-INJECTED-CRASH";
const OUT_NAME: &str = "bins";
const STAGING_NAME: &str = ".bins.staging-4242-00000000deadbeef";

/// previous set P and new set N: one shared file name (different contents), one name each
/// of its own, so a mix is visible by names and by contents.
const P_SET: [(&str, &[u8]); 2] = [("common.bin", b"P:common:previous-generation"), ("verifier.bin", b"P:verifier:previous-generation")];
const N_SET: [(&str, &[u8]); 2] = [("common.bin", b"N:common:new-generation"), ("config.json", b"{\"N\":\"new-generation\"}")];
const FILE_BODY: &[u8] = b"i am a regular file at the output path";

// ---------------------------------------------------------------------------------
// directory trees
// ---------------------------------------------------------------------------------

/// relative path -> Some(bytes) for a file, None for a directory
type Tree = BTreeMap<String, Option<Vec<u8>>>;

fn snapshot(root: &Path) -> Tree {
    fn walk(base: &Path, dir: &Path, out: &mut Tree) {
        let rd = match std::fs::read_dir(dir) {
            Ok(r) => r,
            Err(e) => machinery_error(&format!("cannot list {}: {e}", dir.display())),
        };
        for e in rd {
            let e = e.unwrap_or_else(|e| machinery_error(&format!("read_dir entry: {e}")));
            let p = e.path();
            let rel = p.strip_prefix(base).unwrap().to_string_lossy().to_string();
            let md = std::fs::symlink_metadata(&p).unwrap_or_else(|e| machinery_error(&format!("stat {}: {e}", p.display())));
            if md.is_dir() {
                out.insert(rel, None);
                walk(base, &p, out);
            } else {
                let body = std::fs::read(&p).unwrap_or_else(|e| machinery_error(&format!("read {}: {e}", p.display())));
                out.insert(rel, Some(body));
            }
        }
    }
    let mut t = Tree::new();
    walk(root, root, &mut t);
    t
}

#[derive(Clone, Debug, PartialEq, Eq, Hash, PartialOrd, Ord)]
enum Class {
    Absent,
    /// regular file with exactly the initial body
    FileIntact,
    FileOther,
    P,
    N,
    EmptyDir,
    /// strict non-empty subset of P / of N (a half-removed copy)
    PartP,
    PartN,
    /// anything else: files of both sets, foreign names, altered contents
    Mixed(String),
}

fn top_levels(t: &Tree) -> Vec<String> {
    t.keys().filter(|k| !k.contains('/')).cloned().collect()
}

fn classify(t: &Tree, top: &str) -> Class {
    match t.get(top) {
        None => Class::Absent,
        Some(Some(b)) => {
            if b.as_slice() == FILE_BODY {
                Class::FileIntact
            } else {
                Class::FileOther
            }
        }
        Some(None) => {
            let prefix = format!("{top}/");
            let inner: Vec<(&str, &Option<Vec<u8>>)> =
                t.iter().filter(|(k, _)| k.starts_with(&prefix)).map(|(k, v)| (&k[prefix.len()..], v)).collect();
            if inner.is_empty() {
                return Class::EmptyDir;
            }
            let in_set = |set: &[(&str, &[u8])]| -> (usize, bool) {
                // (how many of the set's files are present with exact contents, nothing else present)
                let mut n = 0;
                let mut only = true;
                for (name, body) in &inner {
                    match set.iter().find(|(sn, _)| sn == name) {
                        Some((_, sb)) if body.as_deref() == Some(*sb) => n += 1,
                        _ => only = false,
                    }
                }
                (n, only)
            };
            let (np, onlyp) = in_set(&P_SET);
            let (nn, onlyn) = in_set(&N_SET);
            if onlyp && np == P_SET.len() {
                Class::P
            } else if onlyn && nn == N_SET.len() {
                Class::N
            } else if onlyp {
                Class::PartP
            } else if onlyn {
                Class::PartN
            } else {
                Class::Mixed(inner.iter().map(|(k, _)| k.to_string()).collect::<Vec<_>>().join(","))
            }
        }
    }
}

fn role(name: &str) -> String {
    if name == OUT_NAME {
        "output".into()
    } else if name == STAGING_NAME {
        "staging".into()
    } else if name == format!("{STAGING_NAME}.old") {
        "old".into()
    } else {
        format!("other({name})")
    }
}

/// canonical final shape: role -> class for every top-level entry
fn shape(t: &Tree) -> Vec<(String, Class)> {
    let mut v: Vec<(String, Class)> = top_levels(t).iter().map(|n| (role(n), classify(t, n))).collect();
    v.sort();
    v
}

fn write_set(dir: &Path, set: &[(&str, &[u8])]) {
    std::fs::create_dir_all(dir).unwrap_or_else(|e| machinery_error(&format!("mkdir {}: {e}", dir.display())));
    for (n, b) in set {
        std::fs::write(dir.join(n), b).unwrap_or_else(|e| machinery_error(&format!("write: {e}")));
    }
}

static ROOT_SEQ: AtomicU64 = AtomicU64::new(0);
fn fresh_root() -> PathBuf {
    let n = ROOT_SEQ.fetch_add(1, Ordering::Relaxed);
    let p = std::env::temp_dir().join(format!("vharness-publish-{}-{}", std::process::id(), n));
    let _ = std::fs::remove_dir_all(&p);
    std::fs::create_dir_all(&p).unwrap_or_else(|e| machinery_error(&format!("mkdir {}: {e}", p.display())));
    p
}

// ---------------------------------------------------------------------------------
// Part 1: fault / crash enumeration of the publish routine
// ---------------------------------------------------------------------------------

#[derive(Clone, Copy, Debug, PartialEq, Eq, Hash)]
enum Init {
    Absent,
    DirP,
    File,
}

struct Fi {
    choices: Choices,
    trace: Vec<String>,
    root: PathBuf,
}
thread_local! {
    static FI: RefCell<Option<Fi>> = const { RefCell::new(None) };
}

const RENAME_ANS: [&str; 4] = ["ok", "error", "crash-before", "crash-after"];
const REMOVE_ANS: [&str; 6] = ["ok", "error", "crash-before", "crash-after", "partial+error", "partial+crash"];

fn rel_role(root: &Path, p: &Path) -> String {
    match p.strip_prefix(root) {
        Ok(r) => role(&r.to_string_lossy()),
        Err(_) => format!("outside({})", p.display()),
    }
}

fn ask(arity: u32, describe: impl FnOnce(&Path) -> String, names: &[&str]) -> u32 {
    FI.with(|c| {
        let mut g = c.borrow_mut();
        let fi = g.as_mut().expect("fault state installed");
        let a = fi.choices.choose(arity);
        let d = describe(&fi.root);
        fi.trace.push(format!("{d} = {}", names[a as usize]));
        a
    })
}

fn injected_rename(src: &Path, dst: &Path) -> std::io::Result<()> {
    let a = ask(4, |root| format!("rename({} -> {})", rel_role(root, src), rel_role(root, dst)), &RENAME_ANS);
    match a {
        0 => std::fs::rename(src, dst),
        1 => Err(std::io::Error::other("injected rename failure")),
        2 => panic!("{CRASH}"),
        _ => {
            let _ = std::fs::rename(src, dst);
            panic!("{CRASH}")
        }
    }
}

/// remove the first half (rounded up) of the entries of `p` for real
fn remove_half(p: &Path) {
    let mut entries: Vec<PathBuf> = match std::fs::read_dir(p) {
        Ok(rd) => rd.filter_map(|e| e.ok().map(|e| e.path())).collect(),
        Err(_) => return,
    };
    entries.sort();
    let k = entries.len().div_ceil(2);
    for e in entries.into_iter().take(k) {
        if e.is_dir() {
            let _ = std::fs::remove_dir_all(&e);
        } else {
            let _ = std::fs::remove_file(&e);
        }
    }
}

fn injected_remove(p: &Path) -> Option<std::io::Result<()>> {
    let a = ask(6, |root| format!("remove_dir_all({})", rel_role(root, p)), &REMOVE_ANS);
    match a {
        0 => Some(std::fs::remove_dir_all(p)),
        1 => Some(Err(std::io::Error::other("injected remove failure"))),
        2 => panic!("{CRASH}"),
        3 => {
            let _ = std::fs::remove_dir_all(p);
            panic!("{CRASH}")
        }
        4 => {
            remove_half(p);
            Some(Err(std::io::Error::other("injected remove failure after removing half of the tree")))
        }
        _ => {
            remove_half(p);
            panic!("{CRASH}")
        }
    }
}

#[derive(Clone, Debug, PartialEq)]
enum Outcome {
    Ok,
    Err(String),
    Crash,
    /// a panic that the harness did not inject
    ForeignPanic(String),
}

#[derive(Clone, Debug, PartialEq)]
struct Exec {
    outcome: Outcome,
    trace: Vec<String>,
    tree: Tree,
}

fn run_publish(init: Init, ch: &mut Choices) -> Exec {
    let root = fresh_root();
    let output = root.join(OUT_NAME);
    let staging = root.join(STAGING_NAME);
    match init {
        Init::Absent => {}
        Init::DirP => write_set(&output, &P_SET),
        Init::File => std::fs::write(&output, FILE_BODY).unwrap_or_else(|e| machinery_error(&format!("write: {e}"))),
    }
    write_set(&staging, &N_SET);

    let taken = std::mem::replace(ch, Choices::new(vec![]));
    FI.with(|c| *c.borrow_mut() = Some(Fi { choices: taken, trace: vec![], root: root.clone() }));
    set_remove_hook(Some(Box::new(injected_remove)));
    let res = catch(|| verif_commit_staging_dir(&staging, &output, injected_rename));
    set_remove_hook(None);
    let fi = FI.with(|c| c.borrow_mut().take()).expect("fault state present");
    *ch = fi.choices;

    let outcome = match res {
        Ok(Ok(())) => Outcome::Ok,
        Ok(Err(e)) => Outcome::Err(format!("{e:#}").replace(root.to_string_lossy().as_ref(), "<root>")),
        Err(p) if p == CRASH => Outcome::Crash,
        Err(p) => Outcome::ForeignPanic(p),
    };
    let tree = snapshot(&root);
    let _ = std::fs::remove_dir_all(&root);
    Exec { outcome, trace: fi.trace, tree }
}

/// The oracle of C23 on one finished path. Returns the list of broken clauses.
fn judge(init: Init, ex: &Exec) -> Vec<String> {
    let t = &ex.tree;
    let out = classify(t, OUT_NAME);
    let tops = top_levels(t);
    let somewhere = |c: &Class| tops.iter().any(|n| &classify(t, n) == c);
    let mut bad = Vec::new();

    // (i) the output path holds the complete previous content or the complete new set, never a mix
    let previous = match init {
        Init::Absent => Class::Absent,
        Init::DirP => Class::P,
        Init::File => Class::FileIntact,
    };
    let i_ok = out == Class::N || out == previous || out == Class::Absent;
    if !i_ok {
        bad.push(format!("(i) output path holds {out:?}: neither the complete previous content ({previous:?}) nor the complete new set"));
    }
    // (ii) previous content no longer at the output path => N is there, or both copies survive complete
    if init != Init::Absent && out != previous && out != Class::N {
        let both = somewhere(&previous) && somewhere(&Class::N);
        if !both {
            bad.push(format!(
                "(ii) previous content is no longer at the output path (now {out:?}), the new set is not live, and the two complete copies do not both survive (previous complete somewhere: {}, new complete somewhere: {})",
                somewhere(&previous),
                somewhere(&Class::N)
            ));
        }
    }
    // (iii) success is reported iff the new set is live
    match &ex.outcome {
        Outcome::Ok if out != Class::N => bad.push(format!("(iii) Ok returned but the output path holds {out:?}, not the new set")),
        Outcome::Err(e) if out == Class::N => bad.push(format!("(iii) Err returned although the new set is live at the output path: {e}")),
        _ => {}
    }
    // (iv) never lose everything: some complete copy (previous content or new set) survives
    let any_copy = somewhere(&Class::N) || (init != Init::Absent && somewhere(&previous));
    if !any_copy {
        bad.push("(iv) neither the previous content nor the new set survives complete anywhere under the parent".into());
    }
    bad
}

fn exec_json(init: Init, script: &[u32], ex: &Exec) -> Value {
    json!({
        "initial_state": format!("{init:?}"),
        "answer_script": script,
        "calls": ex.trace,
        "result": format!("{:?}", ex.outcome),
        "final_tree": shape(&ex.tree).iter().map(|(r, c)| format!("{r}: {c:?}")).collect::<Vec<_>>(),
    })
}

struct Part1 {
    scripts: u64,
    edges: u64,
    shapes: BTreeSet<u64>,
    outcome_classes: BTreeSet<u64>,
    max_faults: usize,
    per_init: BTreeMap<String, u64>,
    call_sites: BTreeSet<String>,
}

fn part1(rep: &Report) -> Part1 {
    let mut st = Part1 {
        scripts: 0,
        edges: 0,
        shapes: BTreeSet::new(),
        outcome_classes: BTreeSet::new(),
        max_faults: 0,
        per_init: BTreeMap::new(),
        call_sites: BTreeSet::new(),
    };
    for init in [Init::Absent, Init::DirP, Init::File] {
        // determinism: the fault-free execution twice
        let a = run_publish(init, &mut Choices::new(vec![]));
        let b = run_publish(init, &mut Choices::new(vec![]));
        if a != b {
            machinery_error(&format!("publish run from {init:?} is not deterministic"));
        }
        let mut n_init = 0u64;
        let mut sampled = 0;
        let (execs, edges) = choice_tree(
            usize::MAX,
            |ch| run_publish(init, ch),
            |script, ex| {
                n_init += 1;
                rep.eval(1);
                let faults = script.iter().filter(|&&c| c != 0).count();
                st.max_faults = st.max_faults.max(faults);
                if faults > 0 {
                    rep.distinct(hash64(&(format!("{init:?}"), script.to_vec())));
                }
                let sh = shape(&ex.tree);
                st.shapes.insert(hash64(&sh));
                let kind = match &ex.outcome {
                    Outcome::Ok => "ok",
                    Outcome::Err(_) => "err",
                    Outcome::Crash => "crash",
                    Outcome::ForeignPanic(_) => "foreign-panic",
                };
                st.outcome_classes.insert(hash64(&(format!("{init:?}"), kind, &sh)));
                for c in &ex.trace {
                    st.call_sites.insert(c.split(" = ").next().unwrap_or("").to_string());
                }
                if let Outcome::ForeignPanic(p) = &ex.outcome {
                    rep.add_extra_count("panics_not_injected_by_the_harness", 1);
                    rep.sample(json!({"foreign_panic": p, "case": exec_json(init, script, &ex)}));
                }
                let bad = judge(init, &ex);
                if !bad.is_empty() {
                    // re-execute once: the violation must reproduce bit-identically
                    let again = run_publish(init, &mut Choices::new(script.to_vec()));
                    if again != ex {
                        machinery_error(&format!("violating publish path {init:?} {script:?} did not reproduce"));
                    }
                    rep.violation(
                        &format!("publish:{init:?}:{}", script.iter().map(|c| c.to_string()).collect::<Vec<_>>().join(".")),
                        &format!("publish from {init:?} with calls [{}] -> {:?}: {}", ex.trace.join("; "), ex.outcome, bad.join(" | ")),
                        exec_json(init, script, &ex),
                    );
                }
                if faults >= 2 && sampled < 2 && (script.len() >= 3 || init != Init::DirP) {
                    sampled += 1;
                    rep.sample(exec_json(init, script, &ex));
                }
            },
        );
        if execs != n_init {
            machinery_error("choice_tree bookkeeping mismatch");
        }
        st.scripts += execs;
        st.edges += edges;
        st.per_init.insert(format!("{init:?}"), execs);
    }
    st
}

// ---------------------------------------------------------------------------------
// Part 2: generation stages failing / crashing (child processes)
// ---------------------------------------------------------------------------------

/// previous output of a generation run: shares a name with the generated set and has a
/// name of its own, so "untouched" and "replaced wholesale" are both decidable.
const GEN_P: [(&str, &[u8]); 2] = [("common.bin", b"previous common.bin"), ("stale.bin", b"previous stale.bin")];

#[derive(Clone, Copy, Debug, PartialEq)]
enum Fault {
    None,
    Err(usize),
    Crash(usize),
}

#[derive(Clone, Copy, Debug)]
struct GenCfg {
    prover: bool,
    n_leaf: usize,
    n_priv: Option<usize>,
}

/// child: `--gen-child <output> <prover> <n_leaf> <n_priv|none> <none|err|crash> <stage index>`
fn gen_child(args: &[String]) -> ! {
    let output = PathBuf::from(&args[0]);
    let prover = args[1] == "true";
    let n_leaf: usize = args[2].parse().unwrap();
    let n_priv: Option<usize> = args[3].parse().ok();
    let kind = args[4].clone();
    let at: usize = args[5].parse().unwrap();
    let seen = std::rc::Rc::new(RefCell::new(0usize));
    let seen2 = seen.clone();
    set_stage_hook(Some(Box::new(move |name: &str| {
        let i = *seen2.borrow();
        *seen2.borrow_mut() += 1;
        eprintln!("VSTAGE {i} {name}");
        if i == at && kind == "err" {
            return Err(anyhow::anyhow!("injected stage failure at {name}"));
        }
        if i == at && kind == "crash" {
            eprintln!("VCRASH {i} {name}");
            // a real process death: no unwinding, no destructors, no error path
            std::process::abort();
        }
        Ok(())
    })));
    let r = generate_all_circuit_binaries(&output, prover, n_leaf, n_priv);
    match r {
        Ok(()) => {
            eprintln!("VRESULT ok");
            std::process::exit(0)
        }
        Err(e) => {
            eprintln!("VRESULT err {}", format!("{e:#}").replace('\n', " "));
            std::process::exit(3)
        }
    }
}

#[derive(Debug)]
struct GenExec {
    /// "ok" | "err" | "crash"
    result: String,
    err_text: String,
    stages: Vec<String>,
    tops: Vec<String>,
    out_files: BTreeMap<String, usize>,
    out_is_previous: bool,
    wall_s: f64,
}

fn gen_run(cfg: GenCfg, fault: Fault) -> GenExec {
    let t0 = std::time::Instant::now();
    let root = fresh_root();
    let output = root.join(OUT_NAME);
    write_set(&output, &GEN_P);
    let (kind, at) = match fault {
        Fault::None => ("none", 0),
        Fault::Err(i) => ("err", i),
        Fault::Crash(i) => ("crash", i),
    };
    let exe = std::env::current_exe().unwrap_or_else(|e| machinery_error(&format!("current_exe: {e}")));
    let out = std::process::Command::new(exe)
        .arg("--gen-child")
        .arg(&output)
        .arg(cfg.prover.to_string())
        .arg(cfg.n_leaf.to_string())
        .arg(cfg.n_priv.map(|n| n.to_string()).unwrap_or("none".into()))
        .arg(kind)
        .arg(at.to_string())
        .stdout(std::process::Stdio::null())
        .stderr(std::process::Stdio::piped())
        .output()
        .unwrap_or_else(|e| machinery_error(&format!("cannot spawn generation child: {e}")));
    let stderr = String::from_utf8_lossy(&out.stderr).to_string();
    let stages: Vec<String> =
        stderr.lines().filter_map(|l| l.strip_prefix("VSTAGE ")).map(|l| l.split(' ').nth(1).unwrap_or("").to_string()).collect();
    let crashed_by_us = stderr.lines().any(|l| l.starts_with("VCRASH "));
    let (result, err_text) = match out.status.code() {
        Some(0) => ("ok".to_string(), String::new()),
        Some(3) => (
            "err".to_string(),
            stderr.lines().find_map(|l| l.strip_prefix("VRESULT err ")).unwrap_or("").to_string(),
        ),
        _ if crashed_by_us => ("crash".to_string(), String::new()),
        other => machinery_error(&format!(
            "generation child died unexpectedly ({other:?}) for {cfg:?} {fault:?}: {}",
            stderr.lines().rev().take(5).collect::<Vec<_>>().join(" / ")
        )),
    };
    let tree = snapshot(&root);
    let tops = top_levels(&tree);
    let prefix = format!("{OUT_NAME}/");
    let out_files: BTreeMap<String, usize> = tree
        .iter()
        .filter(|(k, _)| k.starts_with(&prefix))
        .map(|(k, v)| (k[prefix.len()..].to_string(), v.as_ref().map(|b| b.len()).unwrap_or(usize::MAX)))
        .collect();
    let out_is_previous = tree.get(OUT_NAME) == Some(&None)
        && out_files.len() == GEN_P.len()
        && GEN_P.iter().all(|(n, b)| tree.get(&format!("{prefix}{n}")).and_then(|x| x.as_deref()) == Some(*b));
    let _ = std::fs::remove_dir_all(&root);
    GenExec { result, err_text, stages, tops, out_files, out_is_previous, wall_s: t0.elapsed().as_secs_f64() }
}

fn gen_json(cfg: GenCfg, fault: Fault, stage_name: &str, ex: &GenExec) -> Value {
    json!({
        "generation": format!("include_prover={} num_leaf_proofs={} num_private_batch_proofs={:?}", cfg.prover, cfg.n_leaf, cfg.n_priv),
        "previous_output": GEN_P.iter().map(|x| x.0).collect::<Vec<_>>(),
        "fault": format!("{fault:?}"),
        "at_stage": stage_name,
        "stages_reached": ex.stages,
        "result": ex.result,
        "error": ex.err_text,
        "parent_listing_after": ex.tops,
        "output_files_after": ex.out_files.keys().collect::<Vec<_>>(),
        "output_is_exactly_previous": ex.out_is_previous,
        "wall_s": ex.wall_s,
    })
}

/// oracle for one generation run
fn judge_gen(cfg: GenCfg, fault: Fault, ex: &GenExec, reference: Option<&BTreeSet<String>>) -> Vec<String> {
    let mut bad = vec![];
    let siblings: Vec<&String> = ex.tops.iter().filter(|n| n.as_str() != OUT_NAME).collect();
    match fault {
        Fault::None => {
            if ex.result != "ok" {
                machinery_error(&format!("fault-free generation failed for {cfg:?}: {}", ex.err_text));
            }
            let names: BTreeSet<String> = ex.out_files.keys().cloned().collect();
            if !names.contains("config.json") || !names.contains("common.bin") || names.contains("stale.bin") {
                bad.push(format!("successful generation did not replace the output wholesale with a complete set: {names:?}"));
            }
            if ex.out_files.get("common.bin") == Some(&GEN_P[0].1.len()) {
                bad.push("successful generation left the previous common.bin in place".into());
            }
            if !siblings.is_empty() {
                bad.push(format!("successful generation left siblings behind: {siblings:?}"));
            }
            if let Some(r) = reference {
                if &names != r {
                    bad.push(format!("successful generation produced {names:?}, the first run of this configuration produced {r:?}"));
                }
            }
        }
        Fault::Err(_) => {
            if ex.result != "err" {
                bad.push(format!("injected stage error, but generation reported {}", ex.result));
            } else if !ex.err_text.contains("injected stage failure") {
                bad.push(format!("generation failed with a different error than the injected one: {}", ex.err_text));
            }
            if !ex.out_is_previous {
                bad.push(format!("failed generation touched the output: {:?}", ex.out_files.keys().collect::<Vec<_>>()));
            }
            if !siblings.is_empty() {
                bad.push(format!("failed generation left a staging directory behind: {siblings:?}"));
            }
        }
        Fault::Crash(_) => {
            if ex.result != "crash" {
                bad.push(format!("injected crash, but the child reported {}", ex.result));
            }
            if !ex.out_is_previous {
                bad.push(format!("crashed generation touched the output: {:?}", ex.out_files.keys().collect::<Vec<_>>()));
            }
        }
    }
    bad
}

struct Part2 {
    runs: u64,
    answers: u64,
    shapes: BTreeSet<u64>,
}

fn part2(rep: &Report, thorough: bool) -> Part2 {
    let cfgs_full: Vec<GenCfg> = if thorough {
        vec![
            GenCfg { prover: false, n_leaf: 1, n_priv: None },
            GenCfg { prover: false, n_leaf: 1, n_priv: Some(1) },
            GenCfg { prover: true, n_leaf: 1, n_priv: None },
            GenCfg { prover: true, n_leaf: 1, n_priv: Some(1) },
        ]
    } else {
        vec![GenCfg { prover: false, n_leaf: 1, n_priv: None }]
    };
    // (configuration, fault) jobs. A fault ends the generation, so the complete answer tree of
    // a configuration with k stage boundaries is: no fault, or (ok^i, err|crash) for i < k.
    let mut jobs: Vec<(GenCfg, Fault)> = vec![];
    const STAGES: [&str; 3] = ["after_leaf", "after_private_batch", "before_config"];
    for c in &cfgs_full {
        jobs.push((*c, Fault::None));
        for i in 0..STAGES.len() {
            jobs.push((*c, Fault::Err(i)));
            jobs.push((*c, Fault::Crash(i)));
        }
    }
    if !thorough {
        // one more boundary that only exists with a public batch: after the public-batch stage
        jobs.push((GenCfg { prover: false, n_leaf: 1, n_priv: Some(1) }, Fault::Err(2)));
    }
    let par = if thorough { 4 } else { 8 };
    let results: Vec<GenExec> = {
        let mut out: Vec<Option<GenExec>> = (0..jobs.len()).map(|_| None).collect();
        for (ci, chunk) in jobs.chunks(par).enumerate() {
            let rs: Vec<GenExec> = std::thread::scope(|s| {
                let hs: Vec<_> = chunk.iter().map(|(c, f)| s.spawn(move || gen_run(*c, *f))).collect();
                hs.into_iter().map(|h| h.join().unwrap_or_else(|_| machinery_error("generation runner thread panicked"))).collect()
            });
            for (k, r) in rs.into_iter().enumerate() {
                out[ci * par + k] = Some(r);
            }
        }
        out.into_iter().map(|x| x.unwrap()).collect()
    };
    let mut st = Part2 { runs: 0, answers: 0, shapes: BTreeSet::new() };
    let mut reference: BTreeMap<String, BTreeSet<String>> = BTreeMap::new();
    for ((cfg, fault), ex) in jobs.iter().zip(results.iter()) {
        st.runs += 1;
        rep.eval(1);
        st.answers += ex.stages.len() as u64;
        // the stage boundaries must be the ones the scripts were planned against
        let expect_reached = match fault {
            Fault::None => STAGES.len(),
            Fault::Err(i) | Fault::Crash(i) => i + 1,
        };
        if ex.stages.len() != expect_reached || ex.stages.iter().zip(STAGES.iter()).any(|(a, b)| a != b) {
            machinery_error(&format!("stage boundaries reached {:?} differ from the planned {:?} (hook H7 changed?)", ex.stages, &STAGES[..expect_reached]));
        }
        let stage_name = match fault {
            Fault::None => "-",
            Fault::Err(i) | Fault::Crash(i) => STAGES[*i],
        };
        let cfg_key = format!("{cfg:?}");
        let names: BTreeSet<String> = ex.out_files.keys().cloned().collect();
        let bad = judge_gen(*cfg, *fault, ex, None);
        if *fault == Fault::None {
            reference.insert(cfg_key.clone(), names.clone());
        }
        let sh = (ex.result.clone(), ex.out_is_previous, names, ex.tops.iter().map(|n| if n == OUT_NAME { "output".to_string() } else if n.contains(".staging-") { "staging-sibling".to_string() } else { n.clone() }).collect::<Vec<_>>());
        st.shapes.insert(hash64(&sh));
        if *fault != Fault::None {
            rep.distinct(hash64(&(cfg_key.clone(), format!("{fault:?}"))));
        }
        if !bad.is_empty() {
            rep.violation(
                &format!("generation:{}:{}:{}:{}", cfg.prover, cfg.n_priv.map(|n| n.to_string()).unwrap_or("none".into()), stage_name, match fault { Fault::None => "none", Fault::Err(_) => "err", Fault::Crash(_) => "crash" }),
                &format!("generate_all_circuit_binaries({cfg:?}) with {fault:?} at {stage_name}: {}", bad.join(" | ")),
                gen_json(*cfg, *fault, stage_name, ex),
            );
        }
        if matches!(fault, Fault::Err(1) | Fault::Crash(2)) && cfg.n_priv.is_none() && !cfg.prover {
            rep.sample(gen_json(*cfg, *fault, stage_name, ex));
        }
    }
    rep.extra(
        "generation_runs",
        json!(jobs.iter().zip(results.iter()).map(|((c, f), e)| format!("prover={} n_priv={:?} {:?} -> {} ({:.1}s)", c.prover, c.n_priv, f, e.result, e.wall_s)).collect::<Vec<_>>()),
    );
    st
}


// ---------------------------------------------------------------------------------
// Part 3: publish faults THROUGH the real entry point. `generate_all_circuit_binaries` runs in
// a child process (real generation, then the real commit_staging_dir with the real rename
// behind hook H7b `verif_hooks::fs::rename`); every rename / remove_dir_all call of the commit
// phase takes its answer from a script. This covers the composition of the generation
// wrapper's own cleanup with the publish routine's deliberate "keep staging" outcomes.
// ---------------------------------------------------------------------------------

const PUB_RENAME_ANS: [&str; 4] = ["ok", "error", "crash-before", "crash-after"];
const PUB_REMOVE_ANS: [&str; 4] = ["ok", "error", "crash-before", "partial+error"];

/// child: `--pub-child <output> <comma separated answers>`
fn pub_child(args: &[String]) -> ! {
    use circuit_builder::verif_hooks::set_rename_hook;
    let output = PathBuf::from(&args[0]);
    let script: Vec<u32> = args.get(1).map(|s| s.split(',').filter(|x| !x.is_empty()).map(|x| x.parse().unwrap()).collect()).unwrap_or_default();
    let pos = std::rc::Rc::new(RefCell::new(0usize));
    let next = {
        let pos = pos.clone();
        let script = script.clone();
        move |kind: &str, arity: usize| -> u32 {
            let i = *pos.borrow();
            *pos.borrow_mut() += 1;
            let a = script.get(i).copied().unwrap_or(0);
            eprintln!("VPOINT {i} {kind} {arity} {a}");
            if a as usize >= arity {
                eprintln!("VDIVERGED");
                std::process::exit(4);
            }
            a
        }
    };
    let n1 = next.clone();
    set_rename_hook(Some(Box::new(move |src: &Path, dst: &Path| {
        match n1("rename", PUB_RENAME_ANS.len()) {
            0 => None,
            1 => Some(Err(std::io::Error::other("injected rename failure"))),
            2 => {
                eprintln!("VCRASH");
                std::process::abort()
            }
            _ => {
                let _ = std::fs::rename(src, dst);
                eprintln!("VCRASH");
                std::process::abort()
            }
        }
    })));
    let n2 = next.clone();
    set_remove_hook(Some(Box::new(move |p: &Path| {
        match n2("remove", PUB_REMOVE_ANS.len()) {
            0 => None,
            1 => Some(Err(std::io::Error::other("injected remove failure"))),
            2 => {
                eprintln!("VCRASH");
                std::process::abort()
            }
            _ => {
                remove_half(p);
                Some(Err(std::io::Error::other("injected partial remove failure")))
            }
        }
    })));
    let r = generate_all_circuit_binaries(&output, false, 1, None);
    match r {
        Ok(()) => {
            eprintln!("VRESULT ok");
            std::process::exit(0)
        }
        Err(e) => {
            eprintln!("VRESULT err {}", format!("{e:#}").replace('\n', " "));
            std::process::exit(3)
        }
    }
}

#[derive(Clone, Copy, Debug, PartialEq, Eq, Hash)]
enum PubInit {
    Absent,
    DirP,
    File,
    DanglingSymlink,
}

struct PubExec {
    result: String,
    points: Vec<(String, u32, u32)>, // kind, arity, answer taken
    tree: Tree,
}

fn pub_run(init: PubInit, script: &[u32]) -> PubExec {
    let root = fresh_root();
    let output = root.join(OUT_NAME);
    match init {
        PubInit::Absent => {}
        PubInit::DirP => write_set(&output, &GEN_P),
        PubInit::File => std::fs::write(&output, FILE_BODY).unwrap(),
        PubInit::DanglingSymlink => std::os::unix::fs::symlink(root.join("nowhere"), &output).unwrap(),
    }
    let exe = std::env::current_exe().unwrap_or_else(|e| machinery_error(&format!("current_exe: {e}")));
    let out = std::process::Command::new(exe)
        .arg("--pub-child")
        .arg(&output)
        .arg(script.iter().map(|x| x.to_string()).collect::<Vec<_>>().join(","))
        .stdout(std::process::Stdio::null())
        .stderr(std::process::Stdio::piped())
        .output()
        .unwrap_or_else(|e| machinery_error(&format!("cannot spawn publish child: {e}")));
    let stderr = String::from_utf8_lossy(&out.stderr).to_string();
    if stderr.lines().any(|l| l == "VDIVERGED") {
        machinery_error("publish child: a script prefix did not replay (uncontrolled nondeterminism)");
    }
    let points: Vec<(String, u32, u32)> = stderr
        .lines()
        .filter_map(|l| l.strip_prefix("VPOINT "))
        .map(|l| {
            let t: Vec<&str> = l.split(' ').collect();
            (t[1].to_string(), t[2].parse().unwrap(), t[3].parse().unwrap())
        })
        .collect();
    let crashed = stderr.lines().any(|l| l == "VCRASH");
    let result = match out.status.code() {
        Some(0) => "ok",
        Some(3) => "err",
        _ if crashed => "crash",
        other => machinery_error(&format!("publish child died unexpectedly ({other:?}): {}", stderr.lines().rev().take(4).collect::<Vec<_>>().join(" / "))),
    }
    .to_string();
    // a dangling symlink cannot be walked as a directory: snapshot treats it as a file entry
    let tree = snapshot_lenient(&root);
    let _ = std::fs::remove_dir_all(&root);
    PubExec { result, points, tree }
}

/// like `snapshot`, but a symlink is recorded as a file with its link text
fn snapshot_lenient(root: &Path) -> Tree {
    fn walk(base: &Path, dir: &Path, out: &mut Tree) {
        for e in std::fs::read_dir(dir).unwrap_or_else(|e| machinery_error(&format!("list {}: {e}", dir.display()))) {
            let p = e.unwrap().path();
            let rel = p.strip_prefix(base).unwrap().to_string_lossy().to_string();
            let md = std::fs::symlink_metadata(&p).unwrap();
            if md.file_type().is_symlink() {
                out.insert(rel, Some(format!("symlink:{}", std::fs::read_link(&p).map(|x| x.display().to_string()).unwrap_or_default()).into_bytes()));
            } else if md.is_dir() {
                out.insert(rel, None);
                walk(base, &p, out);
            } else {
                out.insert(rel, Some(std::fs::read(&p).unwrap_or_default()));
            }
        }
    }
    let mut t = Tree::new();
    walk(root, root, &mut t);
    t
}

/// names of the files of a top-level directory `top` (None if `top` is not a directory)
fn files_of(t: &Tree, top: &str) -> Option<BTreeMap<String, Vec<u8>>> {
    if t.get(top) != Some(&None) {
        return None;
    }
    let prefix = format!("{top}/");
    Some(t.iter().filter(|(k, _)| k.starts_with(&prefix)).map(|(k, v)| (k[prefix.len()..].to_string(), v.clone().unwrap_or_default())).collect())
}
fn is_prev(f: &BTreeMap<String, Vec<u8>>) -> bool {
    f.len() == GEN_P.len() && GEN_P.iter().all(|(n, b)| f.get(*n).map(|x| x.as_slice()) == Some(*b))
}
fn is_new(f: &BTreeMap<String, Vec<u8>>, reference: &BTreeMap<String, usize>) -> bool {
    f.len() == reference.len() && reference.iter().all(|(n, sz)| f.get(n).map(|b| b.len()) == Some(*sz))
}

fn judge_pub(init: PubInit, ex: &PubExec, reference: &BTreeMap<String, usize>) -> Vec<String> {
    let mut bad = vec![];
    let tops = top_levels(&ex.tree);
    let out_files = files_of(&ex.tree, OUT_NAME);
    let out_prev = out_files.as_ref().map(is_prev).unwrap_or(false);
    let out_new = out_files.as_ref().map(|f| is_new(f, reference)).unwrap_or(false);
    let any_prev = tops.iter().any(|t| files_of(&ex.tree, t).map(|f| is_prev(&f)).unwrap_or(false));
    let any_new = tops.iter().any(|t| files_of(&ex.tree, t).map(|f| is_new(&f, reference)).unwrap_or(false));
    if let Some(f) = &out_files {
        if !out_prev && !out_new {
            bad.push(format!("the output path holds neither the complete previous set nor the complete new set: {:?}", f.keys().collect::<Vec<_>>()));
        }
    }
    if init == PubInit::DirP && !out_prev && !out_new && !(any_prev && any_new) {
        bad.push(format!("the previous set is no longer at the output path, the new set is not live, and not both copies survive on disk (previous somewhere: {any_prev}, new somewhere: {any_new}); top-level entries {tops:?}"));
    }
    if matches!(init, PubInit::Absent | PubInit::DanglingSymlink) && ex.result == "err" && !out_new && !any_new && ex.points.iter().any(|p| p.2 != 0) {
        // publish failed after a complete stage existed: with nothing at the output path the staged set is the only copy
        bad.push(format!("publishing failed and the freshly built set is gone (no previous output existed); top-level entries {tops:?}"));
    }
    if init == PubInit::File && !out_new && classify(&ex.tree, OUT_NAME) != Class::FileIntact {
        // a regular file at the output path is refused by design (the stage is discarded): the file itself must stay
        bad.push(format!("the regular file that was at the output path is gone or altered and the new set is not live; top-level entries {tops:?}"));
    }
    if ex.result != "crash" && (ex.result == "ok") != out_new {
        bad.push(format!("the call returned {} but the new set is{} live at the output path", ex.result, if out_new { "" } else { " not" }));
    }
    bad
}

struct Part3 {
    runs: u64,
    answers: u64,
    shapes: BTreeSet<u64>,
}

fn part3(rep: &Report, thorough: bool) -> Part3 {
    let mut st = Part3 { runs: 0, answers: 0, shapes: BTreeSet::new() };
    // reference: one fault-free run tells what the complete new set looks like
    let r0 = pub_run(PubInit::Absent, &[]);
    if r0.result != "ok" {
        machinery_error("fault-free generation through the entry point failed");
    }
    let reference: BTreeMap<String, usize> = files_of(&r0.tree, OUT_NAME).unwrap_or_default().into_iter().map(|(k, v)| (k, v.len())).collect();
    if !reference.contains_key("config.json") {
        machinery_error("reference generation has no config.json");
    }
    let inits: Vec<PubInit> = if thorough { vec![PubInit::DirP, PubInit::Absent, PubInit::File, PubInit::DanglingSymlink] } else { vec![PubInit::DirP, PubInit::Absent] };
    let par = 6;
    for init in inits {
        // wave-parallel exploration of the complete answer tree (quick: at most 2 non-default answers)
        let bound = if thorough { usize::MAX } else { 2 };
        let mut wave: Vec<Vec<u32>> = vec![vec![]];
        while !wave.is_empty() {
            let mut next: Vec<Vec<u32>> = Vec::new();
            for chunk in wave.chunks(par) {
                let rs: Vec<PubExec> = std::thread::scope(|s| {
                    let hs: Vec<_> = chunk.iter().map(|sc| s.spawn(move || pub_run(init, sc))).collect();
                    hs.into_iter().map(|h| h.join().unwrap_or_else(|_| machinery_error("publish runner thread panicked"))).collect()
                });
                for (sc, ex) in chunk.iter().zip(rs.iter()) {
                    st.runs += 1;
                    rep.eval(1);
                    st.answers += ex.points.len() as u64;
                    let taken: Vec<u32> = ex.points.iter().map(|p| p.2).collect();
                    if taken.len() < sc.len() || taken[..sc.len()] != sc[..] {
                        machinery_error("publish child did not replay its script prefix");
                    }
                    let names: Vec<String> = top_levels(&ex.tree).iter().map(|n| role(n)).collect();
                    st.shapes.insert(hash64(&(format!("{init:?}"), ex.result.clone(), names)));
                    if taken.iter().any(|&a| a != 0) {
                        rep.distinct(hash64(&(format!("{init:?}"), &taken)));
                    }
                    let bad = judge_pub(init, ex, &reference);
                    if !bad.is_empty() {
                        let script_txt: Vec<String> = ex.points.iter().map(|(k, _, a)| format!("{k}:{}", if k == "rename" { PUB_RENAME_ANS[*a as usize] } else { PUB_REMOVE_ANS[*a as usize] })).collect();
                        rep.violation(
                            &format!("publish-entry:{init:?}:{}", script_txt.join(">")),
                            &format!("generate_all_circuit_binaries with publish faults [{}] from initial state {init:?}: {}", script_txt.join(", "), bad.join(" | ")),
                            json!({"initial_state": format!("{init:?}"), "script": script_txt, "script_indices": taken, "result": ex.result, "final_top_level": top_levels(&ex.tree)}),
                        );
                    }
                    let devs: usize = taken.iter().filter(|&&a| a != 0).count();
                    for i in sc.len()..ex.points.len() {
                        let before: usize = taken[..i].iter().filter(|&&a| a != 0).count();
                        if before + 1 > bound {
                            continue;
                        }
                        for alt in 1..ex.points[i].1 {
                            let mut p = taken[..i].to_vec();
                            p.push(alt);
                            next.push(p);
                        }
                    }
                    let _ = devs;
                }
            }
            wave = next;
        }
    }
    st
}

/// --replay <file>: re-execute one recorded fault script (publish routine on its own, or
/// through the entry point in a child process) and judge the final tree. No evidence is written.
fn replay(path: &str) -> i32 {
    let v: Value = serde_json::from_str(&std::fs::read_to_string(path).unwrap_or_else(|e| machinery_error(&format!("replay file {path}: {e}")))).unwrap_or_else(|e| machinery_error(&format!("replay file {path}: {e}")));
    let key = v["key"].as_str().unwrap_or_else(|| machinery_error("replay file has no key"));
    let parts: Vec<&str> = key.splitn(3, ':').collect();
    let bad: Vec<String> = match parts.as_slice() {
        ["publish", init, script] => {
            let init = match *init {
                "Absent" => Init::Absent,
                "DirP" => Init::DirP,
                "File" => Init::File,
                x => machinery_error(&format!("unknown initial state {x}")),
            };
            let script: Vec<u32> = script.split('.').filter(|x| !x.is_empty()).map(|x| x.parse().unwrap_or_else(|_| machinery_error("bad script"))).collect();
            let ex = run_publish(init, &mut Choices::new(script.clone()));
            println!("publish from {init:?}, answers {script:?}: calls [{}] -> {:?}", ex.trace.join("; "), ex.outcome);
            println!("final tree: {:?}", shape(&ex.tree));
            judge(init, &ex)
        }
        ["publish-entry", init, _] => {
            let init = match *init {
                "Absent" => PubInit::Absent,
                "DirP" => PubInit::DirP,
                "File" => PubInit::File,
                "DanglingSymlink" => PubInit::DanglingSymlink,
                x => machinery_error(&format!("unknown initial state {x}")),
            };
            let script: Vec<u32> = v["case"]["script_indices"].as_array().map(|a| a.iter().filter_map(|x| x.as_u64().map(|y| y as u32)).collect()).unwrap_or_else(|| machinery_error("replay file has no script_indices"));
            let r0 = pub_run(PubInit::Absent, &[]);
            let reference: BTreeMap<String, usize> = files_of(&r0.tree, OUT_NAME).unwrap_or_default().into_iter().map(|(k, v)| (k, v.len())).collect();
            let ex = pub_run(init, &script);
            println!("generate_all_circuit_binaries from {init:?}, answers {script:?}: result {}", ex.result);
            println!("final top level: {:?}", top_levels(&ex.tree));
            judge_pub(init, &ex, &reference)
        }
        _ => machinery_error("replay: only publish / publish-entry fault scripts are replayable (stage-fault runs: re-run ./check C23 quick)"),
    };
    if bad.is_empty() {
        println!("every oracle holds on the recorded script");
        0
    } else {
        for b in &bad {
            println!("  C23: {b}");
        }
        println!("VIOLATION property=C23 replay={path}");
        1
    }
}

fn main() {
    let args: Vec<String> = std::env::args().collect();
    if let Some(i) = args.iter().position(|a| a == "--pub-child") {
        pub_child(&args[i + 1..]);
    }
    if let Some(i) = args.iter().position(|a| a == "--gen-child") {
        gen_child(&args[i + 1..]);
    }
    quiet_panics();
    if let Some(path) = arg_value("--replay") {
        std::process::exit(replay(&path));
    }
    let tier = tier_from_args();
    let thorough = tier == "thorough";
    let rep = Report::new("C23", "fault_enumeration", &tier);

    let p1 = part1(&rep);
    let p2 = part2(&rep, thorough);
    let p3 = part3(&rep, thorough);
    rep.extra("entry_point_publish_fault_runs", json!(p3.runs));
    rep.extra("entry_point_publish_injected_answers", json!(p3.answers));
    rep.extra("entry_point_publish_distinct_final_shapes", json!(p3.shapes.len()));

    let states = p1.shapes.len() as u64 + p2.shapes.len() as u64;
    rep.extra("states", json!(states));
    rep.extra("transitions", json!(p1.edges + p2.answers));
    rep.extra("publish_scripts_explored", json!(p1.scripts));
    rep.extra("publish_scripts_per_initial_state", json!(p1.per_init));
    rep.extra("publish_injected_call_answers", json!(p1.edges));
    rep.extra("publish_max_faults_in_one_script", json!(p1.max_faults));
    rep.extra("publish_distinct_final_tree_shapes", json!(p1.shapes.len()));
    rep.extra("publish_distinct_outcome_classes (initial state, result kind, final tree shape)", json!(p1.outcome_classes.len()));
    rep.extra("publish_call_sites_seen", json!(p1.call_sites));
    rep.extra("generation_runs_total", json!(p2.runs));
    rep.extra("generation_distinct_final_shapes", json!(p2.shapes.len()));
    rep.extra(
        "alphabet",
        json!({"rename": RENAME_ANS, "remove_dir_all": REMOVE_ANS, "stage hook": ["ok", "error", "crash (process abort)"], "initial states": ["output absent", "output = directory P (2 files)", "output = regular file"]}),
    );
    rep.rule("part 3: the same answer tree (rename: ok/error/crash-before/crash-after; remove: ok/error/crash-before/partial+error) driven THROUGH generate_all_circuit_binaries in child processes (real generation, real commit, hook H7b on the real rename), from output=previous set / absent (thorough: also regular file, dangling symlink; quick bounds the script to 2 faults); part 1: every answer script of the choice tree over all rename / remove_dir_all calls of commit_staging_dir_impl (answers: ok, error, crash-before, crash-after; removes also partial+error, partial+crash), unbounded number of faults, from 3 initial states, on real directories; part 2: generate_all_circuit_binaries in a child process with the stage hook answering ok / error / crash at every stage boundary (a fault ends the run, so the answer tree of a configuration is enumerated completely). distinct_nontrivial = distinct (initial state or configuration, answer script) containing at least one injected fault or crash");
    rep.assume("a crash inside the publish routine is a panic out of the injected call (caught by the harness); unwinding would run destructors, the routine holds no guard objects. A crash during generation is a real process abort of a child process");
    rep.assume("fault model: an erroring rename/remove did not perform its operation (removes may also have removed half of the tree); rename itself is atomic (no half-renamed directory), as on a POSIX filesystem");
    rep.assume("local filesystem races and symlinks are out of scope (the crate's stated trust boundary)");
    std::process::exit(rep.finish());
}
