//! C10: aggregation outputs leave no witness freedom. Every hint deviation (d<=1, d<=2 on the
//! smallest wrappers) on the wrapper-only private/public batch circuits and on the
//! `bytes_digest_eq` gadget; the comparison/sorting gadgets are driven the same way by the
//! C30/C31 checks (shared engine).
use plonky2::iop::target::Target;
use plonky2::plonk::circuit_builder::CircuitBuilder;
use plonky2::plonk::circuit_data::CircuitConfig;
use rayon::prelude::*;
use serde_json::json;
use std::sync::atomic::{AtomicU64, Ordering};
use vharness::cx::{f, Cx, Dev, MenuMode, Verdict, C, D, F, P};
use vharness::leafx::LeafCtx;
use vharness::mcx::*;
use vharness::privx::*;
use vharness::wrapref::*;

struct Cnt {
    execs: AtomicU64,
    edges: AtomicU64,
    acc_dev: AtomicU64,
    honest_rej: AtomicU64,
}

fn drive(cx: &Cx, inputs: &[(Target, F)], dmax: usize, rep: &Report, cnt: &Cnt, label: &str, case: &serde_json::Value) {
    let mut honest: Option<Option<Vec<u64>>> = None;
    let n = cx.explore_devs(inputs, &[], dmax, &mut |script: &[Dev], v: &Verdict| {
        cnt.edges.fetch_add(script.len() as u64, Ordering::Relaxed);
        if script.is_empty() {
            honest = Some(match v {
                Verdict::Accept { pis, .. } => Some(pis.clone()),
                _ => None,
            });
            if honest.as_ref().unwrap().is_none() {
                cnt.honest_rej.fetch_add(1, Ordering::Relaxed);
            }
            return;
        }
        let devj = || json!(script.iter().map(|d| json!({"gen": d.gen, "id": cx.ids[d.gen], "alt": d.alt})).collect::<Vec<_>>());
        if let Verdict::Accept { pis, .. } = v {
            cnt.acc_dev.fetch_add(1, Ordering::Relaxed);
            match honest.as_ref().unwrap() {
                None => rep.violation(
                    &format!("flip:{label}:{script:?}"),
                    &format!("{label}: a batch whose honest witness fails is made to pass by choosing different hint values"),
                    json!({"case": case, "deviations": devj(), "output": pis}),
                ),
                Some(h) => {
                    if h != pis {
                        rep.violation(
                            &format!("freedom:{label}:{script:?}"),
                            &format!("{label}: two satisfying witnesses for the same child inputs yield different public outputs"),
                            json!({"case": case, "deviations": devj(), "honest_output": h, "deviated_output": pis}),
                        );
                    }
                }
            }
        }
    });
    cnt.execs.fetch_add(n, Ordering::Relaxed);
}

fn main() {
    quiet_panics();
    let tier = tier_from_args();
    let thorough = tier == "thorough";
    let rep = Report::new("C10", "model_checking", &tier);
    let cnt = Cnt { execs: AtomicU64::new(0), edges: AtomicU64::new(0), acc_dev: AtomicU64::new(0), honest_rej: AtomicU64::new(0) };
    let leaf = LeafCtx::new();
    let al = Alpha::new();
    let mid = al.mid();
    let small = al.small();
    let mut plan = serde_json::Map::new();

    // ---- private wrapper N=2 and N=3 ----
    for (n, dmax) in [(2usize, if thorough { 2 } else { 1 }), (3usize, 1usize)] {
        let w = build_priv_wrapper(n, &leaf.data.common);
        let mut cx = Cx::new(&w.data);
        cx.mode = MenuMode::Hints;
        let pool: Vec<Vec<usize>> = if n == 2 { mid.clone() } else { small.clone() };
        let mut vectors: Vec<Vec<Slot>> = Vec::new();
        // deterministic sub-alphabet: stride through the product
        let want = if n == 2 { if thorough { 300 } else { 90 } } else if thorough { 60 } else { 10 };
        let total = pool.len().pow(n as u32);
        let stride = (total / want).max(1) | 1;
        let mut k = 0usize;
        while k < total && vectors.len() < want {
            let mut idx = k;
            let mut v = Vec::new();
            for _ in 0..n {
                v.push(al.slot(&pool[idx % pool.len()]));
                idx /= pool.len();
            }
            vectors.push(v);
            k += stride;
        }
        // always include the interesting corners: sums at 2^32-1 / 2^32, duplicate nullifier, all dummy
        let b = al.bases();
        let ra = al.slot(&b[0]);
        let rb = al.slot(&b[1]);
        let dz = al.slot(&b[2]);
        let mut big1 = ra.clone();
        big1.a1 = TWO32 - 1;
        big1.a2 = 0;
        let mut big2 = rb.clone();
        big2.e1 = ra.e1;
        big2.a1 = 1;
        big2.a2 = 0; // group sum exactly 2^32 -> reject
        let mut big3 = big2.clone();
        big3.a1 = 0; // group sum 2^32-1 -> accept
        let mut dupn = rb.clone();
        dupn.nullifier = ra.nullifier;
        // nullifiers whose limbs have a +p alias (values < 2^32-1): the sort must not be steerable
        let mut sm1 = ra.clone();
        sm1.nullifier = [0, 0, 0, 1];
        let mut sm2 = rb.clone();
        sm2.nullifier = [0, 0, 0, 0];
        let mut sm3 = rb.clone();
        sm3.nullifier = [TWO32 - 2, 5, 0, 7];
        for pair in [[big1.clone(), big2], [big1.clone(), big3], [ra.clone(), dupn], [dz.clone(), dz.clone()], [dz.clone(), ra.clone()], [sm1.clone(), sm2.clone()], [sm2, sm3.clone()], [sm3, sm1]] {
            let mut v: Vec<Slot> = pair.to_vec();
            while v.len() < n {
                v.push(dz.clone());
            }
            vectors.push(v);
        }
        let d2_on = if thorough { 40 } else { 0 };
        vectors.par_iter().enumerate().for_each(|(vi, slots)| {
            let case = json!({"circuit": format!("private wrapper N={n}"), "slots": slots.iter().map(|s| s.pis()).collect::<Vec<_>>()});
            let d = if dmax == 2 && vi < d2_on { 2 } else { 1 };
            drive(&cx, &w.inputs(slots), d, &rep, &cnt, &format!("private wrapper N={n}"), &case);
            rep.distinct(hash64(&(n, slots)));
        });
        plan.insert(format!("private N={n}"), json!({"vectors": vectors.len(), "hint_generators": cx.classes.iter().filter(|c| c.is_hint()).count(), "d": dmax, "d2_vectors": d2_on}));
        rep.sample(json!({"circuit": format!("private wrapper N={n}"), "slots": vectors[0].iter().map(|s| s.pis()).collect::<Vec<_>>()}));
    }

    // ---- public wrapper M=2,N=1 and M=3,N=1: all header vectors ----
    for (m, dmax) in [(2usize, if thorough { 2 } else { 1 }), (3usize, 1usize)] {
        let w = build_pub_wrapper(m, 1, &leaf.data.common);
        let cx = Cx::new(&w.data);
        let b1 = dig(1);
        let bhs = [Z4, b1, dig(2), bump(b1, 3), shift(b1)];
        let mut heads: Vec<Vec<usize>> = Vec::new();
        product_indices(&[5, 2, 2], |ix| heads.push(ix.to_vec()));
        let mk = |ix: &Vec<usize>, k: u64| {
            let mut pis = vec![2, [0u64, 1][ix[1]], [0u64, 7][ix[2]]];
            pis.extend_from_slice(&bhs[ix[0]]);
            pis.push(3 + k);
            for s in 0..2u64 {
                pis.push(5 + s + k);
                pis.extend_from_slice(&dig(100 + s + 10 * k));
            }
            pis.extend_from_slice(&dig(200 + k));
            pis.resize(29, 0);
            Inner { pis }
        };
        let mut vecs: Vec<Vec<usize>> = Vec::new();
        product_indices(&vec![heads.len(); m], |ix| vecs.push(ix.to_vec()));
        if m == 3 && !thorough {
            vecs.retain(|v| (v[0] + 3 * v[1] + 5 * v[2]) % 16 == 0);
        }
        vecs.par_iter().for_each(|v| {
            let inners: Vec<Inner> = v.iter().enumerate().map(|(k, &a)| mk(&heads[a], k as u64)).collect();
            let addr = [P - 1, 1, 2, 3];
            let case = json!({"circuit": format!("public wrapper M={m},N=1"), "inners": inners.iter().map(|i| i.pis.clone()).collect::<Vec<_>>()});
            drive(&cx, &w.inputs(addr, &inners), dmax, &rep, &cnt, &format!("public wrapper M={m}"), &case);
            rep.distinct(hash64(&(m, v)));
        });
        plan.insert(format!("public M={m},N=1"), json!({"vectors": vecs.len(), "hint_generators": cx.classes.iter().filter(|c| c.is_hint()).count(), "d": dmax}));
    }

    // ---- bytes_digest_eq ----
    {
        let mut b = CircuitBuilder::<F, D>::new(CircuitConfig::standard_recursion_config());
        let a: [Target; 4] = core::array::from_fn(|_| b.add_virtual_target());
        let c: [Target; 4] = core::array::from_fn(|_| b.add_virtual_target());
        let e = zk_circuits_common::gadgets::bytes_digest_eq(&mut b, a, c);
        b.register_public_input(e.target);
        let data = b.build::<C>();
        let cx = Cx::new(&data);
        let vals: Vec<u64> = vec![0, 1, P - 1];
        let mut n = 0;
        let mut pairs: Vec<(Vec<u64>, Vec<u64>)> = Vec::new();
        product_indices(&[3; 8], |ix| pairs.push((ix[..4].iter().map(|&i| vals[i]).collect(), ix[4..].iter().map(|&i| vals[i]).collect())));
        if !thorough {
            pairs.retain(|(x, y)| x == y || (0..4).filter(|&i| x[i] != y[i]).count() <= 2);
        }
        for (x, y) in &pairs {
            let mut inputs = Vec::new();
            for i in 0..4 {
                inputs.push((a[i], f(x[i])));
                inputs.push((c[i], f(y[i])));
            }
            let want = if x == y { 1 } else { 0 };
            let case = json!({"gadget": "bytes_digest_eq", "a": x, "b": y});
            let mut honest_ok = false;
            let k = cx.explore_devs(&inputs, &[], 2, &mut |script: &[Dev], v: &Verdict| {
                cnt.edges.fetch_add(script.len() as u64, Ordering::Relaxed);
                if let Verdict::Accept { pis, .. } = v {
                    if script.is_empty() {
                        honest_ok = true;
                    } else {
                        cnt.acc_dev.fetch_add(1, Ordering::Relaxed);
                    }
                    if pis[0] != want {
                        rep.violation(&format!("digest-eq:{x:?}:{y:?}:{script:?}"), &format!("bytes_digest_eq yields {} for a={x:?} b={y:?}", pis[0]), json!({"case": case, "deviations": format!("{script:?}")}));
                    }
                }
            });
            if !honest_ok {
                rep.violation(&format!("digest-eq-complete:{x:?}:{y:?}"), "bytes_digest_eq honest witness rejected", case.clone());
            }
            cnt.execs.fetch_add(k, Ordering::Relaxed);
            rep.distinct(hash64(&(x, y)));
            n += 1;
        }
        plan.insert("bytes_digest_eq".into(), json!({"pairs": n, "d": 2}));
    }

    // ---- free-input census: with the child inputs / preimages / address set, nothing is left blocked
    {
        let w = build_priv_wrapper(2, &leaf.data.common);
        let cx = Cx::new(&w.data);
        let b = al.bases();
        let slots = vec![al.slot(&b[0]), al.slot(&b[2])];
        let mut inputs = w.inputs(&slots);
        let blocked = cx.blocked_generators(&inputs);
        if !blocked.is_empty() {
            rep.violation("census:private", &format!("private wrapper has free targets beyond child public inputs and preimages: {blocked:?}"), json!({"blocked": blocked}));
        }
        // and with a preimage left unset the circuit must be blocked (the census sees real freedom)
        inputs.truncate(inputs.len() - 4);
        if cx.blocked_generators(&inputs).is_empty() {
            machinery_error("census self-test: removing a declared free input did not block any generator");
        }
    }

    let execs = cnt.execs.load(Ordering::Relaxed);
    rep.eval(execs);
    rep.states.store(execs, Ordering::Relaxed);
    rep.transitions.store(cnt.edges.load(Ordering::Relaxed).max(1), Ordering::Relaxed);
    rep.traces.store(execs, Ordering::Relaxed);
    rep.extra("plan", json!(plan));
    rep.extra("accepted_deviated_runs (all had the honest output)", json!(cnt.acc_dev.load(Ordering::Relaxed)));
    rep.extra("vectors_whose_honest_witness_fails", json!(cnt.honest_rej.load(Ordering::Relaxed)));
    rep.extra("gadget deviations", json!("is_const_less_than / enforce_target_less_than_const / sort_digests4 are explored with the same deviation engine by the C30 and C31 checks"));
    rep.rule("case = fixed child public inputs (+preimages / address); every script of <= d deviated hint generators (decompositions of v+p/v+2p, +-1, borrow, swapped; equality flag flipped / inverse 0,+1 / flag 2; bit flips) is executed on the real wrapper constraint system; oracle: every ACCEPTing run has the honest run's public output, and no deviation turns an honest REJECT into ACCEPT; distinct = distinct input vectors");
    rep.assume("menus cover the generators whose output is not a function of their own gate (WireSplit, BaseSplit, LowHigh, Equality); arithmetic/Poseidon/constant generators are pinned by their own gate (shown by exhaustion on the leaf circuit in C01's thorough tier)");
    std::process::exit(rep.finish());
}
