//! C32 — Debug output never reveals secret or deposit-identifying data.
//!
//! For every value pattern, every type named by the property is built through each of its
//! constructors and rendered with `{:?}`, `{:#?}`, `{:x?}`, `{:X?}` and `{:#x?}`. Every
//! rendering is searched for every needle of every private value of that pattern: hex of the
//! whole value and of every limb / 4-byte run (both byte orders, padded and unpadded), decimal
//! of the integer, of its 128/64/32-bit parts (both endiannesses) and of its felt encodings,
//! and byte lists (`a, b, c, d`, decimal and hex). Non-vacuity: a public field of the same
//! object must be visible. A needle that also occurs in the object's public fields, or in the
//! rendering of a twin object holding OTHER private values, is ambiguous: a machinery error.
use plonky2::field::types::PrimeField64;
use rayon::prelude::*;
use serde_json::json;
use std::fmt::Debug;
use vharness::mcx::*;
use wormhole_circuit::block_header::header::HeaderInputs;
use wormhole_circuit::block_header::BlockHeader;
use wormhole_circuit::inputs::{CircuitInputs, PrivateCircuitInputs, PublicCircuitInputs};
use wormhole_circuit::nullifier::Nullifier;
use wormhole_circuit::sensitive::Secret;
use wormhole_circuit::unspendable_account::UnspendableAccount;
use wormhole_circuit::zk_merkle_proof::{ZkLeafData, ZkMerkleProofData};
use wormhole_prover::WormholeProver;
use zk_circuits_common::circuit::F;
use zk_circuits_common::utils::{bytes_to_felts, digest_to_bytes, BytesDigest};

const P_ORDER: u64 = 0xFFFF_FFFF_0000_0001;
const DEPTH: usize = 5;

// ---------------------------------------------------------------------------------
// values
// ---------------------------------------------------------------------------------

#[derive(Clone)]
struct Private {
    secret: [u8; 32],
    tc: u64,
    account: [u8; 32],
    digest: [u8; 110],
    amount: u32,
    siblings: Vec<[[u8; 32]; 3]>,
    positions: Vec<u8>,
}
#[derive(Clone)]
struct Public {
    asset_id: u32,
    out1: u32,
    out2: u32,
    fee: u32,
    nullifier: [u8; 32],
    exit1: [u8; 32],
    exit2: [u8; 32],
    block_hash: [u8; 32],
    block_number: u32,
    parent_hash: [u8; 32],
    state_root: [u8; 32],
    extrinsics_root: [u8; 32],
    zk_tree_root: [u8; 32],
}

fn canonical(b: &[u8; 32]) -> bool {
    (0..4).all(|i| u64::from_le_bytes(b[i * 8..i * 8 + 8].try_into().unwrap()) < P_ORDER)
}

/// one distinctive 32-byte value of structured pattern `k`, value index `j`: pairwise distinct
/// bytes, canonical limbs
fn structured32(k: usize, j: usize) -> [u8; 32] {
    let mut b = [0u8; 32];
    for (i, x) in b.iter_mut().enumerate() {
        let (i, j) = (i as u32, j as u32);
        *x = match k {
            0 => (1 + 33 * j + i) % 255,                  // ascending run
            1 => (250 + 255 * 8 - 29 * j - i) % 255,      // descending run
            2 => 0x80 + (i * 3 + j * 7) % 0x7f,           // high-bit bytes 0x80..0xfe
            3 => (i * 37 + j * 11 + 5) % 251,             // scattered
            4 => 0x21 + (i * 5 + j * 13) % 94,            // printable ASCII
            _ => {
                let v = (i * 41 + j * 17 + 9) % 251;
                if v == 0 { 251 } else { v }               // scattered, then one leading-zero limb below
            }
        } as u8;
    }
    if k == 5 {
        b[7] = 0; // limb 0 has a leading zero byte: unpadded and padded hex differ
    }
    // keep every limb canonical without introducing a repeated byte
    for l in 0..4 {
        if b[l * 8 + 7] == 0xFF {
            b[l * 8 + 7] = 0xFE;
        }
    }
    let distinct = (0..32).all(|i| (0..i).all(|j| b[i] != b[j]));
    if !distinct || !canonical(&b) {
        machinery_error(&format!("structured value ({k},{j}) is not distinctive/canonical: {}", hex::encode(b)));
    }
    b
}

struct Rng(u64);
impl Rng {
    fn next(&mut self) -> u64 {
        // splitmix64
        self.0 = self.0.wrapping_add(0x9E3779B97F4A7C15);
        let mut z = self.0;
        z = (z ^ (z >> 30)).wrapping_mul(0xBF58476D1CE4E5B9);
        z = (z ^ (z >> 27)).wrapping_mul(0x94D049BB133111EB);
        z ^ (z >> 31)
    }
    fn bytes32(&mut self) -> [u8; 32] {
        let mut b = [0u8; 32];
        for l in 0..4 {
            let mut v = self.next();
            if v >= P_ORDER {
                v &= 0x7FFF_FFFF_FFFF_FFFF;
            }
            b[l * 8..l * 8 + 8].copy_from_slice(&v.to_le_bytes());
        }
        b
    }
}

fn private_structured(k: usize) -> Private {
    let mut digest = [0u8; 110];
    for (i, x) in digest.iter_mut().enumerate() {
        // 110 pairwise distinct bytes, different order per pattern
        *x = ((i as u32 * [1u32, 3, 5, 7, 9, 11][k] + 40 * k as u32 + 17) % 251) as u8;
    }
    Private {
        secret: structured32(k, 0),
        tc: if k == 5 { u64::MAX - 12_345 } else { ((100_003 + 7_919 * k as u64) << 32) | (200_003 + 104_729 * k as u64) },
        account: structured32(k, 1),
        digest,
        amount: if k == 5 { u32::MAX - 54_321 } else { 123_457 + 1_000_003 * k as u32 },
        siblings: (0..DEPTH).map(|l| [structured32(k, 2 + 3 * l), structured32(k, 3 + 3 * l), structured32(k, 4 + 3 * l)]).collect(),
        positions: (0..DEPTH).map(|l| [[1u8, 2, 0, 3, 2], [3, 0, 1, 2, 1], [2, 3, 3, 0, 1], [0, 2, 1, 3, 3], [3, 1, 2, 0, 2], [1, 3, 0, 2, 0]][k][l]).collect(),
    }
}

fn private_random(seed: u64) -> Private {
    let mut r = Rng(0xC32_0000 + seed);
    let mut digest = [0u8; 110];
    for x in digest.iter_mut() {
        *x = r.next() as u8;
    }
    let mut tc = r.next();
    if (tc >> 32) < 100_000 || (tc & 0xFFFF_FFFF) < 100_000 {
        tc |= 0x0010_0000_0010_0000;
    }
    Private {
        secret: r.bytes32(),
        tc,
        account: r.bytes32(),
        digest,
        amount: (r.next() as u32) | 0x0010_0000,
        siblings: (0..DEPTH).map(|_| [r.bytes32(), r.bytes32(), r.bytes32()]).collect(),
        positions: (0..DEPTH).map(|_| (r.next() % 4) as u8).collect(),
    }
}

fn public_for(k: usize) -> Public {
    let mut r = Rng(0xBEEF_0000 + k as u64);
    Public {
        asset_id: k as u32,
        out1: 900 + k as u32,
        out2: 90 + k as u32,
        fee: 10 + k as u32,
        nullifier: r.bytes32(),
        exit1: r.bytes32(),
        exit2: r.bytes32(),
        block_hash: r.bytes32(),
        block_number: 7_000 + k as u32,
        parent_hash: r.bytes32(),
        state_root: r.bytes32(),
        extrinsics_root: r.bytes32(),
        zk_tree_root: r.bytes32(),
    }
}

/// public-value variants: 0 = distinctive values, 1 = the dummy sentinel (zero block hash, zero
/// outputs) next to REAL private data, 2 = degenerate zero publics with a real block hash.
/// Redaction must not depend on what the public half looks like.
fn public_variant(mut pu: Public, v: usize) -> Public {
    match v {
        1 => {
            pu.block_hash = [0u8; 32];
            pu.out1 = 0;
            pu.out2 = 0;
        }
        2 => {
            pu.asset_id = 0;
            pu.fee = 0;
            pu.out1 = 0;
            pu.out2 = 0;
            pu.nullifier = [0u8; 32];
            pu.exit1 = [0u8; 32];
            pu.exit2 = [0u8; 32];
            pu.block_number = 0;
        }
        _ => {}
    }
    pu
}
thread_local! {
    static NOT_DUMMY_FLAG: std::cell::Cell<bool> = const { std::cell::Cell::new(true) };
}

fn bd(b: [u8; 32]) -> BytesDigest {
    BytesDigest::try_from(b).unwrap_or_else(|_| machinery_error("value is not a canonical digest"))
}

fn inputs(pu: &Public, pr: &Private) -> CircuitInputs {
    CircuitInputs {
        public: PublicCircuitInputs {
            asset_id: pu.asset_id,
            output_amount_1: pu.out1,
            output_amount_2: pu.out2,
            volume_fee_bps: pu.fee,
            nullifier: bd(pu.nullifier),
            exit_account_1: bd(pu.exit1),
            exit_account_2: bd(pu.exit2),
            block_hash: bd(pu.block_hash),
            block_number: pu.block_number,
        },
        private: private_inputs(pu, pr),
    }
}
fn private_inputs(pu: &Public, pr: &Private) -> PrivateCircuitInputs {
    PrivateCircuitInputs {
        secret: Secret::from(bd(pr.secret)),
        transfer_count: pr.tc,
        unspendable_account: bd(pr.account),
        parent_hash: bd(pu.parent_hash),
        state_root: bd(pu.state_root),
        extrinsics_root: bd(pu.extrinsics_root),
        digest: pr.digest,
        input_amount: pr.amount,
        zk_tree_root: pu.zk_tree_root,
        zk_merkle_siblings: pr.siblings.clone(),
        zk_merkle_positions: pr.positions.clone(),
    }
}

// ---------------------------------------------------------------------------------
// needles
// ---------------------------------------------------------------------------------

#[derive(Clone)]
struct Needle {
    /// lower-case text searched in the lower-cased, whitespace-normalised rendering
    text: String,
    /// must not be preceded or followed by an alphanumeric character (short decimals, lists)
    bounded: bool,
    what: String,
}

fn dec_bytes_le(b: &[u8]) -> String {
    // decimal of the little-endian integer
    let mut digits: Vec<u8> = vec![0];
    for &byte in b.iter().rev() {
        let mut carry = byte as u32;
        for d in digits.iter_mut() {
            let v = *d as u32 * 256 + carry;
            *d = (v % 10) as u8;
            carry = v / 10;
        }
        while carry > 0 {
            digits.push((carry % 10) as u8);
            carry /= 10;
        }
    }
    digits.iter().rev().map(|d| (b'0' + d) as char).collect()
}

struct NeedleSet {
    v: Vec<Needle>,
    seen: std::collections::HashSet<(String, bool)>,
}
impl NeedleSet {
    fn new() -> Self {
        Self { v: vec![], seen: Default::default() }
    }
    fn add(&mut self, text: String, bounded: bool, what: &str) {
        let text = text.to_lowercase();
        if text.is_empty() {
            return;
        }
        if self.seen.insert((text.clone(), bounded)) {
            self.v.push(Needle { text, bounded, what: what.to_string() });
        }
    }
    /// a number: plain substring if it has at least 7 characters, whole token if 5 or 6
    fn num(&mut self, text: String, what: &str) {
        // numbers with fewer than 5 characters (a terminator felt `1`, a small word) are not
        // distinctive and are not searched on their own
        if text.len() < 5 {
            return;
        }
        let b = text.len() < 7;
        self.add(text, b, what);
    }
    fn u64_forms(&mut self, v: u64, what: &str) {
        self.num(format!("{v}"), &format!("{what}: decimal"));
        self.num(format!("{v:x}"), &format!("{what}: hex"));
        self.num(format!("{v:016x}"), &format!("{what}: padded hex"));
    }
    fn u32_forms(&mut self, v: u32, what: &str) {
        self.num(format!("{v}"), &format!("{what}: decimal"));
        self.num(format!("{v:x}"), &format!("{what}: hex"));
        self.num(format!("{v:08x}"), &format!("{what}: padded hex"));
    }
    fn list_forms(&mut self, run: &[u8], what: &str) {
        let j = |f: &dyn Fn(&u8) -> String| run.iter().map(f).collect::<Vec<_>>().join(", ");
        self.add(j(&|b| format!("{b}")), true, &format!("{what}: decimal byte list"));
        self.add(j(&|b| format!("{b:x}")), true, &format!("{what}: hex byte list"));
        self.add(j(&|b| format!("{b:02x}")), true, &format!("{what}: padded hex byte list"));
        self.add(j(&|b| format!("{b:#x}")), true, &format!("{what}: 0x byte list"));
        self.add(j(&|b| format!("{b:#04x}")), true, &format!("{what}: padded 0x byte list"));
    }
    /// every rendering of a byte string (32-byte digests, the 110-byte digest logs)
    fn bytes(&mut self, b: &[u8], name: &str) {
        let hexs = hex::encode(b);
        let rev: Vec<u8> = b.iter().rev().copied().collect();
        self.add(hexs.clone(), false, &format!("{name}: whole value, hex"));
        self.add(hex::encode(&rev), false, &format!("{name}: whole value, reversed hex"));
        if b.len() == 32 {
            self.add(dec_bytes_le(b), false, &format!("{name}: 256-bit integer (LE), decimal"));
            self.add(dec_bytes_le(&rev), false, &format!("{name}: 256-bit integer (BE), decimal"));
            for h in 0..2 {
                let s = &b[h * 16..h * 16 + 16];
                self.num(format!("{}", u128::from_le_bytes(s.try_into().unwrap())), &format!("{name}: u128 half {h} (LE), decimal"));
                self.num(format!("{}", u128::from_be_bytes(s.try_into().unwrap())), &format!("{name}: u128 half {h} (BE), decimal"));
            }
        }
        for (l, c) in b.chunks_exact(8).enumerate() {
            let le = u64::from_le_bytes(c.try_into().unwrap());
            let be = u64::from_be_bytes(c.try_into().unwrap());
            self.u64_forms(le, &format!("{name}: u64 limb {l} (LE) = felt (8 bytes/felt)"));
            self.u64_forms(be, &format!("{name}: u64 limb {l} (BE)"));
        }
        for (w, c) in b.chunks_exact(4).enumerate() {
            let le = u32::from_le_bytes(c.try_into().unwrap());
            let be = u32::from_be_bytes(c.try_into().unwrap());
            self.u32_forms(le, &format!("{name}: u32 word {w} (LE) = felt (4 bytes/felt)"));
            self.u32_forms(be, &format!("{name}: u32 word {w} (BE)"));
        }
        if b.len() >= 4 {
            for o in 0..=b.len() - 4 {
                let run = &b[o..o + 4];
                self.add(hex::encode(run), false, &format!("{name}: 4-byte run at {o}, hex"));
                self.add(hex::encode(run.iter().rev().copied().collect::<Vec<u8>>()), false, &format!("{name}: 4-byte run at {o}, reversed hex"));
                self.list_forms(run, &format!("{name}: bytes {o}..{}", o + 4));
            }
        }
        // the repo's own injective felt encoding (4 bytes/felt + terminator)
        if let Ok(felts) = bytes_to_felts(b) {
            for (i, f) in felts.iter().enumerate() {
                self.num(format!("{}", f.to_canonical_u64()), &format!("{name}: bytes_to_felts()[{i}], decimal"));
                self.num(format!("{:x}", f.to_canonical_u64()), &format!("{name}: bytes_to_felts()[{i}], hex"));
            }
        }
    }
    fn u64(&mut self, v: u64, name: &str) {
        self.u64_forms(v, name);
        self.u32_forms((v >> 32) as u32, &format!("{name}: high 32 bits (felt 0)"));
        self.u32_forms(v as u32, &format!("{name}: low 32 bits (felt 1)"));
        self.list_forms(&v.to_le_bytes(), &format!("{name}: LE bytes"));
        self.list_forms(&v.to_be_bytes(), &format!("{name}: BE bytes"));
        self.list_forms(&v.to_le_bytes()[..4], &format!("{name}: LE bytes 0..4"));
        self.list_forms(&v.to_le_bytes()[4..], &format!("{name}: LE bytes 4..8"));
    }
    fn u32(&mut self, v: u32, name: &str) {
        self.u32_forms(v, name);
        self.list_forms(&v.to_le_bytes(), &format!("{name}: LE bytes"));
        self.list_forms(&v.to_be_bytes(), &format!("{name}: BE bytes"));
    }
}

fn needles_of(pr: &Private) -> Vec<Needle> {
    let mut n = NeedleSet::new();
    n.bytes(&pr.secret, "secret");
    n.bytes(&pr.account, "deposit account");
    n.u64(pr.tc, "transfer count");
    n.u32(pr.amount, "input amount");
    n.bytes(&pr.digest, "digest logs");
    for (l, lvl) in pr.siblings.iter().enumerate() {
        for (s, sib) in lvl.iter().enumerate() {
            n.bytes(sib, &format!("sibling[{l}][{s}]"));
        }
    }
    n.list_forms(&pr.positions, "positions");
    for o in 0..=pr.positions.len() - 4 {
        n.list_forms(&pr.positions[o..o + 4], &format!("positions {o}..{}", o + 4));
    }
    n.v
}

fn normalise(s: &str) -> String {
    let mut out = String::with_capacity(s.len());
    let mut ws = false;
    for c in s.chars() {
        if c.is_whitespace() {
            ws = true;
        } else {
            if ws && !out.ends_with(['[', '(', '{']) && !out.is_empty() {
                out.push(' ');
            }
            ws = false;
            out.extend(c.to_lowercase());
        }
    }
    out
}

fn occurs(hay: &str, n: &Needle) -> bool {
    if !n.bounded {
        return hay.contains(n.text.as_str());
    }
    let hb = hay.as_bytes();
    let mut from = 0;
    while let Some(p) = hay[from..].find(n.text.as_str()) {
        let s = from + p;
        let e = s + n.text.len();
        let before = s == 0 || !hb[s - 1].is_ascii_alphanumeric();
        let after = e == hb.len() || !hb[e].is_ascii_alphanumeric();
        if before && after {
            return true;
        }
        from = s + 1;
    }
    false
}

// ---------------------------------------------------------------------------------
// objects
// ---------------------------------------------------------------------------------

const FORMATS: [&str; 5] = ["{:?}", "{:#?}", "{:x?}", "{:X?}", "{:#x?}"];
fn render(o: &dyn Debug, f: usize) -> String {
    match f {
        0 => format!("{o:?}"),
        1 => format!("{o:#?}"),
        2 => format!("{o:x?}"),
        3 => format!("{o:X?}"),
        _ => format!("{o:#x?}"),
    }
}

enum Obj {
    Live(Box<dyn Debug>),
    /// renderings taken earlier (the uncommitted prover is consumed by `commit`)
    Pre([String; 5]),
}
impl Obj {
    fn render(&self, f: usize) -> String {
        match self {
            Obj::Live(o) => render(&**o, f),
            Obj::Pre(r) => r[f].clone(),
        }
    }
}

/// one built object: the value, its public parts (rendered alone for the ambiguity check and
/// the non-vacuity check), literal markers that must be visible, extra private values that
/// only exist after construction (a derived account id)
struct Built {
    kind: &'static str,
    obj: Obj,
    publics: Vec<Box<dyn Debug>>,
    /// index into `publics` of a scalar/one-line value whose rendering must be visible
    visible: Option<usize>,
    literals: Vec<&'static str>,
    extra_private: Vec<(String, Vec<u8>)>,
}

fn felts4(b: [u8; 32]) -> [F; 4] {
    zk_circuits_common::utils::bytes_to_digest(bd(b))
}

const KINDS: [&str; 19] = [
    "PrivateCircuitInputs",
    "CircuitInputs",
    "Nullifier::new",
    "Nullifier::from_preimage",
    "Nullifier::from(&CircuitInputs)",
    "Nullifier::from_bytes(to_bytes)",
    "Nullifier::from_field_elements(to_field_elements)",
    "UnspendableAccount::new",
    "UnspendableAccount::from_secret",
    "UnspendableAccount::from(&CircuitInputs)",
    "UnspendableAccount::from_bytes(to_bytes)",
    "ZkLeafData::new",
    "ZkMerkleProofData::new",
    "ZkMerkleProofData::try_from(&CircuitInputs)",
    "HeaderInputs::new",
    "HeaderInputs::try_from(&CircuitInputs)",
    "BlockHeader::new",
    "BlockHeader::try_from(&CircuitInputs)",
    "Result<WormholeProver> as returned by commit (Ok)",
];

fn build(kind: usize, pu: &Public, pr: &Private) -> Built {
    let name = KINDS[kind];
    let inp = inputs(pu, pr);
    let header_publics = |pu: &Public| -> Vec<Box<dyn Debug>> {
        vec![
            Box::new(pu.block_number),
            Box::new(felts4(pu.parent_hash)),
            Box::new(felts4(pu.state_root)),
            Box::new(felts4(pu.extrinsics_root)),
            Box::new(felts4(pu.zk_tree_root)),
        ]
    };
    match kind {
        0 => Built {
            kind: name,
            obj: Obj::Live(Box::new(private_inputs(pu, pr))),
            publics: vec![Box::new(bd(pu.parent_hash)), Box::new(bd(pu.state_root)), Box::new(bd(pu.extrinsics_root)), Box::new(pu.zk_tree_root)],
            visible: Some(0),
            literals: vec!["PrivateCircuitInputs"],
            extra_private: vec![],
        },
        1 => {
            let publics: Vec<Box<dyn Debug>> = vec![
                Box::new(bd(pu.nullifier)),
                Box::new(inp.public.clone()),
                Box::new(bd(pu.parent_hash)),
                Box::new(bd(pu.state_root)),
                Box::new(bd(pu.extrinsics_root)),
                Box::new(pu.zk_tree_root),
            ];
            Built { kind: name, obj: Obj::Live(Box::new(inp)), publics, visible: Some(0), literals: vec!["CircuitInputs"], extra_private: vec![] }
        }
        2..=6 => {
            let n = match kind {
                2 => Nullifier::new(bd(pu.nullifier), bd(pr.secret), pr.tc),
                3 => Nullifier::from_preimage(bd(pr.secret), pr.tc),
                4 => Nullifier::from(&inp),
                5 => {
                    let a = Nullifier::new(bd(pu.nullifier), bd(pr.secret), pr.tc);
                    let b = a.to_bytes();
                    let r: &[u8] = b.as_ref();
                    Nullifier::from_bytes(r).unwrap_or_else(|e| machinery_error(&format!("Nullifier::from_bytes: {e}")))
                }
                _ => {
                    let a = Nullifier::new(bd(pu.nullifier), bd(pr.secret), pr.tc);
                    let f = a.to_field_elements();
                    let r: &[F] = f.as_ref();
                    Nullifier::from_field_elements(r).unwrap_or_else(|e| machinery_error(&format!("Nullifier::from_field_elements: {e}")))
                }
            };
            let hash = n.hash;
            Built { kind: name, obj: Obj::Live(Box::new(n)), publics: vec![Box::new(hash[0]), Box::new(hash)], visible: Some(0), literals: vec!["Nullifier"], extra_private: vec![] }
        }
        7..=10 => {
            let a = match kind {
                7 => UnspendableAccount::new(bd(pr.account), bd(pr.secret)),
                8 => UnspendableAccount::from_secret(bd(pr.secret)),
                9 => UnspendableAccount::from(&inp),
                _ => {
                    let a = UnspendableAccount::new(bd(pr.account), bd(pr.secret));
                    let b = a.to_bytes();
                    let r: &[u8] = b.as_ref();
                    UnspendableAccount::from_bytes(r).unwrap_or_else(|e| machinery_error(&format!("UnspendableAccount::from_bytes: {e}")))
                }
            };
            // the account id held by the object is private whatever it was derived from
            let id = digest_to_bytes(a.account_id).to_vec();
            Built { kind: name, obj: Obj::Live(Box::new(a)), publics: vec![], visible: None, literals: vec!["UnspendableAccount"], extra_private: vec![("derived account id".into(), id)] }
        }
        11 => Built {
            kind: name,
            obj: Obj::Live(Box::new(ZkLeafData::new(pr.account, pr.tc, pu.asset_id, pr.amount, pu.out1, pu.out2, pu.fee))),
            publics: vec![Box::new(pu.out1), Box::new(pu.asset_id), Box::new(pu.out2), Box::new(pu.fee)],
            visible: Some(0),
            literals: vec!["ZkLeafData"],
            extra_private: vec![],
        },
        12 | 13 => {
            let d = if kind == 12 {
                ZkMerkleProofData::new(
                    pu.zk_tree_root,
                    pr.siblings.clone(),
                    pr.positions.clone(),
                    ZkLeafData::new(pr.account, pr.tc, pu.asset_id, pr.amount, pu.out1, pu.out2, pu.fee),
                    NOT_DUMMY_FLAG.with(|c| c.get()),
                )
            } else {
                ZkMerkleProofData::try_from(&inp).unwrap_or_else(|e| machinery_error(&format!("ZkMerkleProofData::try_from: {e}")))
            };
            let root = d.root_hash;
            Built {
                kind: name,
                obj: Obj::Live(Box::new(d)),
                publics: vec![Box::new(root[0]), Box::new(root), Box::new(pu.out1), Box::new(pu.asset_id), Box::new(pu.out2), Box::new(pu.fee), Box::new(DEPTH)],
                visible: Some(0),
                literals: vec!["ZkMerkleProofData", "ZkLeafData"],
                extra_private: vec![],
            }
        }
        14 | 15 => {
            let h = if kind == 14 {
                HeaderInputs::new(bd(pu.parent_hash), pu.block_number, bd(pu.state_root), bd(pu.extrinsics_root), bd(pu.zk_tree_root), &pr.digest)
            } else {
                HeaderInputs::try_from(&inp)
            };
            let h = h.unwrap_or_else(|e| machinery_error(&format!("HeaderInputs: {e}")));
            Built { kind: name, obj: Obj::Live(Box::new(h)), publics: header_publics(pu), visible: Some(0), literals: vec!["HeaderInputs"], extra_private: vec![] }
        }
        16 | 17 => {
            let b = if kind == 16 {
                HeaderInputs::new(bd(pu.parent_hash), pu.block_number, bd(pu.state_root), bd(pu.extrinsics_root), bd(pu.zk_tree_root), &pr.digest)
                    .and_then(|h| BlockHeader::new(bd(pu.block_hash), h))
            } else {
                BlockHeader::try_from(&inp)
            };
            let b = b.unwrap_or_else(|e| machinery_error(&format!("BlockHeader: {e}")));
            let mut publics = header_publics(pu);
            publics.push(Box::new(felts4(pu.block_hash)));
            Built { kind: name, obj: Obj::Live(Box::new(b)), publics, visible: Some(0), literals: vec!["BlockHeader", "HeaderInputs"], extra_private: vec![] }
        }
        _ => {
            // the value a caller of `commit` holds (and would log with {:?}): Result<WormholeProver>
            let p = WormholeProver::new(zk_circuits_common::circuit::wormhole_leaf_circuit_config())
                .unwrap_or_else(|e| machinery_error(&format!("WormholeProver::new: {e}")));
            let r = p.commit(&inp);
            if r.is_err() {
                machinery_error(&format!("commit rejected well-formed inputs: {:?}", r.err().map(|e| e.to_string())));
            }
            Built { kind: name, obj: Obj::Live(Box::new(r)), publics: vec![], visible: None, literals: vec!["Ok(", "WormholeProver"], extra_private: vec![] }
        }
    }
}

/// uncommitted and committed prover (built once per pattern: a circuit build each)
fn build_provers(pu: &Public, pr: &Private) -> Vec<Built> {
    let p = WormholeProver::new(zk_circuits_common::circuit::wormhole_leaf_circuit_config()).unwrap_or_else(|e| machinery_error(&format!("WormholeProver::new: {e}")));
    let un = render_all(&p);
    let c = p.commit(&inputs(pu, pr)).unwrap_or_else(|e| machinery_error(&format!("commit rejected well-formed inputs: {e}")));
    vec![
        Built { kind: "WormholeProver (uncommitted)", obj: Obj::Pre(un), publics: vec![], visible: None, literals: vec!["WormholeProver", "committed: false"], extra_private: vec![] },
        Built { kind: "WormholeProver (committed)", obj: Obj::Live(Box::new(c)), publics: vec![], visible: None, literals: vec!["WormholeProver", "committed: true"], extra_private: vec![] },
    ]
}

fn render_all(o: &dyn Debug) -> [String; 5] {
    [render(o, 0), render(o, 1), render(o, 2), render(o, 3), render(o, 4)]
}

struct Finding {
    key: String,
    text: String,
    case: serde_json::Value,
}

struct Tally {
    renderings: u64,
    needle_checks: u64,
    distinct: Vec<u64>,
    findings: Vec<Finding>,
    sample: Option<serde_json::Value>,
    max_needles: usize,
}

/// check one built object (and its twin) under all formats
fn check(label: &str, b: &Built, twin: Option<(&Built, &[Needle])>, base_needles: &[Needle], t: &mut Tally) {
    let mut needles: Vec<Needle> = base_needles.to_vec();
    if !b.extra_private.is_empty() {
        let mut ns = NeedleSet::new();
        for (n, v) in &b.extra_private {
            ns.bytes(v, n);
        }
        needles.extend(ns.v);
    }
    t.max_needles = t.max_needles.max(needles.len());
    for f in 0..FORMATS.len() {
        let raw = b.obj.render(f);
        let hay = normalise(&raw);
        t.renderings += 1;
        t.distinct.push(hash64(&(b.kind, &raw)));
        // non-vacuity: the rendering is the real thing and shows its public part
        for lit in &b.literals {
            if !hay.contains(&lit.to_lowercase()) {
                machinery_error(&format!("{label} {} {}: rendering lacks the marker {lit:?} (vacuous check?): {}", b.kind, FORMATS[f], &raw[..raw.len().min(300)]));
            }
        }
        let pubs: Vec<String> = b.publics.iter().map(|p| normalise(&render(&**p, f))).collect();
        if let Some(v) = b.visible {
            if !hay.contains(&pubs[v]) {
                machinery_error(&format!("{label} {} {}: public field {} is not visible in the rendering (vacuous check?): {}", b.kind, FORMATS[f], pubs[v], &raw[..raw.len().min(300)]));
            }
        }
        let twin_hay = twin.map(|(tw, _)| normalise(&tw.obj.render(f)));
        // what the twin holds privately itself: if the twin shows one of these it is leaking its
        // own value, which says nothing about the needle being part of the shared public data
        let twin_own: std::collections::HashSet<&str> = match twin {
            Some((tw, tn)) => {
                let mut h: std::collections::HashSet<&str> = tn.iter().map(|n| n.text.as_str()).collect();
                let _ = tw;
                h.shrink_to_fit();
                h
            }
            None => Default::default(),
        };
        let twin_extra: Vec<Needle> = match twin {
            Some((tw, _)) if !tw.extra_private.is_empty() => {
                let mut ns = NeedleSet::new();
                for (n, v) in &tw.extra_private {
                    ns.bytes(v, n);
                }
                ns.v
            }
            _ => vec![],
        };
        for n in &needles {
            t.needle_checks += 1;
            if occurs(&hay, n) {
                // ambiguous if the public part alone, or an object that never held this value, shows it too
                let in_public = pubs.iter().any(|p| occurs(p, n));
                let in_twin = twin_hay.as_ref().map(|h| occurs(h, n)).unwrap_or(false)
                    && !twin_own.contains(n.text.as_str())
                    && !twin_extra.iter().any(|x| x.text == n.text);
                if in_public || in_twin {
                    machinery_error(&format!(
                        "ambiguous needle {:?} ({}) for {label} {} {}: it also occurs in {} — choose other values",
                        n.text,
                        n.what,
                        b.kind,
                        FORMATS[f],
                        if in_public { "a public field of the same object" } else { "the twin object, which holds other private values and for which it is not a private rendering (so it comes from the shared public part)" }
                    ));
                }
                let pos = hay.find(n.text.as_str()).unwrap_or(0);
                let lo = pos.saturating_sub(60);
                let hi = (pos + n.text.len() + 40).min(hay.len());
                let ctx: String = hay.chars().skip(lo).take(hi - lo).collect();
                t.findings.push(Finding {
                    key: format!("debug:{}:{}:{}", b.kind, FORMATS[f], n.what.split(':').next().unwrap_or("")),
                    text: format!("{} rendered with {} ({label}) shows the {} as {:?}: ...{}...", b.kind, FORMATS[f], n.what, n.text, ctx),
                    case: json!({"type": b.kind, "format": FORMATS[f], "values": label, "needle": n.text, "needle_is": n.what, "context": ctx, "rendering_head": &raw[..raw.len().min(600)]}),
                });
            }
        }
        if t.sample.is_none() && f == 0 {
            t.sample = Some(json!({"type": b.kind, "values": label, "format": FORMATS[f], "rendering": &raw[..raw.len().min(400)], "needles_searched": needles.len(),
                "example_needles": needles.iter().step_by(needles.len() / 6 + 1).map(|n| format!("{} = {}", n.what, n.text)).collect::<Vec<_>>()}));
        }
    }
}


// ---------------------------------------------------------------------------------
// error values: what a caller holds (and logs) when the private inputs are malformed
// ---------------------------------------------------------------------------------

const GOLDILOCKS: u64 = 0xFFFF_FFFF_0000_0001;

/// Malformed variants of a private witness that the fallible constructors refuse (or may
/// refuse): the value patterns stay the same, one aspect is broken.
fn malformations(pr: &Private) -> Vec<(&'static str, Private)> {
    let mut out = Vec::new();
    // a sibling with a non-canonical limb (byte alias of a canonical value: low limb + p)
    for (lvl, sib) in [(0usize, 1usize), (pr.siblings.len() - 1, 2)] {
        let mut m = pr.clone();
        let low = u32::from_le_bytes([m.siblings[lvl][sib][0], m.siblings[lvl][sib][1], m.siblings[lvl][sib][2], m.siblings[lvl][sib][3]]).min(u32::MAX - 2) as u64;
        m.siblings[lvl][sib][..8].copy_from_slice(&(low + GOLDILOCKS).to_le_bytes());
        out.push((if lvl == 0 { "sibling[0][1] with a non-canonical limb" } else { "last level sibling[2] with a non-canonical limb" }, m));
    }
    let mut m = pr.clone();
    m.positions.pop();
    out.push(("one position missing", m));
    let mut m = pr.clone();
    m.positions[1] = 7;
    out.push(("position 7 at level 1", m));
    let mut m = pr.clone();
    while m.siblings.len() < 17 {
        let l = m.siblings[m.siblings.len() % pr.siblings.len()];
        m.siblings.push(l);
        m.positions.push(1);
    }
    out.push(("17 levels", m));
    out
}

/// Needles of the secret-class values only (secret, deposit account, digest logs, siblings):
/// counts, amounts and positions are not searched in error texts, which may legitimately
/// quote a length or an offending small number.
fn secret_class_needles(pr: &Private) -> Vec<Needle> {
    let mut n = NeedleSet::new();
    n.bytes(&pr.secret, "secret");
    n.bytes(&pr.account, "deposit account");
    n.bytes(&pr.digest, "digest logs");
    for (l, lvl) in pr.siblings.iter().enumerate() {
        for (s, sib) in lvl.iter().enumerate() {
            n.bytes(sib, &format!("sibling[{l}][{s}]"));
        }
    }
    n.v
}

/// Render an error value every way a caller would, and search it.
fn check_error(label: &str, call: &str, mal: &str, err: &anyhow::Error, needles: &[Needle], t: &mut Tally) {
    let renderings = [("{:?}", format!("{err:?}")), ("{:#?}", format!("{err:#?}")), ("{}", format!("{err}")), ("{:#}", format!("{err:#}")), ("chain", err.chain().map(|c| c.to_string()).collect::<Vec<_>>().join(" | "))];
    for (f, text) in renderings {
        t.renderings += 1;
        let hay = normalise(&text);
        t.distinct.push(hash64(&("error", call, &hay)));
        for n in needles {
            t.needle_checks += 1;
            if occurs(&hay, n) {
                t.findings.push(Finding {
                    key: format!("error:{call}:{mal}:{}:{f}", n.what),
                    text: format!("the error returned by {call} for private inputs with {mal} ({label}), rendered with {f}, contains the {} ({})", n.what, n.text),
                    case: json!({"call": call, "malformation": mal, "pattern": label, "format": f, "needle": n.text, "rendering": text.chars().take(600).collect::<String>()}),
                });
                break;
            }
        }
    }
}

fn main() {
    quiet_panics();
    let tier = tier_from_args();
    let thorough = tier == "thorough";
    let rep = Report::new("C32", "exploration", &tier);

    // value patterns: 6 structured, plus seeded random ones
    let n_random = if thorough { 250 } else { 26 };
    let mut privs: Vec<(String, Private)> = (0..6)
        .map(|k| (["ascending bytes", "descending bytes", "high-bit bytes", "scattered bytes", "printable ASCII", "scattered bytes, leading-zero limb, extreme count/amount"][k].to_string(), private_structured(k)))
        .collect();
    for s in 0..n_random {
        privs.push((format!("random #{s}"), private_random(s as u64)));
    }
    // committed provers cost a circuit build each: structured patterns + a few random ones
    let n_prover = if thorough { 32 } else { 8 };

    let tallies: Vec<Tally> = privs
        .par_iter()
        .enumerate()
        .map(|(k, (label, pr))| {
            let mut t = Tally { renderings: 0, needle_checks: 0, distinct: vec![], findings: vec![], sample: None, max_needles: 0 };
            let twin_pr = &privs[(k + 1) % privs.len()].1;
            let needles = needles_of(pr);
            let twin_needles = needles_of(twin_pr);
            let n_variants = if k < 6 || thorough { 3 } else { 1 };
            for pv in 0..n_variants {
            let pu = public_variant(public_for(k), pv);
            NOT_DUMMY_FLAG.with(|c| c.set(pv != 1));
            let label = &if pv == 0 { label.clone() } else { format!("{label} / public variant {}", ["distinctive", "dummy sentinel (zero block hash, zero outputs)", "zero publics"][pv]) };
            for kind in 0..KINDS.len() - 1 {
                let b = build(kind, &pu, pr);
                // the twin shares the public values and holds other private values; objects whose
                // public part is derived from the private one (from_preimage) get a twin with the same public part
                let tw = match kind {
                    3 => {
                        let n = Nullifier::from_preimage(bd(pr.secret), pr.tc);
                        let h = digest_to_bytes(n.hash);
                        let mut pu2 = pu.clone();
                        pu2.nullifier = *h;
                        build(2, &pu2, twin_pr)
                    }
                    _ => build(kind, &pu, twin_pr),
                };
                check(label, &b, Some((&tw, &twin_needles[..])), &needles, &mut t);
            }
            }
            NOT_DUMMY_FLAG.with(|c| c.set(true));
            let pu = public_for(k);
            // error values of the fallible constructors on malformed private inputs
            for (mal, mpr) in malformations(pr) {
                let sn = secret_class_needles(&mpr);
                let inp = inputs(&pu, &mpr);
                if let Err(e) = ZkMerkleProofData::try_from(&inp) {
                    check_error(label, "ZkMerkleProofData::try_from(&CircuitInputs)", mal, &e, &sn, &mut t);
                }
                if k < n_prover {
                    let p = WormholeProver::new(zk_circuits_common::circuit::wormhole_leaf_circuit_config()).unwrap_or_else(|e| machinery_error(&format!("WormholeProver::new: {e}")));
                    if let Err(e) = p.commit(&inp) {
                        check_error(label, "WormholeProver::commit", mal, &e, &sn, &mut t);
                    }
                }
            }
            if k < n_prover {
                let provers = build_provers(&pu, pr);
                let twins = build_provers(&pu, twin_pr);
                for (b, tw) in provers.iter().zip(twins.iter()) {
                    check(label, b, Some((tw, &twin_needles[..])), &needles, &mut t);
                }
                let b = build(KINDS.len() - 1, &pu, pr);
                check(label, &b, None, &needles, &mut t);
            }
            t
        })
        .collect();

    let mut renderings = 0;
    let mut checks = 0;
    let mut max_needles = 0;
    for (k, t) in tallies.iter().enumerate() {
        renderings += t.renderings;
        checks += t.needle_checks;
        max_needles = max_needles.max(t.max_needles);
        rep.eval(t.renderings);
        rep.distinct_many(t.distinct.iter().copied());
        for f in &t.findings {
            rep.violation(&f.key, &f.text, f.case.clone());
        }
        if k < 3 || k == 6 {
            if let Some(s) = &t.sample {
                rep.sample(s.clone());
            }
        }
    }
    rep.extra("value_patterns", json!(privs.iter().map(|p| p.0.clone()).collect::<Vec<_>>().len()));
    rep.extra("structured_patterns", json!(privs.iter().take(6).map(|(l, p)| json!({"pattern": l, "secret": hex::encode(p.secret), "transfer_count": p.tc, "input_amount": p.amount, "positions": p.positions})).collect::<Vec<_>>()));
    rep.extra("random_patterns", json!(n_random));
    rep.extra("patterns_with_prover_objects", json!(n_prover.min(privs.len())));
    rep.extra("types_and_constructors", json!(KINDS.iter().map(|s| s.to_string()).chain(["WormholeProver (uncommitted)".to_string(), "WormholeProver (committed)".to_string()]).collect::<Vec<_>>()));
    rep.extra("formats", json!(FORMATS));
    rep.extra("renderings_checked", json!(renderings));
    rep.extra("needle_checks", json!(checks));
    rep.extra("needles_per_object_max", json!(max_needles));
    rep.rule("error values: ZkMerkleProofData::try_from and WormholeProver::commit on 5 malformed variants of every pattern (non-canonical sibling limb at two places, a missing position, position 7, 17 levels), the returned error rendered with {:?}, {:#?}, {}, {:#} and as its cause chain, searched for the secret-class needles (secret, deposit account, digest logs, siblings). Objects: every type/constructor x every value pattern x 5 Debug formats; each rendering (lower-cased, whitespace-normalised) is searched for every needle of every private value of the pattern (secret, deposit account, transfer count, input amount, digest logs, 15 siblings, positions, derived account id). evaluations = renderings; distinct_nontrivial = distinct (type, rendering text)");
    rep.assume("needles are the renderings listed in the evidence (hex/decimal of whole values, 128/64/32-bit parts in both byte orders, felt encodings, byte lists of 4 consecutive bytes); other encodings (base64, bit strings, arithmetic transforms) are not searched");
    rep.assume("explicit serialization outputs (to_bytes / to_field_elements) are secret-carrying by contract and are not Debug-checked");
    std::process::exit(rep.finish());
}
