//! C18: public-batch proofs are bound to the configured aggregator address. The real
//! aggregator over a freshly generated bins directory, all (prover address, verifier
//! address) pairs, tampered and mis-sized proofs.
use plonky2::field::types::{Field, PrimeField64};
use rayon::prelude::*;
use serde_json::json;
use vharness::cx::{F, P};
use vharness::fixtures::*;
use vharness::leafnative::limbs_to_bytes;
use vharness::mcx::*;
use vharness::privx::dig;
use wormhole_aggregator::aggregator::PublicBatchAggregator;
use wormhole_aggregator::pool::PoolLimits;
use wormhole_aggregator::private_batch::prover::PrivateBatchProver;
use zk_circuits_common::utils::BytesDigest;

fn main() {
    quiet_panics();
    let tier = tier_from_args();
    let thorough = tier == "thorough";
    let rep = Report::new("C18", "exploration", &tier);
    let dir = std::env::temp_dir().join(format!("vharness-aggr-{}", std::process::id()));
    let _ = std::fs::remove_dir_all(&dir);
    let code = run(&rep, &dir, thorough);
    let _ = std::fs::remove_dir_all(&dir);
    std::process::exit(code);
}

fn addr(limbs: [u64; 4]) -> BytesDigest {
    BytesDigest::try_from(limbs_to_bytes(limbs)).expect("canonical address")
}

fn run(rep: &Report, dir: &std::path::Path, thorough: bool) -> i32 {
    // one generated artifact set: 1 leaf proof per private batch, 2 private batches per public batch
    {
        // the builder prints progress to stdout; keep our protocol lines clean
        let r = catch(|| circuit_builder::generate_all_circuit_binaries(dir, true, 1, Some(2)));
        match r {
            Ok(Ok(())) => {}
            other => machinery_error(&format!("could not generate the bins directory: {other:?}")),
        }
    }
    let leaf = leaf_verifier();
    let sp = |name: &'static str, seed: u64| LeafSpec { name, seed, asset: 0, input: 1000, fee: 0, out1: 5, out2: 1, exit1: dig(10), exit2: dig(11) };
    let leaves: Vec<Proof> = prove_block(1, 500, &[sp("r0", 41), sp("r1", 42)]).into_iter().map(|x| x.1).collect();
    let inners: Vec<Proof> = leaves
        .par_iter()
        .map(|l| PrivateBatchProver::new_from_binaries_dir(dir).expect("private prover from bins").commit(vec![l.clone()]).expect("commit").prove().expect("prove inner"))
        .collect();
    // independently rebuilt canonical verifiers
    let pbv = wormhole_aggregator::common::utils::canonical_private_batch_verifier_data(&leaf, 1).expect("canonical private batch");
    let pubv = wormhole_aggregator::common::utils::canonical_public_batch_verifier_data(&pbv, 2, 1).expect("canonical public batch");

    // S has a small first limb: its byte encoding has a +p alias (limb 5+p), a different 32-byte
    // address with the same field elements
    let small = { let mut b = dig(500); b[0] = 5; b[3] = (b[3] + 1) % P; b };
    let mut addrs: Vec<(&str, [u64; 4])> = vec![("A", dig(500)), ("S", small)];
    if thorough {
        addrs.push(("zero", [0; 4]));
        addrs.push(("pm1", [P - 1; 4]));
    }
    let aggs: Vec<PublicBatchAggregator> = addrs.par_iter().map(|(_, a)| PublicBatchAggregator::with_limits(dir, addr(*a), PoolLimits::default()).expect("aggregator init")).collect();

    // proofs produced under each address, batches of 1 and of 2
    let batches: Vec<Vec<usize>> = vec![vec![0], vec![0, 1]];
    let jobs: Vec<(usize, usize)> = (0..addrs.len()).flat_map(|a| (0..batches.len()).map(move |b| (a, b))).collect();
    let proofs: Vec<((usize, usize), Result<Proof, String>)> = jobs
        .par_iter()
        .map(|&(a, b)| {
            let ctx = aggs[a].proving_context();
            let r = catch(|| ctx.prove_batch(batches[b].iter().map(|&i| inners[i].clone()).collect()));
            ((a, b), match r { Ok(Ok(p)) => Ok(p), Ok(Err(e)) => Err(format!("{e:#}")), Err(p) => Err(format!("panic: {p}")) })
        })
        .collect();
    let expected_len = pubv.common.num_public_inputs;
    proofs.par_iter().for_each(|((a, b), r)| {
        rep.eval(1);
        rep.distinct(hash64(&("prove", a, b)));
        let case = json!({"prover_address": addrs[*a].0, "batch": batches[*b]});
        let p = match r {
            Err(e) => {
                rep.violation(&format!("prove:{}:{b}", addrs[*a].0), &format!("prove_batch under address {} failed on valid private-batch proofs: {e}", addrs[*a].0), case);
                return;
            }
            Ok(p) => p,
        };
        if pubv.verify(p.clone()).is_err() {
            rep.violation(&format!("pinned-verify:{}:{b}", addrs[*a].0), "a proof returned by the aggregator does not verify under an independently rebuilt canonical public-batch verifier", case.clone());
        }
        let exposed: Vec<u64> = p.public_inputs[..4].iter().map(|x| x.to_canonical_u64()).collect();
        if exposed != addrs[*a].1.to_vec() || p.public_inputs.len() != expected_len {
            rep.violation(&format!("exposed:{}:{b}", addrs[*a].0), &format!("returned proof exposes address {exposed:?}, configured {:?}", addrs[*a].1), case.clone());
        }
        // every verifier address
        for (vi, (vname, _)) in addrs.iter().enumerate() {
            rep.eval(1);
            rep.distinct(hash64(&("verify", a, b, vi)));
            let r = catch(|| aggs[vi].verify(p.clone()));
            let accepted = matches!(r, Ok(Ok(())));
            if r.is_err() {
                rep.violation(&format!("verify-panic:{}:{vname}", addrs[*a].0), "aggregator verify panicked", case.clone());
            } else if accepted != (vi == *a) {
                rep.violation(
                    &format!("binding:{}->{vname}:{b}", addrs[*a].0),
                    &format!("aggregator configured with address {vname} {} a valid proof produced under address {}", if accepted { "ACCEPTS" } else { "rejects" }, addrs[*a].0),
                    json!({"prover_address": addrs[*a].0, "verifier_address": vname, "batch": batches[*b]}),
                );
            }
        }
        // tampered public inputs: every address limb, and one felt of every other region
        let n_pi = p.public_inputs.len();
        let mut positions: Vec<usize> = vec![0, 1, 2, 3, 4, 5, 6, 10, 11, 12, n_pi - 1];
        positions.retain(|&k| k < n_pi);
        for k in positions {
            let mut t = p.clone();
            t.public_inputs[k] += F::ONE;
            for (vi, (vname, _)) in addrs.iter().enumerate() {
                rep.eval(1);
                rep.distinct(hash64(&("tamper", a, b, k, vi)));
                match catch(|| aggs[vi].verify(t.clone())) {
                    Ok(Ok(())) => rep.violation(&format!("tamper:{}:{k}:{vname}", addrs[*a].0), &format!("aggregator {vname} accepts a proof whose public input {k} was modified"), json!({"prover_address": addrs[*a].0, "verifier_address": vname, "modified_pi": k})),
                    Ok(Err(_)) => {}
                    Err(pn) => rep.violation(&format!("tamper-panic:{k}"), &format!("aggregator verify panicked on a tampered proof: {pn}"), json!({"modified_pi": k})),
                }
            }
            // an aggregator configured with exactly the tampered address must reject it too
            if k < 4 && *b == 0 && (thorough || (*a == 0 && (k == 0 || k == 3))) {
                let limbs: [u64; 4] = core::array::from_fn(|i| t.public_inputs[i].to_canonical_u64());
                if let Ok(ag2) = PublicBatchAggregator::with_limits(dir, addr(limbs), PoolLimits::default()) {
                    rep.eval(1);
                    if matches!(catch(|| ag2.verify(t.clone())), Ok(Ok(()))) {
                        rep.violation(&format!("tamper-addr:{}:{k}", addrs[*a].0), "a proof whose exposed address was rewritten is accepted by the aggregator that owns the rewritten address", json!({"prover_address": addrs[*a].0, "modified_pi": k}));
                    }
                }
            }
        }
        // wrong length
        for delta in [-1i32, 1] {
            let mut t = p.clone();
            if delta < 0 {
                t.public_inputs.pop();
            } else {
                t.public_inputs.push(F::ZERO);
            }
            rep.eval(1);
            rep.distinct(hash64(&("len", a, b, delta)));
            match catch(|| aggs[*a].verify(t.clone())) {
                Ok(Ok(())) => rep.violation(&format!("len:{}:{delta}", addrs[*a].0), &format!("aggregator accepts a proof with {} public inputs (expected {expected_len})", t.public_inputs.len()), case.clone()),
                Ok(Err(_)) => {}
                Err(pn) => rep.violation(&format!("len-panic:{delta}"), &format!("aggregator verify panicked on a proof of the wrong length: {pn}"), case.clone()),
            }
        }
        let mut t = p.clone();
        t.public_inputs.truncate(3);
        if !matches!(catch(|| aggs[*a].verify(t.clone())), Ok(Err(_))) {
            rep.violation("len-3", "aggregator verify does not cleanly reject a proof with 3 public inputs", case.clone());
        }
    });
    // a configured address whose BYTES differ from S but whose field elements coincide (limb 0 =
    // 5 + p, constructible through the public BytesDigest::new_unchecked): it is a different
    // address, so it must reject proofs exposing S, and must never hand out a proof (a proof can
    // only expose the canonical S)
    {
        let mut bytes = limbs_to_bytes(small);
        bytes[0..8].copy_from_slice(&(5u64 + P).to_le_bytes());
        let alias = BytesDigest::new_unchecked(bytes);
        match catch(|| PublicBatchAggregator::with_limits(dir, alias, PoolLimits::default())) {
            Ok(Ok(ag)) => {
                for ((a, b), r) in &proofs {
                    if addrs[*a].0 != "S" {
                        continue;
                    }
                    if let Ok(p) = r {
                        rep.eval(1);
                        rep.distinct(hash64(&("alias-verify", b)));
                        if matches!(catch(|| ag.verify(p.clone())), Ok(Ok(()))) {
                            rep.violation(&format!("alias-verify:{b}"), "an aggregator configured with a byte-distinct alias (limb+p) of address S ACCEPTS a valid proof exposing S", json!({"prover_address": "S", "verifier_address": "S with limb 0 replaced by 5+p (non-canonical bytes)", "batch": batches[*b]}));
                        }
                    }
                }
                rep.eval(1);
                let ctx = ag.proving_context();
                if let Ok(Ok(p)) = catch(|| ctx.prove_batch(vec![inners[0].clone()])) {
                    let exposed: Vec<u64> = p.public_inputs[..4].iter().map(|x| x.to_canonical_u64()).collect();
                    rep.violation("alias-prove", &format!("an aggregator configured with non-canonical address bytes returned a proof exposing {exposed:?}, which is not its configured 32-byte address"), json!({"configured": "S with limb 0 = 5+p"}));
                }
            }
            Ok(Err(_)) => {} // refusing such an address at construction is fine
            Err(pn) => rep.violation("alias-panic", &format!("aggregator construction panicked on non-canonical address bytes: {pn}"), json!({})),
        }
    }
    // the pooled path: push + aggregate returns a proof bound to the configured address
    {
        let mut ag = PublicBatchAggregator::with_limits(dir, addr(addrs[0].1), PoolLimits::default()).expect("aggregator");
        rep.eval(1);
        match catch(|| -> anyhow::Result<Proof> {
            let key = ag.push_proof(inners[0].clone())?;
            ag.aggregate(&key)
        }) {
            Ok(Ok(p)) => {
                let exposed: Vec<u64> = p.public_inputs[..4].iter().map(|x| x.to_canonical_u64()).collect();
                if exposed != addrs[0].1.to_vec() || pubv.verify(p).is_err() {
                    rep.violation("pooled-path", "push_proof + aggregate returns a proof not bound to the configured address / not verifying under the canonical verifier", json!({}));
                }
            }
            other => rep.violation("pooled-path-fail", &format!("push_proof + aggregate failed on a valid private-batch proof: {other:?}"), json!({})),
        }
    }
    rep.sample(json!({"prover_address": addrs[0].0, "verifier_address": addrs[1].0, "batch": [0, 1], "expected": "reject"}));
    rep.sample(json!({"prover_address": addrs[0].0, "verifier_address": addrs[0].0, "batch": [0], "expected": "accept"}));
    rep.extra("addresses", json!(addrs.iter().map(|a| a.0).collect::<Vec<_>>()));
    rep.extra("real_public_batch_proofs", json!(proofs.len()));
    rep.extra("bins", json!("generate_all_circuit_binaries(scratch, include_prover=true, 1 leaf proof per private batch, 2 private batches per public batch)"));
    rep.rule("case = (prover address a, verifier address b, batch of 1 or 2 genuine private-batch proofs) on the real PublicBatchAggregator over a freshly generated artifact directory; every proof returned must verify under an independently rebuilt canonical public-batch verifier and expose a; verify under b accepts iff a=b; every address limb and one felt of every other region incremented, and lengths -1/+1/3, must be rejected with an error, never a panic; an aggregator owning a rewritten address must reject the rewritten proof. distinct = distinct (a, b, batch, tamper) tuples");
    rep.assume("address alphabet {A, S (small first limb), the +p byte alias of S} (+ zero, all limbs p-1 thorough); FRI/PLONK soundness of the verifier");
    rep.finish()
}
