//! C06, C07, C08, C09 (private-batch wrapper over free child public inputs, engine CX) and
//! C36 (two-layer conservation by chaining the private and the public wrapper).
use serde_json::json;
use std::collections::HashMap;
use vharness::cx::Cx;
use vharness::leafx::LeafCtx;
use vharness::mcx::*;
use vharness::privx::*;
use vharness::wrapref::*;

struct Reps<'a> {
    c06: &'a Report,
    c07: &'a Report,
    c08: &'a Report,
    c09: &'a Report,
}

fn vec_json(slots: &[Slot]) -> serde_json::Value {
    json!(slots
        .iter()
        .map(|s| json!({"dummy": s.is_dummy(), "asset": s.asset, "fee": s.fee, "bh": s.bh, "number": s.number, "nullifier": s.nullifier, "e1": s.e1, "a1": s.a1, "e2": s.e2, "a2": s.a2, "pre": s.pre}))
        .collect::<Vec<_>>())
}

fn per_run_oracles(e: &Eval, r: &Reps, set: &str) {
    let n = e.slots.len();
    let spec = private_accepts(&e.slots);
    let key = |k: &str| format!("{k}:{set}:{:016x}", hash64(&e.slots));
    if e.accept != spec.is_ok() {
        let what = if e.accept {
            format!("private-batch wrapper (N={n}) is satisfiable for a vector the spec rejects: {}", spec.unwrap_err())
        } else {
            format!("private-batch wrapper (N={n}) rejects a compatible, replay-free vector: {}", e.reject)
        };
        r.c07.violation(&key("accept"), &what, json!({"n": n, "slots": vec_json(&e.slots), "circuit_accepts": e.accept}));
        return;
    }
    if !e.accept {
        return;
    }
    // C06: exact aggregate
    let want = private_agg(&e.slots);
    if e.pis != want {
        let first = (0..want.len()).find(|&i| e.pis.get(i) != Some(&want[i])).unwrap_or(0);
        let region = if first < 8 { "header" } else if first < 8 + 10 * n { "exit slots" } else if first < 8 + 14 * n { "nullifiers" } else { "padding" };
        r.c06.violation(&key("agg"), &format!("private-batch output (N={n}) differs from the specified aggregate in the {region} (felt {first})"), json!({"n": n, "slots": vec_json(&e.slots), "observed": e.pis, "expected": want}));
    }
    // C08: conservation, straight from inputs and outputs
    let p = parse_out(&e.pis, n);
    let total_out: u128 = p.slots.iter().map(|s| s.0 as u128).sum();
    let total_in: u128 = e.slots.iter().filter(|s| !s.is_dummy()).map(|s| s.a1 as u128 + s.a2 as u128).sum();
    if total_out != total_in {
        r.c08.violation(&key("total"), &format!("private batch (N={n}) output amounts sum to {total_out}, real slots paid {total_in}"), json!({"n": n, "slots": vec_json(&e.slots), "observed": e.pis}));
    }
    for (sum, acct) in &p.slots {
        if *sum != 0 {
            let sent: u128 = e.slots.iter().filter(|s| !s.is_dummy()).map(|s| (if s.e1 == *acct { s.a1 as u128 } else { 0 }) + (if s.e2 == *acct { s.a2 as u128 } else { 0 })).sum();
            if sent != *sum as u128 {
                r.c08.violation(&key("acct"), &format!("output slot pays {sum} to an account that real slots sent {sent}"), json!({"n": n, "slots": vec_json(&e.slots), "observed": e.pis}));
            }
        }
    }
    // C09: every dummy / duplicate / unused output slot is all-zero, except the first
    // zero-keyed slot when a real slot pays the zero account (see DESIGN.md "all-zero slot")
    let pairs = masked_pairs(&e.slots);
    let mut seen: Vec<D4> = Vec::new();
    for (si, (acct, _)) in pairs.iter().enumerate() {
        let dup = seen.contains(acct);
        if !dup {
            seen.push(*acct);
        }
        let slot_dummy = e.slots[si / 2].is_dummy();
        let (osum, oacct) = p.slots[si];
        let must_be_zero = dup || (slot_dummy && !(*acct == Z4 && !dup && osum != 0 && e.slots.iter().any(|s| !s.is_dummy() && ((s.e1 == Z4 && s.a1 > 0) || (s.e2 == Z4 && s.a2 > 0)))));
        if must_be_zero && (osum != 0 || oacct != Z4) {
            r.c09.violation(&key("zero-slot"), &format!("output slot {si} (dummy={slot_dummy}, duplicate={dup}) is not the all-zero slot"), json!({"n": n, "slots": vec_json(&e.slots), "observed": e.pis}));
        }
    }
}

/// Differential oracles over a set closed under the relevant transformations.
fn group_oracles(evals: &[Eval], r: &Reps, set: &str) {
    // (1) permutation classes: header + nullifier region + acceptance invariant, exit groups
    //     permuted only by slot order (compared as the sequence induced by the slot order).
    let mut perm: HashMap<Vec<Slot>, Vec<usize>> = HashMap::new();
    for (i, e) in evals.iter().enumerate() {
        let mut k = e.slots.clone();
        k.sort();
        perm.entry(k).or_default().push(i);
    }
    for (_k, members) in perm.iter().filter(|(_, m)| m.len() > 1) {
        let e0 = &evals[members[0]];
        for &mi in &members[1..] {
            let e = &evals[mi];
            let n = e.slots.len();
            if e.accept != e0.accept {
                r.c07.violation(&format!("perm-accept:{set}:{:016x}", hash64(&e.slots)), "acceptance of a private batch changes under a permutation of its slots", json!({"a": vec_json(&e0.slots), "a_accepts": e0.accept, "b": vec_json(&e.slots), "b_accepts": e.accept}));
                continue;
            }
            if !e.accept {
                continue;
            }
            let (p0, p1) = (parse_out(&e0.pis, n), parse_out(&e.pis, n));
            if p0.header != p1.header || p0.nullifiers != p1.nullifiers {
                r.c09.violation(&format!("perm-out:{set}:{:016x}", hash64(&e.slots)), "header or nullifier region of a private batch changes under a permutation of its slots", json!({"a": vec_json(&e0.slots), "a_out": e0.pis, "b": vec_json(&e.slots), "b_out": e.pis}));
            }
            let mut g0: Vec<(u64, D4)> = p0.slots.iter().filter(|s| s.0 != 0 || s.1 != Z4).cloned().collect();
            let mut g1: Vec<(u64, D4)> = p1.slots.iter().filter(|s| s.0 != 0 || s.1 != Z4).cloned().collect();
            g0.sort();
            g1.sort();
            if g0 != g1 {
                r.c09.violation(&format!("perm-groups:{set}:{:016x}", hash64(&e.slots)), "the set of exit groups of a private batch changes under a permutation of its slots", json!({"a": vec_json(&e0.slots), "a_out": e0.pis, "b": vec_json(&e.slots), "b_out": e.pis}));
            }
        }
    }
    // (2) dummy-content classes: replace every dummy slot by (asset, preimage) only
    let mut cls: HashMap<Vec<Slot>, Vec<usize>> = HashMap::new();
    for (i, e) in evals.iter().enumerate() {
        if !e.slots.iter().any(|s| s.is_dummy()) {
            continue;
        }
        let k: Vec<Slot> = e
            .slots
            .iter()
            .map(|s| {
                if s.is_dummy() {
                    Slot { asset: s.asset, a1: 0, a2: 0, fee: 0, nullifier: Z4, e1: Z4, e2: Z4, bh: Z4, number: 0, pre: s.pre }
                } else {
                    // the preimage of a real slot must not matter either
                    Slot { pre: Z4, ..s.clone() }
                }
            })
            .collect();
        cls.entry(k).or_default().push(i);
    }
    for (_k, members) in cls.iter().filter(|(_, m)| m.len() > 1) {
        let e0 = &evals[members[0]];
        for &mi in &members[1..] {
            let e = &evals[mi];
            if e.accept != e0.accept {
                r.c07.violation(&format!("dummy-accept:{set}:{:016x}", hash64(&e.slots)), "acceptance of a private batch depends on a dummy slot's non-asset fields (or on a real slot's preimage)", json!({"a": vec_json(&e0.slots), "a_accepts": e0.accept, "b": vec_json(&e.slots), "b_accepts": e.accept}));
            } else if e.accept && e.pis != e0.pis {
                r.c09.violation(&format!("dummy-out:{set}:{:016x}", hash64(&e.slots)), "output of a private batch depends on a dummy slot's nullifier/exits/amounts/fee/number (or on a real slot's preimage)", json!({"a": vec_json(&e0.slots), "a_out": e0.pis, "b": vec_json(&e.slots), "b_out": e.pis}));
            }
        }
    }
}

fn slots_from_json(v: &serde_json::Value) -> Option<Vec<Slot>> {
    let d4 = |x: &serde_json::Value| -> Option<D4> {
        let a = x.as_array()?;
        Some([a.first()?.as_u64()?, a.get(1)?.as_u64()?, a.get(2)?.as_u64()?, a.get(3)?.as_u64()?])
    };
    v.as_array()?
        .iter()
        .map(|s| {
            Some(Slot {
                asset: s["asset"].as_u64()?,
                fee: s["fee"].as_u64()?,
                bh: d4(&s["bh"])?,
                number: s["number"].as_u64()?,
                nullifier: d4(&s["nullifier"])?,
                e1: d4(&s["e1"])?,
                a1: s["a1"].as_u64()?,
                e2: d4(&s["e2"])?,
                a2: s["a2"].as_u64()?,
                pre: d4(&s["pre"])?,
            })
        })
        .collect()
}

/// --replay <file>: re-run the recorded slot vector(s) through CX on a freshly built wrapper
/// and apply the per-run and differential oracles to just these vectors. No evidence is written.
fn replay(path: &str) -> i32 {
    let v: serde_json::Value = serde_json::from_str(&std::fs::read_to_string(path).unwrap_or_else(|e| machinery_error(&format!("replay file {path}: {e}")))).unwrap_or_else(|e| machinery_error(&format!("replay file {path}: {e}")));
    let case = &v["case"];
    let mut vectors: Vec<Vec<Slot>> = Vec::new();
    for k in ["slots", "a", "b"] {
        if !case[k].is_null() {
            vectors.push(slots_from_json(&case[k]).unwrap_or_else(|| machinery_error(&format!("replay file {path}: field {k} is not a slot vector"))));
        }
    }
    if vectors.is_empty() {
        machinery_error("replay file holds no slot vector (C36 placements are replayed by re-running ./check C36 quick)");
    }
    let n = vectors[0].len();
    let leaf = LeafCtx::new();
    let w = build_priv_wrapper(n, &leaf.data.common);
    let cx = Cx::new(&w.data);
    let reports: Vec<Report> = ["C06", "C07", "C08", "C09"].iter().map(|p| Report::new(p, "exploration", "replay")).collect();
    let r = Reps { c06: &reports[0], c07: &reports[1], c08: &reports[2], c09: &reports[3] };
    let evals = eval_vectors(&w, &cx, &vectors);
    for e in &evals {
        println!("N={n} circuit {} / spec {}", if e.accept { "ACCEPTS".to_string() } else { format!("REJECTS ({})", e.reject) }, match private_accepts(&e.slots) { Ok(_) => "accepts".to_string(), Err(x) => format!("rejects ({x})") });
        if e.accept {
            println!("  output  {:?}", e.pis);
            println!("  expected {:?}", private_agg(&e.slots));
        }
        per_run_oracles(e, &r, "replay");
    }
    group_oracles(&evals, &r, "replay");
    let mut bad = 0;
    for rep in &reports {
        for (p, _k, what) in rep.violation_texts() {
            println!("  {p}: {what}");
            bad += 1;
        }
    }
    if bad > 0 {
        println!("VIOLATION property={} replay={path}", v["property"].as_str().unwrap_or("?"));
        1
    } else {
        println!("no oracle is violated by the recorded vector(s)");
        0
    }
}

fn main() {
    quiet_panics();
    let tier = tier_from_args();
    let thorough = tier == "thorough";
    let prop = arg_value("--property").unwrap_or_else(|| "C06".into());
    if let Some(path) = arg_value("--replay") {
        std::process::exit(replay(&path));
    }
    if prop == "C36" {
        std::process::exit(c36(&tier, thorough));
    }
    let reports: Vec<Report> = ["C06", "C07", "C08", "C09"].iter().map(|p| Report::new(p, "exploration", &tier)).collect();
    let r = Reps { c06: &reports[0], c07: &reports[1], c08: &reports[2], c09: &reports[3] };
    let leaf = LeafCtx::new();
    let al = Alpha::new();
    let full = al.full();
    let mid = al.mid();
    let small = al.small();
    let wraps: Vec<PrivWrap> = (1..=4).map(|n| build_priv_wrapper(n, &leaf.data.common)).collect();
    let cxs: Vec<Cx> = wraps.iter().map(|w| Cx::new(&w.data)).collect();
    let slot_of = |ix: &Vec<usize>| al.slot(ix);
    let mut total = 0u64;
    let mut accepted = 0u64;
    let mut set_sizes = serde_json::Map::new();
    let mut samples: Vec<serde_json::Value> = Vec::new();

    let mut run_set = |name: &str, n: usize, vectors: Vec<Vec<Slot>>, grouped: bool| {
        let evals = eval_vectors(&wraps[n - 1], &cxs[n - 1], &vectors);
        for e in &evals {
            per_run_oracles(e, &r, name);
        }
        if grouped {
            group_oracles(&evals, &r, name);
        }
        let acc = evals.iter().filter(|e| e.accept).count() as u64;
        total += evals.len() as u64;
        accepted += acc;
        set_sizes.insert(name.to_string(), json!({"n": n, "vectors": evals.len(), "accepted": acc}));
        for rep in &reports {
            rep.distinct_many(evals.iter().map(|e| hash64(&e.slots)));
        }
        if let Some(e) = evals.iter().find(|e| e.accept && e.slots.iter().any(|s| s.is_dummy()) && e.slots.iter().any(|s| !s.is_dummy())) {
            samples.push(json!({"set": name, "slots": vec_json(&e.slots), "circuit": "ACCEPT", "output": e.pis}));
        }
        if let Some(e) = evals.iter().find(|e| !e.accept) {
            samples.push(json!({"set": name, "slots": vec_json(&e.slots), "circuit": "REJECT", "spec": private_accepts(&e.slots).err()}));
        }
        evals
    };

    // N=1: the full slot alphabet
    // (the full product has ~3.3 M slots: every 16th in quick, all in thorough; N=1 exercises no
    // cross-slot logic, the single-field variations of `mid` are always included)
    let n1: Vec<Vec<Slot>> = full.iter().step_by(if thorough { 1 } else { 16 }).chain(mid.iter()).map(|ix| vec![slot_of(ix)]).collect();
    run_set("N1-full", 1, n1, true);
    // N=2: mid x mid (closed under permutation and under dummy-content replacement)
    let mut v2 = Vec::new();
    for a in &mid {
        for b in &mid {
            v2.push(vec![slot_of(a), slot_of(b)]);
        }
    }
    run_set("N2-mid^2", 2, v2, true);
    if thorough {
        // (strided full) x mid, both slot orders
        // (every 149th slot of the full product - a prime stride, so every value of every field
        // and every residue pattern of neighbouring fields is met - against all of `mid`)
        let strided: Vec<Vec<usize>> = full.iter().step_by(149).cloned().collect();
        for (ci, chunk) in strided.chunks(2000).enumerate() {
            let mut v = Vec::new();
            for a in chunk {
                for b in &mid {
                    v.push(vec![slot_of(a), slot_of(b)]);
                    v.push(vec![slot_of(b), slot_of(a)]);
                }
            }
            run_set(&format!("N2-full*mid#{ci}"), 2, v, true);
        }
    }
    // N=3: small^3
    let mut v3 = Vec::new();
    let s3: Vec<&Vec<usize>> = if thorough { small.iter().collect() } else { small.iter().take(14).collect() };
    for a in &s3 {
        for b in &s3 {
            for c in &s3 {
                v3.push(vec![slot_of(a), slot_of(b), slot_of(c)]);
            }
        }
    }
    run_set("N3-small^3", 3, v3, true);
    // distance balls around base batches, with every permutation of every vector
    let bases = al.bases();
    let sizes = al.sizes();
    for (n, k) in [(3usize, if thorough { 2 } else { 1 }), (4usize, if thorough { 2 } else { 1 })] {
        let base_batches: Vec<Vec<Vec<usize>>> = vec![
            (0..n).map(|i| bases[[0, 1, 2, 3][i % 4]].clone()).collect(),
            (0..n).map(|i| bases[[2, 0, 3, 1][i % 4]].clone()).collect(),
            (0..n).map(|i| { let mut b = bases[i % 2].clone(); if i >= 2 { b[3] = i; b[4] = 3; } b }).collect(), // all real
        ];
        let perms = permutations(n);
        for (bi, bb) in base_batches.iter().enumerate() {
            let alts: Vec<usize> = (0..n * NFIELDS).map(|f| sizes[f % NFIELDS] - 1).collect();
            let mut vectors: Vec<Vec<Slot>> = Vec::new();
            for e in edits_within_distance(&alts, k) {
                let mut v = bb.clone();
                for (fidx, a) in e {
                    let (si, fi) = (fidx / NFIELDS, fidx % NFIELDS);
                    let cur = bb[si][fi];
                    v[si][fi] = if a >= cur { a + 1 } else { a };
                }
                for s in v.iter_mut() {
                    if s[0] != 0 {
                        s[9] = 0;
                    }
                }
                let slots: Vec<Slot> = v.iter().map(|ix| al.slot(ix)).collect();
                // every permutation (preimages move with their slot)
                if n == 4 && k == 2 && !thorough {
                    vectors.push(slots);
                } else {
                    for p in &perms {
                        vectors.push(p.iter().map(|&i| slots[i].clone()).collect());
                    }
                }
            }
            vectors.sort();
            vectors.dedup();
            run_set(&format!("N{n}-ball{k}-base{bi}+perms"), n, vectors, true);
        }
    }
    // N = 8: every placement of two or three real slots among dummies (clean or garbage-filled),
    // the last real one agreeing, or conflicting in exactly one respect (block hash, asset,
    // fee, duplicate nullifier): position- and count-dependent logic beyond N = 4
    {
        let n = 8usize;
        let w = build_priv_wrapper(n, &leaf.data.common);
        let cx = Cx::new(&w.data);
        let reals: [Vec<usize>; 3] = [vec![1, 0, 0, 0, 1, 2, 2, 1, 0, 0], vec![1, 0, 0, 1, 1, 0, 3, 2, 1, 0], vec![1, 0, 0, 3, 2, 1, 1, 2, 0, 0]];
        let dummies: [Vec<usize>; 2] = [vec![0; 10], vec![0, 0, 1, 1, 1, 3, 2, 4, 1, 1]];
        let mut vectors: Vec<Vec<Slot>> = Vec::new();
        let mut push = |pos: &[usize], var: usize, ds: usize| {
            let v: Vec<Slot> = (0..n)
                .map(|k| {
                    let mut sl = if let Some(ri) = pos.iter().position(|&p| p == k) {
                        let mut ix = reals[ri].clone();
                        if ri + 1 == pos.len() {
                            match var {
                                1 => ix[0] = 2,
                                2 => ix[1] = 1,
                                3 => ix[2] = 1,
                                4 => ix[3] = 0,
                                _ => {}
                            }
                        }
                        al.slot(&ix)
                    } else {
                        al.slot(&dummies[ds])
                    };
                    sl.pre = dig(7000 + k as u64);
                    sl
                })
                .collect();
            vectors.push(v);
        };
        for i in 0..n {
            for j in i + 1..n {
                for var in 0..5 {
                    for ds in 0..2 {
                        push(&[i, j], var, ds);
                    }
                }
                for k in j + 1..n {
                    for var in 1..5 {
                        push(&[i, j, k], var, (i + j + k) % 2);
                    }
                }
            }
        }
        let evals = eval_vectors(&w, &cx, &vectors);
        for e in &evals {
            per_run_oracles(e, &r, "N8-placements");
        }
        let acc = evals.iter().filter(|e| e.accept).count() as u64;
        total += evals.len() as u64;
        accepted += acc;
        set_sizes.insert("N8-placements".to_string(), json!({"n": n, "vectors": evals.len(), "accepted": acc}));
        for rep in &reports {
            rep.distinct_many(evals.iter().map(|e| hash64(&e.slots)));
        }
    }
    // N = 16: sixteen compatible real slots with one replayed nullifier (every pair of slots)
    // and with two simultaneous replays (every pair of slot pairs): checks that accumulate
    // collision flags instead of constraining each pair must not let two violations cancel
    {
        let n = 16usize;
        let w = build_priv_wrapper(n, &leaf.data.common);
        let cx = Cx::new(&w.data);
        let base: Vec<Slot> = (0..n)
            .map(|i| {
                let mut sl = al.slot(&vec![1, 0, 0, 0, 1 + i % 2, 2 - i % 2, 1 + i % 2, 1, 0, 0]);
                sl.nullifier = dig(2000 + i as u64);
                sl.pre = dig(2100 + i as u64);
                sl
            })
            .collect();
        let pairs: Vec<(usize, usize)> = (0..n).flat_map(|i| (i + 1..n).map(move |j| (i, j))).collect();
        let mut vectors: Vec<Vec<Slot>> = vec![base.clone()];
        for &(i, j) in &pairs {
            let mut v = base.clone();
            v[j].nullifier = v[i].nullifier;
            vectors.push(v);
        }
        for (a, &(i, j)) in pairs.iter().enumerate() {
            for &(k, l) in &pairs[a + 1..] {
                if thorough || (a + k + l) % 2 == 0 || (k * n + l).abs_diff(i * n + j) > 60 {
                    let mut v = base.clone();
                    v[j].nullifier = v[i].nullifier;
                    if l != j {
                        v[l].nullifier = v[k].nullifier;
                    } else {
                        v[k].nullifier = v[i].nullifier;
                    }
                    vectors.push(v);
                }
            }
        }
        let evals = eval_vectors(&w, &cx, &vectors);
        for e in &evals {
            per_run_oracles(e, &r, "N16-replays");
        }
        let acc = evals.iter().filter(|e| e.accept).count() as u64;
        total += evals.len() as u64;
        accepted += acc;
        set_sizes.insert("N16-replays".to_string(), json!({"n": n, "vectors": evals.len(), "accepted": acc}));
        for rep in &reports {
            rep.distinct_many(evals.iter().map(|e| hash64(&e.slots)));
        }
    }
    // larger N: seeded, labelled sampled
    let mut sampled = 0u64;
    {
        use rand::{Rng, SeedableRng};
        let mut rng = rand::rngs::StdRng::seed_from_u64(seed() as u64 ^ 0xC06);
        for n in [8usize, 16] {
            let w = build_priv_wrapper(n, &leaf.data.common);
            let cx = Cx::new(&w.data);
            let vs: Vec<Vec<Slot>> = (0..(if thorough { 40 } else { 6 }))
                .map(|t| {
                    (0..n)
                        .map(|i| {
                            let mut ix = bases[if rng.gen_bool(0.3) { 2 } else { rng.gen_range(0..2) }].clone();
                            let mut s = al.slot(&ix);
                            if !s.is_dummy() {
                                s.nullifier = dig(1000 + (t * 100 + i) as u64);
                                if rng.gen_bool(0.1) {
                                    ix[0] = 2;
                                    s = Slot { nullifier: s.nullifier, ..al.slot(&ix) };
                                }
                                s.a1 = rng.gen_range(0..1u64 << 29);
                                s.e1 = al.exits[rng.gen_range(0..4)];
                            }
                            s.pre = dig(5000 + (t * 100 + i) as u64);
                            s
                        })
                        .collect()
                })
                .collect();
            for e in eval_vectors(&w, &cx, &vs) {
                sampled += 1;
                per_run_oracles(&e, &r, &format!("sampled-N{n}"));
            }
        }
    }

    for rep in &reports {
        rep.eval(total);
        rep.extra("vector_sets", json!(set_sizes));
        rep.extra("accepted_vectors", json!(accepted));
        rep.extra("sampled_runs_N8_N16 (NOT part of the exhaustive counts)", json!(sampled));
        rep.extra("slot_alphabet", json!({"block hash": "{0, B1, B2, B1 with each single limb bumped, B1 with limb0+1/limb1-1, the non-zero digest [1,p-1,0,0] whose limbs sum to 0}", "asset": "{0,1}", "fee": "{0,7}", "nullifier": "{n1,n2,n3, n1 with each single limb bumped, n1 with limb0+1/limb1-1}", "exit accounts": "{zero, X, Y, X with each single limb bumped, X with limb0+1/limb1-1 (same limb sum), [1,p-1,0,0] (limb sum 0)} per output", "amounts": "{0,1,5,2^31,2^32-1} per output", "preimage": "{u1,u2}", "dummy block number": "{0,77}", "sizes": {"full": full.len(), "mid (bases+single-field variations+pairwise cover)": mid.len(), "small": small.len()}}));
        rep.rule("case = vector of N leaf statements (+ per-slot preimages) assigned to the free child public inputs of the circuit built by the real build_private_batch_constraints; every vector of the listed sets is run through all generators and all gate/copy constraints; oracles: acceptance == spec predicate (C07), output == specified aggregate (C06), conservation from inputs/outputs (C08), differential invariance under every permutation and under every replacement of dummy-slot contents inside the set (C07/C09), zero-slot rule (C09). distinct = distinct vectors");
        rep.assume("child statements range over what the leaf circuit can prove (C01): 32-bit amounts, block number a function of a non-zero block hash; the wrapper-only circuit uses zero_knowledge=false (blinding adds no constraint on wrapper wires); recursion binding is C11's concern");
        for s in samples.iter().take(6) {
            rep.sample(s.clone());
        }
    }
    let refs: Vec<&Report> = reports.iter().collect();
    std::process::exit(finish_all(&refs, Some(&prop)));
}

// ---------------------------------------------------------------------------------------
// C36
// ---------------------------------------------------------------------------------------
fn c36(tier: &str, thorough: bool) -> i32 {
    let rep = Report::new("C36", "exploration", tier);
    let leaf = LeafCtx::new();
    let al = Alpha::new();
    let n = 2usize;
    let w = build_priv_wrapper(n, &leaf.data.common);
    let cx = Cx::new(&w.data);
    let pubs: Vec<PubWrap> = [2usize, 3].iter().map(|&m| build_pub_wrapper(m, n, &leaf.data.common)).collect();
    let pcx: Vec<Cx> = pubs.iter().map(|p| Cx::new(&p.data)).collect();
    let x = al.exits[1];
    let y = al.exits[2];
    let mut placements_total = 0usize;
    // the shared block hash: an ordinary digest, and non-zero digests a careless zero test
    // (limb sum, first/last limb only) would classify as padding
    let bhs: Vec<D4> = if thorough { vec![al.bh[1], ZSUM, ZLAST, ZFIRST, [vharness::cx::P - 1, 1, vharness::cx::P - 1, 1]] } else { vec![al.bh[1], ZSUM, ZLAST] };
    for (bi, b1) in bhs.iter().cloned().enumerate() {
    let mk = |k: u64, e1: D4, a1: u64, e2: D4, a2: u64| Slot { asset: 0, a1, a2, fee: 0, nullifier: dig(700 + k), e1, e2, bh: b1, number: 100, pre: dig(800 + k) };
    // six compatible leaf statements: shared and distinct accounts, one zero-account payment
    let leaves: Vec<Slot> = vec![
        mk(0, x, 5, y, 1),
        mk(1, x, 1 << 31, y, 0),
        mk(2, y, 7, y, 9),
        mk(3, dig(12), 3, x, (1 << 31) - 1),
        mk(4, Z4, 4, x, 2),
        mk(5, dig(13), 0, dig(14), 11),
    ];
    let dummy = |k: u64| Slot { asset: 0, a1: 0, a2: 0, fee: 0, nullifier: dig(900 + k), e1: Z4, e2: Z4, bh: Z4, number: 0, pre: dig(950 + k) };
    let addr = dig(77);
    // every placement of every subset of size 1..4 into the 4 leaf slots of two batches
    let mut placements: Vec<Vec<Option<usize>>> = Vec::new();
    product_indices(&[7, 7, 7, 7], |ix| {
        let chosen: Vec<usize> = ix.iter().filter(|&&v| v < 6).cloned().collect();
        let mut d = chosen.clone();
        d.sort();
        d.dedup();
        if chosen.is_empty() || d.len() != chosen.len() {
            return;
        }
        placements.push(ix.iter().map(|&v| if v < 6 { Some(v) } else { None }).collect());
    });
    let results: Vec<Option<String>> = par_map(&placements, |pi, pl| {
        let slots: Vec<Slot> = pl.iter().enumerate().map(|(i, o)| o.map(|k| leaves[k].clone()).unwrap_or_else(|| dummy(i as u64))).collect();
        let mut inners: Vec<Inner> = Vec::new();
        for b in 0..2 {
            let bs = &slots[b * 2..b * 2 + 2];
            match cx.run(&w.inputs(bs), &[], &[], false).verdict {
                vharness::cx::Verdict::Accept { pis, .. } => inners.push(Inner { pis }),
                vharness::cx::Verdict::Reject(r) => {
                    if private_accepts(bs).is_ok() {
                        return Some(format!("inner batch {b} rejected: {r:?}"));
                    }
                    return None; // an incompatible split (group sum >= 2^32): not a real batch
                }
            }
        }
        // padding level at the outer layer: M=2 as is, and M=3 with an all-dummy third inner
        let dummy_inner = match cx.run(&w.inputs(&[dummy(10), dummy(11)]), &[], &[], false).verdict {
            vharness::cx::Verdict::Accept { pis, .. } => Inner { pis },
            _ => return Some("all-dummy inner batch rejected by the private wrapper".into()),
        };
        for (mi, m) in [2usize, 3].iter().enumerate() {
            if *m == 3 && pi % 4 != 0 && !thorough {
                continue;
            }
            let mut ins = inners.clone();
            if *m == 3 {
                // the all-dummy inner in every position
                ins.insert(pi % 3, dummy_inner.clone());
            }
            let out = match pcx[mi].run(&pubs[mi].inputs(addr, &ins), &[], &[], false).verdict {
                vharness::cx::Verdict::Accept { pis, .. } => pis,
                vharness::cx::Verdict::Reject(r) => return Some(format!("outer batch (M={m}) rejected: {r:?}")),
            };
            let total_slots = 2 * n * m;
            let mut sum_out: u128 = 0;
            for s in 0..total_slots {
                sum_out += out[12 + 5 * s] as u128;
            }
            let want: u128 = slots.iter().filter(|s| !s.is_dummy()).map(|s| s.a1 as u128 + s.a2 as u128).sum();
            if sum_out != want {
                return Some(format!("M={m}: outer exit slots sum to {sum_out}, real leaves paid {want}"));
            }
            let mut nulls: Vec<D4> = Vec::new();
            for k in 0..n * m {
                let b = 12 + 5 * total_slots + 4 * k;
                let d = [out[b], out[b + 1], out[b + 2], out[b + 3]];
                if d != Z4 {
                    nulls.push(d);
                }
            }
            nulls.sort();
            let mut want_n: Vec<D4> = Vec::new();
            for b in 0..2 {
                let bs = &slots[b * 2..b * 2 + 2];
                if bs.iter().all(|s| s.is_dummy()) {
                    continue; // padding inner adds nothing
                }
                for s in bs {
                    want_n.push(if s.is_dummy() { s.dummy_nullifier() } else { s.nullifier });
                }
            }
            want_n.sort();
            if nulls != want_n {
                return Some(format!("M={m}: outer non-zero nullifiers are not (real leaves' nullifiers + dummy replacements of real inners)"));
            }
        }
        None
    });
    for (pl, res) in placements.iter().zip(&results) {
        rep.eval(1);
        rep.distinct(hash64(&(bi, pl)));
        if let Some(msg) = res {
            rep.violation(&format!("c36:{bi}:{pl:?}"), &format!("two-layer aggregation (block hash {b1:?}): {msg}"), json!({"block_hash": b1, "placement (leaf index per slot, null = dummy)": pl}));
        }
    }
    if bi == 0 {
        rep.sample(json!({"placement": placements[100], "leaves": vec_json(&leaves)}));
    }
    placements_total += placements.len();
    }
    rep.extra("placements", json!(placements_total));
    rep.extra("block_hashes", json!(bhs));
    rep.extra("bounds", json!({"leaf alphabet": 6, "subset sizes": "1..4", "layout": "M=2 private batches of N=2 slots; every injective placement; remaining slots dummy; outer padding M=3 with an all-dummy inner in varying position"}));
    rep.rule("case = (shared block hash, placement of k distinct leaf statements into the 4 slots of two N=2 private batches); block hashes include non-zero digests with limb sum 0 mod p and with a single non-zero limb; both wrappers are the real constraint builders evaluated by CX; the private wrapper's accepted output is fed verbatim as the inner public inputs of the public wrapper; oracle: outer non-zero slot sums total the real leaves' outputs, outer non-zero nullifiers = real nullifiers + H(H(u)) of dummy slots of real inners, padding inners add nothing");
    rep.assume("recursion (that an inner's public inputs are what the inner circuit produced) is C11's concern; real two-layer proofs are exercised by C18's check");
    rep.finish()
}
