//! C17: artifact loaders accept only canonical circuits and bound their reads.
//!
//! Every loader of verifier artifacts is driven with finite, explicitly enumerated sets of
//! byte strings / bins directories. Oracle:
//!  * accepted <=> the bytes are the harness's own rebuild of the canonical circuit for the
//!    configured shape (public batch: both files load and re-serialise to those bytes);
//!    a loader that unwinds has rejected (listed in the evidence, not a violation);
//!  * a file over the size cap is rejected without being read (`/proc/self/io` `rchar`),
//!    a slice over the cap without being hashed (refusal time vs. one keccak pass);
//!  * constructors return the canonical circuits whatever prover artifacts are planted in
//!    the directory, and read no more than the genuine artifacts.
//!
//! `loaders --property C17 --tier quick|thorough [--replay <file>]`; development aids:
//! LOADERS_ONLY / LOADERS_JOBS / LOADERS_TIMES / LOADERS_PAR (see `body`).
use plonky2::field::types::Field;
use plonky2::plonk::circuit_data::{CommonCircuitData, VerifierCircuitData, VerifierOnlyCircuitData};
use plonky2::util::serialization::DefaultGateSerializer;
use rayon::prelude::*;
use serde_json::{json, Value};
use std::collections::BTreeMap;
use std::path::{Path, PathBuf};
use std::sync::atomic::{AtomicU64, Ordering};
use std::time::Instant;
use vharness::cx::{C, D, F};
use vharness::fixtures::{leaf_verifier, private_batch_circuit};
use vharness::mcx::*;
use wormhole_aggregator::aggregator::PublicBatchAggregator;
use wormhole_aggregator::common::utils::{
    ensure_verifier_data_matches_canonical, load_canonical_leaf_verifier_data, load_canonical_private_batch_verifier_data, load_verifier_data_from_bytes, read_artifact_file, MAX_ARTIFACT_FILE_BYTES,
};
use wormhole_aggregator::pool::PoolLimits;
use wormhole_aggregator::private_batch::circuit::build::generate_private_batch_circuit_binaries;
use wormhole_aggregator::private_batch::prover::PrivateBatchProver;
use wormhole_aggregator::public_batch::circuit::{generate_public_batch_circuit_binaries, PublicBatchCircuit};
use wormhole_aggregator::public_batch::prover::PublicBatchProver;
use wormhole_verifier::{WormholeVerifier, MAX_VERIFIER_ARTIFACT_BYTES};
use zk_circuits_common::circuit::wormhole_public_batch_circuit_config;
use zk_circuits_common::utils::BytesDigest;

type VData = VerifierCircuitData<F, C, D>;

const N_LEAF: usize = 1; // leaf proofs per private batch in the fixture directory
const M_PRIV: usize = 2; // private batches per public batch in the fixture directory
const N_OTHER: usize = 2; // "other shape" for the private-batch pin
const M_OTHER: usize = 1; // "other shape" for the public-batch pin
const READ_SLACK: u64 = 64 * 1024; // an over-cap file may cost at most this many bytes of reads

static ROOT: std::sync::OnceLock<PathBuf> = std::sync::OnceLock::new();
/// machinery error that first removes the scratch directory
fn die(msg: &str) -> ! {
    if let Some(r) = ROOT.get() {
        let _ = std::fs::remove_dir_all(r);
    }
    machinery_error(msg)
}

// ---------------------------------------------------------------------------------
// outcomes
// ---------------------------------------------------------------------------------

#[derive(Clone, Debug, PartialEq)]
enum Out {
    Acc,
    Rej(String),
    Panic(String),
}
impl Out {
    fn short(&self) -> String {
        match self {
            Out::Acc => "accepted".into(),
            Out::Rej(e) => format!("rejected: {}", e.chars().take(200).collect::<String>()),
            Out::Panic(p) => format!("PANIC: {}", p.chars().take(200).collect::<String>()),
        }
    }
}

fn run<T>(f: impl FnOnce() -> anyhow::Result<T>) -> (Out, Option<T>) {
    match catch(f) {
        Ok(Ok(t)) => (Out::Acc, Some(t)),
        Ok(Err(e)) => (Out::Rej(format!("{e:#}")), None),
        Err(p) => (Out::Panic(p), None),
    }
}

/// `--replay <file>`: only the case whose key is recorded in the replay file is executed.
static REPLAY: std::sync::OnceLock<Option<String>> = std::sync::OnceLock::new();
fn wanted(key: &str) -> bool {
    match REPLAY.get().and_then(|r| r.as_ref()) {
        None => true,
        Some(r) => r == key || (r.starts_with(key) && r[key.len()..].starts_with(':')),
    }
}
fn viol(rep: &Report, key: &str, what: &str, case: Value) {
    if !wanted(key) {
        return;
    }
    if REPLAY.get().and_then(|r| r.as_ref()).is_some() {
        eprintln!("  -> [{key}] {what}");
    }
    rep.violation(key, what, case);
}

/// C17 only forbids ACCEPTING a non-canonical artifact: a loader that unwinds on one has rejected it. Such
/// inputs are counted and listed in the evidence (`inputs_rejected_by_panic`), they are not violations.
static PANIC_NOTES: std::sync::Mutex<Vec<(String, String)>> = std::sync::Mutex::new(Vec::new());
fn note_panic(key: &str, msg: &str) {
    PANIC_NOTES.lock().unwrap().push((key.to_string(), msg.to_string()));
}

/// Compare one loader outcome with the oracle. `key` is the stable identity of the case.
fn judge(rep: &Report, key: &str, what: &str, expect_accept: bool, out: &Out) {
    if !wanted(key) {
        return;
    }
    rep.eval(1);
    match (out, expect_accept) {
        (Out::Acc, true) | (Out::Rej(_), false) => {}
        (Out::Panic(p), false) => note_panic(key, p),
        (Out::Panic(p), true) => viol(rep, key, &format!("{what}: the canonical artifact was not accepted, the loader panicked: {p}"), json!({"case": key, "expected_accept": true, "outcome": out.short()})),
        (Out::Acc, false) => viol(rep, key, &format!("{what}: NON-CANONICAL artifact bytes were ACCEPTED"), json!({"case": key, "expected_accept": false, "outcome": "accepted"})),
        (Out::Rej(e), true) => viol(rep, key, &format!("{what}: the canonical artifact was REJECTED: {e}"), json!({"case": key, "expected_accept": true, "outcome": out.short()})),
    }
}

// ---------------------------------------------------------------------------------
// byte mutations
// ---------------------------------------------------------------------------------

#[derive(Clone, Copy, Debug, PartialEq, Eq, Hash)]
enum Mu {
    Flip(usize),  // bit index
    Trunc(usize), // new (shorter) length
    Ext(u8),      // one byte appended
}
impl Mu {
    fn apply(&self, base: &[u8]) -> Vec<u8> {
        match *self {
            Mu::Flip(b) => {
                let mut v = base.to_vec();
                v[b / 8] ^= 1 << (b % 8);
                v
            }
            Mu::Trunc(k) => base[..k].to_vec(),
            Mu::Ext(x) => {
                let mut v = base.to_vec();
                v.push(x);
                v
            }
        }
    }
    fn label(&self) -> String {
        match *self {
            Mu::Flip(b) => format!("flip(byte {},bit {})", b / 8, b % 8),
            Mu::Trunc(k) => format!("truncate({k})"),
            Mu::Ext(x) => format!("extend(0x{x:02x})"),
        }
    }
}

/// every single-bit flip, every proper prefix (incl. empty), the two one-byte extensions
fn all_mutations(len: usize) -> Vec<Mu> {
    let mut v: Vec<Mu> = (0..len * 8).map(Mu::Flip).collect();
    v.extend((0..len).map(Mu::Trunc));
    v.push(Mu::Ext(0x00));
    v.push(Mu::Ext(0xff));
    v
}

/// `k` bit positions spread evenly over the file, first and last bit included, rotating bit-in-byte
fn spread_flips(len: usize, k: usize) -> Vec<Mu> {
    let bits = len * 8;
    let mut out: Vec<usize> = (0..k).map(|i| if k == 1 { 0 } else { i * (bits - 1) / (k - 1) }).collect();
    for (i, b) in out.iter_mut().enumerate() {
        if i != 0 && i != k - 1 {
            *b = (*b / 8) * 8 + (i % 8);
        }
    }
    out.sort();
    out.dedup();
    out.into_iter().map(Mu::Flip).collect()
}
fn spread_truncs(len: usize, k: usize) -> Vec<Mu> {
    let mut out: Vec<usize> = (0..k).map(|i| if k == 1 { len - 1 } else { i * (len - 1) / (k - 1) }).collect();
    out.sort();
    out.dedup();
    out.into_iter().map(Mu::Trunc).collect()
}

// ---------------------------------------------------------------------------------
// fixture
// ---------------------------------------------------------------------------------

fn ser(v: &VData) -> (Vec<u8>, Vec<u8>) {
    (v.common.to_bytes(&DefaultGateSerializer).expect("serialise common"), v.verifier_only.to_bytes().expect("serialise verifier-only"))
}

struct Fx {
    root: PathBuf,
    good: PathBuf,
    files: BTreeMap<String, Vec<u8>>,
    leaf: VData,
    leaf_c: Vec<u8>,
    leaf_v: Vec<u8>,
    zk_leaf: Option<(Vec<u8>, Vec<u8>)>, // (common, verifier) of the leaf circuit under the zk recursion config
    pb_c: Vec<u8>, // private batch, N_LEAF
    pb_v: Vec<u8>,
    pbo_c: Vec<u8>, // private batch, N_OTHER
    pbo_v: Vec<u8>,
    pubd: VData, // public batch (N_LEAF, M_PRIV)
    pub_c: Vec<u8>,
    pub_v: Vec<u8>,
    pubo_c: Vec<u8>, // public batch (N_LEAF, M_OTHER)
    pubo_v: Vec<u8>,
    seq: AtomicU64,
}

fn public_batch(pb: &VData, m: usize, n: usize) -> VData {
    PublicBatchCircuit::new(wormhole_public_batch_circuit_config(), pb.common.clone(), &pb.verifier_only, m, n).expect("canonical public batch circuit").build_verifier()
}

enum Edit {
    Bytes(Vec<u8>),
    Sparse(u64),
    /// a symbolic link to the given (existing) file
    Link(PathBuf),
    Dir,
    Remove,
}

impl Fx {
    fn f(&self, name: &str) -> &Vec<u8> {
        self.files.get(name).unwrap_or_else(|| die(&format!("fixture directory has no {name}")))
    }
    /// a fresh copy of the good directory with the given edits applied
    fn dir_with(&self, tag: &str, edits: Vec<(&str, Edit)>) -> PathBuf {
        let n = self.seq.fetch_add(1, Ordering::Relaxed);
        let d = self.root.join(format!("d{n}-{tag}"));
        std::fs::create_dir_all(&d).unwrap_or_else(|e| die(&format!("mkdir {}: {e}", d.display())));
        for (name, bytes) in &self.files {
            std::fs::write(d.join(name), bytes).unwrap_or_else(|e| die(&format!("write {name}: {e}")));
        }
        for (name, e) in edits {
            let p = d.join(name);
            let r: std::io::Result<()> = (|| {
                if p.is_file() {
                    std::fs::remove_file(&p)?;
                }
                match e {
                    Edit::Bytes(b) => {
                        if let Some(parent) = p.parent() {
                            std::fs::create_dir_all(parent)?;
                        }
                        std::fs::write(&p, b)
                    }
                    Edit::Sparse(len) => std::fs::File::create(&p)?.set_len(len),
                    Edit::Link(target) => std::os::unix::fs::symlink(target, &p),
                    Edit::Dir => {
                        std::fs::create_dir_all(&p)?;
                        std::fs::write(p.join("inner.bin"), b"planted")
                    }
                    Edit::Remove => Ok(()),
                }
            })();
            r.unwrap_or_else(|e| die(&format!("edit {name} in {}: {e}", d.display())));
        }
        d
    }
    fn rm(&self, d: &Path) {
        let _ = std::fs::remove_dir_all(d);
    }
}

fn build_fixture(root: &Path) -> Fx {
    let t0 = Instant::now();
    let good = root.join("good");
    // the generated directory, the harness's independent rebuilds (harness-side constructors, not the
    // loaders' canonical_* helpers) and the other-configuration leaf are built concurrently
    let (gen, (rebuilt, zk)) = rayon::join(
        || catch(|| circuit_builder::generate_all_circuit_binaries(&good, true, N_LEAF, Some(M_PRIV))),
        || {
            rayon::join(
                || {
                    let leaf = leaf_verifier();
                    let (pb, pbo) = rayon::join(|| private_batch_circuit(N_LEAF, &leaf).0.verifier_data(), || private_batch_circuit(N_OTHER, &leaf).0.verifier_data());
                    let (pubd, pubo) = rayon::join(|| public_batch(&pb, M_PRIV, N_LEAF), || public_batch(&pb, M_OTHER, N_LEAF));
                    (leaf, pb, pbo, pubd, pubo)
                },
                || catch(|| wormhole_circuit::circuit::circuit_logic::WormholeCircuit::new(plonky2::plonk::circuit_data::CircuitConfig::standard_recursion_zk_config()).map(|c| c.build_verifier())),
            )
        },
    );
    match gen {
        Ok(Ok(())) => {}
        other => die(&format!("could not generate the fixture bins directory: {other:?}")),
    }
    let mut files = BTreeMap::new();
    for e in std::fs::read_dir(&good).unwrap_or_else(|e| die(&format!("read_dir: {e}"))) {
        let e = e.unwrap();
        if !e.file_type().unwrap().is_file() {
            die(&format!("unexpected non-file {} in the generated directory", e.path().display()));
        }
        files.insert(e.file_name().to_string_lossy().to_string(), std::fs::read(e.path()).unwrap());
    }
    for forbidden in ["prover.bin", "private_batch_prover.bin", "public_batch_prover.bin"] {
        if files.contains_key(forbidden) {
            die(&format!("the generator emitted {forbidden}; the planted-prover cases would be meaningless"));
        }
    }
    let (leaf, pb, pbo, pubd, pubo) = rebuilt;
    let zk_leaf = match zk {
        Ok(Ok(d)) => Some(ser(&d)),
        _ => None,
    };
    let (leaf_c, leaf_v) = ser(&leaf);
    let (pb_c, pb_v) = ser(&pb);
    let (pbo_c, pbo_v) = ser(&pbo);
    let (pub_c, pub_v) = ser(&pubd);
    let (pubo_c, pubo_v) = ser(&pubo);
    let fx = Fx { root: root.to_path_buf(), good, files, leaf, leaf_c, leaf_v, pb_c, pb_v, pbo_c, pbo_v, pubd, pub_c, pub_v, pubo_c, pubo_v, zk_leaf, seq: AtomicU64::new(0) };
    // the generated directory and the independent rebuilds must agree, otherwise nothing below means anything
    for (name, want) in [("common.bin", &fx.leaf_c), ("verifier.bin", &fx.leaf_v), ("private_batch_common.bin", &fx.pb_c), ("private_batch_verifier.bin", &fx.pb_v), ("public_batch_common.bin", &fx.pub_c), ("public_batch_verifier.bin", &fx.pub_v)] {
        if fx.f(name) != want {
            die(&format!("fixture disagreement: generated {name} differs from the harness's independent rebuild of the canonical circuit"));
        }
    }
    for (a, b, what) in [(&fx.pb_c, &fx.pbo_c, "private-batch common N=1 vs N=2"), (&fx.pb_v, &fx.pbo_v, "private-batch verifier N=1 vs N=2"), (&fx.pub_c, &fx.pubo_c, "public-batch common M=2 vs M=1"), (&fx.pub_v, &fx.pubo_v, "public-batch verifier M=2 vs M=1")] {
        if a == b {
            eprintln!("note: {what} serialise identically; the other-shape case on that file is vacuous");
        }
    }
    eprintln!("[loaders] fixture in {:.1}s: leaf {}+{} B, private {}+{} B, public {}+{} B", t0.elapsed().as_secs_f64(), fx.leaf_c.len(), fx.leaf_v.len(), fx.pb_c.len(), fx.pb_v.len(), fx.pub_c.len(), fx.pub_v.len());
    fx
}

// ---------------------------------------------------------------------------------
// A. keccak-pinned leaf loader: exhaustive single-bit flips / truncations / extensions
// ---------------------------------------------------------------------------------

/// (which file: 0 = verifier.bin, 1 = common.bin; mutation)
fn leaf_mutation_list(fx: &Fx) -> Vec<(u8, Mu)> {
    let mut v: Vec<(u8, Mu)> = all_mutations(fx.leaf_v.len()).into_iter().map(|m| (0u8, m)).collect();
    v.extend(all_mutations(fx.leaf_c.len()).into_iter().map(|m| (1u8, m)));
    v
}
fn leaf_pair(fx: &Fx, which: u8, m: &Mu) -> (Vec<u8>, Vec<u8>) {
    if which == 0 {
        (m.apply(&fx.leaf_v), fx.leaf_c.clone())
    } else {
        (fx.leaf_v.clone(), m.apply(&fx.leaf_c))
    }
}
fn fname(which: u8) -> &'static str {
    if which == 0 {
        "verifier.bin"
    } else {
        "common.bin"
    }
}

/// named whole-file substitutions for the leaf loaders: (label, verifier bytes, common bytes)
fn leaf_specials(fx: &Fx) -> Vec<(String, Vec<u8>, Vec<u8>)> {
    let mut v: Vec<(String, Vec<u8>, Vec<u8>)> = vec![
        ("canonical".into(), fx.leaf_v.clone(), fx.leaf_c.clone()),
        ("files swapped".into(), fx.leaf_c.clone(), fx.leaf_v.clone()),
        ("common twice".into(), fx.leaf_c.clone(), fx.leaf_c.clone()),
        ("verifier twice".into(), fx.leaf_v.clone(), fx.leaf_v.clone()),
        ("both empty".into(), vec![], vec![]),
        ("verifier empty".into(), vec![], fx.leaf_c.clone()),
        ("common empty".into(), fx.leaf_v.clone(), vec![]),
        ("private-batch(N=1) artifacts".into(), fx.pb_v.clone(), fx.pb_c.clone()),
        ("private-batch(N=1) verifier with leaf common".into(), fx.pb_v.clone(), fx.leaf_c.clone()),
        ("leaf verifier with private-batch(N=1) common".into(), fx.leaf_v.clone(), fx.pb_c.clone()),
        ("public-batch artifacts".into(), fx.pub_v.clone(), fx.pub_c.clone()),
    ];
    // the leaf circuit under another configuration (if the constructor lets it be built)
    if let Some((c, vv)) = fx.zk_leaf.clone() {
        v.push(("leaf circuit under the zk recursion config".into(), vv.clone(), c.clone()));
        v.push(("zk-config common with canonical verifier".into(), fx.leaf_v.clone(), c));
        v.push(("zk-config verifier with canonical common".into(), vv, fx.leaf_c.clone()));
    }
    v
}

fn section_keccak(rep: &Report, fx: &Fx) -> usize {
    let t0 = Instant::now();
    let list = leaf_mutation_list(fx);
    let hashes: Vec<u64> = list
        .par_iter()
        .map(|(which, m)| {
            let key = format!("keccak:{}:{}", fname(*which), m.label());
            if !wanted(&key) {
                return hash64(&key);
            }
            let (v, c) = leaf_pair(fx, *which, m);
            let expect = v == fx.leaf_v && c == fx.leaf_c;
            let (out, got) = run(|| WormholeVerifier::new_from_bytes(&v, &c));
            judge(rep, &key, &format!("WormholeVerifier::new_from_bytes with {} of {}", m.label(), fname(*which)), expect, &out);
            drop(got);
            hash64(&key)
        })
        .collect();
    rep.distinct_many(hashes);
    let specials = leaf_specials(fx);
    for (label, v, c) in &specials {
        let key = format!("keccak:special:{label}");
        if !wanted(&key) {
            continue;
        }
        let expect = *v == fx.leaf_v && *c == fx.leaf_c;
        let (out, got) = run(|| WormholeVerifier::new_from_bytes(v, c));
        judge(rep, &key, &format!("WormholeVerifier::new_from_bytes with {label}"), expect, &out);
        rep.distinct(hash64(&key));
        if let Some(w) = got {
            // what the accepting loader hands back must itself be the canonical circuit
            let back_v = w.circuit_data.verifier_only.to_bytes().ok();
            if back_v.as_deref() != Some(&fx.leaf_v[..]) || w.circuit_data.common.num_public_inputs != fx.leaf.common.num_public_inputs {
                viol(rep, &format!("{key}:returned"), "WormholeVerifier::new_from_bytes returned circuit data that does not serialise to the canonical bytes", json!({"case": key}));
            }
        }
    }
    rep.sample(json!({"loader": "WormholeVerifier::new_from_bytes", "case": list[list.len() / 3].1.label(), "file": fname(list[list.len() / 3].0), "expected": "rejected"}));
    eprintln!("[loaders] A keccak sweep: {} cases in {:.1}s", list.len() + specials.len(), t0.elapsed().as_secs_f64());
    list.len() + specials.len()
}

// ---------------------------------------------------------------------------------
// B. rebuild-based leaf loader
// ---------------------------------------------------------------------------------

fn section_leaf_rebuild(rep: &Report, fx: &Fx, thorough: bool) -> (usize, usize) {
    let t0 = Instant::now();
    let stride = if thorough { 1 } else { 13 };
    let all = leaf_mutation_list(fx);
    let mut cases: Vec<(String, Vec<u8>, Vec<u8>)> = all
        .iter()
        .enumerate()
        .filter(|(j, (_, m))| j % stride == 0 || matches!(m, Mu::Ext(_)) || matches!(m, Mu::Trunc(k) if k % 16 == 0))
        .map(|(_, (which, m))| {
            let (v, c) = leaf_pair(fx, *which, m);
            (format!("{}:{}", fname(*which), m.label()), v, c)
        })
        .collect();
    cases.extend(leaf_specials(fx).into_iter().map(|(l, v, c)| (format!("special:{l}"), v, c)));
    let hashes: Vec<u64> = cases
        .par_iter()
        .map(|(label, v, c)| {
            let key = format!("leaf-rebuild:{label}");
            if !wanted(&key) {
                return hash64(&key);
            }
            let expect = *v == fx.leaf_v && *c == fx.leaf_c;
            let (out, got) = run(|| load_canonical_leaf_verifier_data(c, v));
            judge(rep, &key, &format!("load_canonical_leaf_verifier_data with {label}"), expect, &out);
            if let Some(d) = got {
                if ser(&d) != (fx.leaf_c.clone(), fx.leaf_v.clone()) {
                    viol(rep, &format!("{key}:returned"), "load_canonical_leaf_verifier_data returned data that does not serialise to the canonical leaf bytes", json!({"case": key}));
                }
            }
            hash64(&key)
        })
        .collect();
    rep.distinct_many(hashes);
    rep.sample(json!({"loader": "load_canonical_leaf_verifier_data", "case": cases[cases.len() / 2].0, "expected": "rejected"}));
    eprintln!("[loaders] B leaf rebuild loader: {} cases (stride {stride}) in {:.1}s", cases.len(), t0.elapsed().as_secs_f64());
    (cases.len(), stride)
}

// ---------------------------------------------------------------------------------
// jobs: expensive loader calls, run together on all cores
// ---------------------------------------------------------------------------------

struct Job<'a> {
    key: String,
    what: String,
    expect: bool,
    /// returns the outcome and, for an accepted call, an anomaly in what was returned
    f: Box<dyn Fn() -> (Out, Option<String>) + Send + Sync + 'a>,
}

fn job<'a, T>(key: String, what: String, expect: bool, call: impl Fn() -> anyhow::Result<T> + Send + Sync + 'a, post: impl Fn(&T) -> Option<String> + Send + Sync + 'a) -> Job<'a> {
    Job {
        key,
        what,
        expect,
        f: Box::new(move || {
            let (out, got) = run(&call);
            let anomaly = got.as_ref().and_then(|t| catch(|| post(t)).unwrap_or_else(|p| Some(format!("inspecting the returned object panicked: {p}"))));
            (out, anomaly)
        }),
    }
}

fn run_jobs(rep: &Report, jobs: &[Job]) {
    let width: usize = std::env::var("LOADERS_PAR").ok().and_then(|s| s.parse().ok()).unwrap_or(16);
    let pool = rayon::ThreadPoolBuilder::new().num_threads(width).build().unwrap_or_else(|e| die(&format!("thread pool: {e}")));
    let hashes: Vec<u64> = pool.install(|| jobs
        .par_iter()
        .map(|j| {
            if !wanted(&j.key) {
                return hash64(&j.key);
            }
            let t = Instant::now();
            let (out, anomaly) = (j.f)();
            if std::env::var("LOADERS_TIMES").is_ok() {
                eprintln!("[job] {:.2}s {} -> {}", t.elapsed().as_secs_f64(), j.key, out.short().chars().take(60).collect::<String>());
            }
            judge(rep, &j.key, &j.what, j.expect, &out);
            if let Some(a) = anomaly {
                viol(rep, &format!("{}:returned", j.key), &format!("{}: accepted, but {a}", j.what), json!({"case": j.key}));
            }
            hash64(&j.key)
        })
        .collect());
    rep.distinct_many(hashes);
}

fn no_post<T>(_: &T) -> Option<String> {
    None
}

// ---------------------------------------------------------------------------------
// C. private-batch pin (raw byte equality against a rebuild for the configured N)
// ---------------------------------------------------------------------------------

/// (label, common bytes, verifier bytes, configured num_leaf_proofs)
fn private_batch_cases(fx: &Fx, thorough: bool) -> Vec<(String, Vec<u8>, Vec<u8>, usize)> {
    let mut v: Vec<(String, Vec<u8>, Vec<u8>, usize)> = vec![
        (format!("canonical N={N_LEAF} as n={N_LEAF}"), fx.pb_c.clone(), fx.pb_v.clone(), N_LEAF),
        (format!("canonical N={N_OTHER} as n={N_OTHER}"), fx.pbo_c.clone(), fx.pbo_v.clone(), N_OTHER),
        (format!("canonical N={N_OTHER} presented as n={N_LEAF}"), fx.pbo_c.clone(), fx.pbo_v.clone(), N_LEAF),
        (format!("canonical N={N_LEAF} presented as n={N_OTHER}"), fx.pb_c.clone(), fx.pb_v.clone(), N_OTHER),
        ("files swapped".into(), fx.pb_v.clone(), fx.pb_c.clone(), N_LEAF),
        ("leaf artifacts".into(), fx.leaf_c.clone(), fx.leaf_v.clone(), N_LEAF),
        ("public-batch artifacts".into(), fx.pub_c.clone(), fx.pub_v.clone(), N_LEAF),
        (format!("common N={N_LEAF} with verifier N={N_OTHER}"), fx.pb_c.clone(), fx.pbo_v.clone(), N_LEAF),
        (format!("common N={N_OTHER} with verifier N={N_LEAF}"), fx.pbo_c.clone(), fx.pb_v.clone(), N_LEAF),
        ("both empty".into(), vec![], vec![], N_LEAF),
    ];
    if !thorough {
        // quick keeps: canonical for both shapes, each shape presented as the other, swapped files, leaf artifacts
        v.truncate(6);
    }
    let (kf, kt) = if thorough { (0, 0) } else { (3, 1) };
    for (which, base) in [(1u8, &fx.pb_c), (0u8, &fx.pb_v)] {
        let mut ms: Vec<Mu> = if thorough {
            // every 61st bit (61 is coprime to 8: all bit-in-byte positions), first and last bit, every 16th prefix
            let bits = base.len() * 8;
            let mut f: Vec<Mu> = (0..bits).step_by(61).map(Mu::Flip).collect();
            f.push(Mu::Flip(bits - 1));
            f.extend((0..base.len()).step_by(16).map(Mu::Trunc));
            f.push(Mu::Trunc(base.len() - 1));
            f.push(Mu::Ext(0x00));
            f.push(Mu::Ext(0xff));
            f
        } else {
            let mut f = spread_flips(base.len(), kf);
            f.extend(spread_truncs(base.len(), kt));
            f.push(if which == 1 { Mu::Ext(0x00) } else { Mu::Ext(0xff) });
            f
        };
        ms.dedup();
        for m in ms {
            let (c, vv) = if which == 1 { (m.apply(&fx.pb_c), fx.pb_v.clone()) } else { (fx.pb_c.clone(), m.apply(&fx.pb_v)) };
            v.push((format!("private_batch_{}:{}", fname(which), m.label()), c, vv, N_LEAF));
        }
    }
    v
}

fn canonical_private(fx: &Fx, n: usize) -> Option<(&Vec<u8>, &Vec<u8>)> {
    match n {
        N_LEAF => Some((&fx.pb_c, &fx.pb_v)),
        N_OTHER => Some((&fx.pbo_c, &fx.pbo_v)),
        _ => None,
    }
}

fn jobs_private_batch<'a>(fx: &'a Fx, thorough: bool, counts: &mut BTreeMap<String, usize>) -> Vec<Job<'a>> {
    let mut jobs: Vec<Job<'a>> = Vec::new();
    let cases = private_batch_cases(fx, thorough);
    *counts.entry("load_canonical_private_batch_verifier_data".into()).or_default() += cases.len();
    for (label, c, v, n) in cases {
        let (cc, cv) = canonical_private(fx, n).expect("canonical bytes for n");
        let expect = c == *cc && v == *cv;
        let want = (cc.clone(), cv.clone());
        jobs.push(job(
            format!("private-pin:{label}"),
            format!("load_canonical_private_batch_verifier_data(n={n}) with {label}"),
            expect,
            move || load_canonical_private_batch_verifier_data(&c, &v, &fx.leaf, n),
            move |d: &VData| if ser(d) != want { Some("the returned data does not serialise to the canonical private-batch bytes".into()) } else { None },
        ));
    }
    // the same pins through the prover constructors (byte slices)
    let dummy_leaf = fx.f("dummy_proof.bin").clone();
    let dummy_pb = fx.f("dummy_private_batch_proof.bin").clone();
    let mid = |b: &Vec<u8>| Mu::Flip(b.len() * 4 + 3);
    let leaf_variants: Vec<(String, Vec<u8>, Vec<u8>)> = vec![
        ("canonical".into(), fx.leaf_c.clone(), fx.leaf_v.clone()),
        ("common.bin mid bit flipped".into(), mid(&fx.leaf_c).apply(&fx.leaf_c), fx.leaf_v.clone()),
        ("verifier.bin mid bit flipped".into(), fx.leaf_c.clone(), mid(&fx.leaf_v).apply(&fx.leaf_v)),
        ("verifier.bin last bit flipped".into(), fx.leaf_c.clone(), Mu::Flip(fx.leaf_v.len() * 8 - 1).apply(&fx.leaf_v)),
        ("common.bin truncated by one".into(), Mu::Trunc(fx.leaf_c.len() - 1).apply(&fx.leaf_c), fx.leaf_v.clone()),
        ("verifier.bin extended by 0x00".into(), fx.leaf_c.clone(), Mu::Ext(0).apply(&fx.leaf_v)),
        ("files swapped".into(), fx.leaf_v.clone(), fx.leaf_c.clone()),
        ("private-batch artifacts as leaf".into(), fx.pb_c.clone(), fx.pb_v.clone()),
    ];
    *counts.entry("PrivateBatchProver::new_from_bytes".into()).or_default() += leaf_variants.len();
    for (label, c, v) in leaf_variants {
        let expect = c == fx.leaf_c && v == fx.leaf_v;
        let d = dummy_leaf.clone();
        jobs.push(job(format!("private-prover-bytes:{label}"), format!("PrivateBatchProver::new_from_bytes with leaf artifacts = {label}"), expect, move || PrivateBatchProver::new_from_bytes(&c, &v, &d, N_LEAF), move |p: &PrivateBatchProver| private_prover_anomaly(fx, p)));
    }
    let pb_variants: Vec<(String, Vec<u8>, Vec<u8>)> = vec![
        ("canonical".into(), fx.pb_c.clone(), fx.pb_v.clone()),
        ("private_batch_common.bin mid bit flipped".into(), mid(&fx.pb_c).apply(&fx.pb_c), fx.pb_v.clone()),
        ("private_batch_verifier.bin mid bit flipped".into(), fx.pb_c.clone(), mid(&fx.pb_v).apply(&fx.pb_v)),
        (format!("canonical N={N_OTHER} artifacts"), fx.pbo_c.clone(), fx.pbo_v.clone()),
        ("private_batch_verifier.bin extended by 0xff".into(), fx.pb_c.clone(), Mu::Ext(0xff).apply(&fx.pb_v)),
        ("files swapped".into(), fx.pb_v.clone(), fx.pb_c.clone()),
    ];
    let pb_variants: Vec<_> = pb_variants.into_iter().take(if thorough { 99 } else { 3 }).collect();
    *counts.entry("PublicBatchProver::new_from_bytes".into()).or_default() += pb_variants.len();
    for (label, c, v) in pb_variants {
        let expect = c == fx.pb_c && v == fx.pb_v;
        let d = dummy_pb.clone();
        jobs.push(job(format!("public-prover-bytes:{label}"), format!("PublicBatchProver::new_from_bytes with private-batch artifacts = {label}"), expect, move || PublicBatchProver::new_from_bytes(&c, &v, &d, (N_LEAF, M_PRIV)), move |p: &PublicBatchProver| public_prover_anomaly(fx, p)));
    }
    // file-based constructors and the two artifact builders on directories with one artifact changed
    let file_cases: Vec<(&str, Mu)> = vec![
        ("common.bin", mid(&fx.leaf_c)),
        ("verifier.bin", mid(&fx.leaf_v)),
        ("verifier.bin", Mu::Ext(0xff)),
        ("private_batch_verifier.bin", mid(&fx.pb_v)),
        ("private_batch_common.bin", mid(&fx.pb_c)),
        ("private_batch_common.bin", Mu::Trunc(fx.pb_c.len() - 1)),
    ];
    let file_cases: Vec<_> = file_cases.into_iter().take(if thorough { 99 } else { 4 }).collect();
    for (name, m) in file_cases {
        let leaf_file = name == "common.bin" || name == "verifier.bin";
        let label = format!("{name}:{}", m.label());
        let bytes = m.apply(fx.f(name));
        let mk = move |tag: &str| fx.dir_with(tag, vec![(name, Edit::Bytes(bytes.clone()))]);
        if leaf_file {
            let (mk1, mk2, mk3) = (mk.clone(), mk.clone(), mk.clone());
            *counts.entry("PrivateBatchProver::new_from_files / new_from_binaries_dir".into()).or_default() += 2;
            jobs.push(job(format!("private-prover-dir:{label}"), format!("PrivateBatchProver::new_from_binaries_dir with {label}"), false, move || with_dir(fx, mk1("ppd"), |d| PrivateBatchProver::new_from_binaries_dir(d)), no_post));
            jobs.push(job(format!("private-prover-files:{label}"), format!("PrivateBatchProver::new_from_files with {label}"), false, move || with_dir(fx, mk2("ppf"), |d| PrivateBatchProver::new_from_files(&d.join("common.bin"), &d.join("verifier.bin"), &d.join("dummy_proof.bin"), N_LEAF)), no_post));
            *counts.entry("generate_private_batch_circuit_binaries".into()).or_default() += 1;
            jobs.push(job(format!("private-builder:{label}"), format!("generate_private_batch_circuit_binaries with {label}"), false, move || with_dir(fx, mk3("pbb"), |d| generate_private_batch_circuit_binaries(d, N_LEAF, false)), no_post));
        } else {
            let (mk1, mk2, mk3) = (mk.clone(), mk.clone(), mk.clone());
            *counts.entry("PublicBatchProver::new_from_files / new_from_binaries_dir".into()).or_default() += 2;
            jobs.push(job(format!("public-prover-dir:{label}"), format!("PublicBatchProver::new_from_binaries_dir with {label}"), false, move || with_dir(fx, mk1("upd"), |d| PublicBatchProver::new_from_binaries_dir(d)), no_post));
            jobs.push(job(format!("public-prover-files:{label}"), format!("PublicBatchProver::new_from_files with {label}"), false, move || with_dir(fx, mk2("upf"), |d| PublicBatchProver::new_from_files(&d.join("private_batch_common.bin"), &d.join("private_batch_verifier.bin"), &d.join("dummy_private_batch_proof.bin"), (N_LEAF, M_PRIV))), no_post));
            *counts.entry("generate_public_batch_circuit_binaries".into()).or_default() += 1;
            jobs.push(job(format!("public-builder:{label}"), format!("generate_public_batch_circuit_binaries with {label}"), false, move || with_dir(fx, mk3("ubb"), |d| generate_public_batch_circuit_binaries(d, M_PRIV, N_LEAF)), no_post));
        }
    }
    // the builders on the clean directory: accepted, and what they write is the canonical next layer
    *counts.entry("generate_private_batch_circuit_binaries".into()).or_default() += 1;
    jobs.push(job(
        "private-builder:clean".into(),
        "generate_private_batch_circuit_binaries on the clean directory".into(),
        true,
        move || {
            with_dir(fx, fx.dir_with("pbb-clean", vec![("private_batch_common.bin", Edit::Remove), ("private_batch_verifier.bin", Edit::Remove)]), |d| {
                generate_private_batch_circuit_binaries(d, N_LEAF, false)?;
                Ok((std::fs::read(d.join("private_batch_common.bin"))?, std::fs::read(d.join("private_batch_verifier.bin"))?))
            })
        },
        move |w: &(Vec<u8>, Vec<u8>)| if w.0 != fx.pb_c || w.1 != fx.pb_v { Some("the private-batch artifacts it wrote are not the canonical ones".into()) } else { None },
    ));
    *counts.entry("generate_public_batch_circuit_binaries".into()).or_default() += 1;
    jobs.push(job(
        "public-builder:clean".into(),
        "generate_public_batch_circuit_binaries on the clean directory".into(),
        true,
        move || {
            with_dir(fx, fx.dir_with("ubb-clean", vec![("public_batch_common.bin", Edit::Remove), ("public_batch_verifier.bin", Edit::Remove)]), |d| {
                generate_public_batch_circuit_binaries(d, M_PRIV, N_LEAF)?;
                Ok((std::fs::read(d.join("public_batch_common.bin"))?, std::fs::read(d.join("public_batch_verifier.bin"))?))
            })
        },
        move |w: &(Vec<u8>, Vec<u8>)| if w.0 != fx.pub_c || w.1 != fx.pub_v { Some("the public-batch artifacts it wrote are not the canonical ones".into()) } else { None },
    ));
    jobs
}

/// run `f` on a scratch directory and remove it afterwards
fn with_dir<T>(fx: &Fx, d: PathBuf, f: impl FnOnce(&Path) -> anyhow::Result<T>) -> anyhow::Result<T> {
    let r = catch(|| f(&d));
    fx.rm(&d);
    match r {
        Ok(r) => r,
        Err(p) => std::panic::panic_any(p),
    }
}

fn private_prover_anomaly(fx: &Fx, p: &PrivateBatchProver) -> Option<String> {
    let c = p.circuit_data.common.to_bytes(&DefaultGateSerializer).ok()?;
    if c != fx.pb_c {
        return Some("the prover's circuit is not the canonical private-batch circuit".into());
    }
    if p.num_leaf_proofs() != N_LEAF {
        return Some(format!("num_leaf_proofs() = {}", p.num_leaf_proofs()));
    }
    None
}
fn public_prover_anomaly(fx: &Fx, p: &PublicBatchProver) -> Option<String> {
    let c = p.circuit_data.common.to_bytes(&DefaultGateSerializer).ok()?;
    if c != fx.pub_c {
        return Some("the prover's circuit is not the canonical public-batch circuit".into());
    }
    if p.num_private_batch_proofs() != M_PRIV {
        return Some(format!("num_private_batch_proofs() = {}", p.num_private_batch_proofs()));
    }
    None
}
fn aggregator_anomaly(fx: &Fx, a: &PublicBatchAggregator) -> Option<String> {
    let c = a.public_batch_common().to_bytes(&DefaultGateSerializer).ok()?;
    if c != fx.pub_c {
        return Some("the aggregator's public-batch common data is not the canonical one".into());
    }
    let c = a.private_batch_common().to_bytes(&DefaultGateSerializer).ok()?;
    if c != fx.pb_c {
        return Some("the aggregator's private-batch common data is not the canonical one".into());
    }
    if a.batch_size() != M_PRIV {
        return Some(format!("batch_size() = {}", a.batch_size()));
    }
    None
}
fn aggregator(d: &Path) -> anyhow::Result<PublicBatchAggregator> {
    PublicBatchAggregator::with_limits(d, BytesDigest::default(), PoolLimits::default())
}

// ---------------------------------------------------------------------------------
// D. public-batch pin (semantic: equal after load + re-serialise)
// ---------------------------------------------------------------------------------

/// the oracle for the semantic pin: both files load and re-serialise to the canonical bytes
fn sem_public(fx: &Fx, c: &[u8], v: &[u8]) -> bool {
    if c == &fx.pub_c[..] && v == &fx.pub_v[..] {
        return true;
    }
    let r = catch(|| {
        let cc = CommonCircuitData::<F, D>::from_bytes(c.to_vec(), &DefaultGateSerializer).ok()?;
        let vv = VerifierOnlyCircuitData::<C, D>::from_bytes(v.to_vec()).ok()?;
        Some(cc.to_bytes(&DefaultGateSerializer).ok()? == fx.pub_c && vv.to_bytes().ok()? == fx.pub_v)
    });
    r == Ok(Some(true))
}

/// canonical public-batch common data with exactly one field changed, re-serialised
fn public_common_field_mutants(fx: &Fx, thorough: bool) -> Vec<(String, Vec<u8>)> {
    type Cd = CommonCircuitData<F, D>;
    let mut muts: Vec<(&str, bool, Box<dyn Fn(&mut Cd)>)> = vec![
        ("config.security_bits - 1", true, Box::new(|c| c.config.security_bits -= 1)),
        ("config.security_bits + 1", false, Box::new(|c| c.config.security_bits += 1)),
        ("config.num_challenges + 1", true, Box::new(|c| c.config.num_challenges += 1)),
        ("config.num_challenges - 1", false, Box::new(|c| c.config.num_challenges -= 1)),
        ("config.fri_config.rate_bits + 1", true, Box::new(|c| c.config.fri_config.rate_bits += 1)),
        ("config.fri_config.num_query_rounds - 1", false, Box::new(|c| c.config.fri_config.num_query_rounds -= 1)),
        ("config.fri_config.proof_of_work_bits - 1", false, Box::new(|c| c.config.fri_config.proof_of_work_bits -= 1)),
        ("config.fri_config.cap_height + 1", false, Box::new(|c| c.config.fri_config.cap_height += 1)),
        ("config.zero_knowledge toggled", false, Box::new(|c| c.config.zero_knowledge = !c.config.zero_knowledge)),
        ("config.num_wires + 1", false, Box::new(|c| c.config.num_wires += 1)),
        ("config.num_routed_wires - 1", false, Box::new(|c| c.config.num_routed_wires -= 1)),
        ("config.max_quotient_degree_factor - 1", false, Box::new(|c| c.config.max_quotient_degree_factor -= 1)),
        ("fri_params.config.rate_bits + 1", false, Box::new(|c| c.fri_params.config.rate_bits += 1)),
        ("fri_params.config.num_query_rounds - 1", false, Box::new(|c| c.fri_params.config.num_query_rounds -= 1)),
        ("fri_params.degree_bits + 1", true, Box::new(|c| c.fri_params.degree_bits += 1)),
        ("fri_params.leaf_hiding toggled", false, Box::new(|c| c.fri_params.leaf_hiding = !c.fri_params.leaf_hiding)),
        ("fri_params.reduction_arity_bits last removed", false, Box::new(|c| {
            c.fri_params.reduction_arity_bits.pop();
        })),
        ("trace_degree_bits + 1", true, Box::new(|c| c.trace_degree_bits += 1)),
        ("trace/public_initial/fri degree bits all + 1", false, Box::new(|c| {
            c.trace_degree_bits += 1;
            c.public_initial_degree_bits += 1;
            c.fri_params.degree_bits += 1;
        })),
        ("num_public_inputs + 1", true, Box::new(|c| c.num_public_inputs += 1)),
        ("num_public_inputs - 1", false, Box::new(|c| c.num_public_inputs -= 1)),
        ("gates: last removed", true, Box::new(|c| {
            c.gates.pop();
        })),
        ("gates: first duplicated", true, Box::new(|c| {
            let g = c.gates[0].clone();
            c.gates.insert(0, g);
        })),
        ("gates: first two swapped", false, Box::new(|c| c.gates.swap(0, 1))),
        ("k_is[1] + 1", false, Box::new(|c| c.k_is[1] += F::ONE)),
        ("k_is: last removed", false, Box::new(|c| {
            c.k_is.pop();
        })),
        ("num_partial_products + 1", false, Box::new(|c| c.num_partial_products += 1)),
        ("quotient_degree_factor - 1", false, Box::new(|c| c.quotient_degree_factor -= 1)),
        ("num_gate_constraints + 1", false, Box::new(|c| c.num_gate_constraints += 1)),
        ("num_constants + 1", false, Box::new(|c| c.num_constants += 1)),
        ("num_lookup_polys + 1", false, Box::new(|c| c.num_lookup_polys += 1)),
        ("selectors_info.selector_indices[0] + 1", false, Box::new(|c| c.selectors_info.selector_indices[0] += 1)),
    ];
    if !thorough {
        muts.retain(|m| m.1);
    }
    let mut out = Vec::new();
    for (label, _, f) in muts {
        let mut c = fx.pubd.common.clone();
        let r = catch(|| {
            f(&mut c);
            c.to_bytes(&DefaultGateSerializer).ok()
        });
        match r {
            Ok(Some(b)) if b != fx.pub_c => out.push((label.to_string(), b)),
            Ok(Some(_)) => eprintln!("note: public common mutant '{label}' serialises identically; dropped"),
            _ => eprintln!("note: public common mutant '{label}' cannot be serialised; dropped"),
        }
    }
    out
}

fn public_verifier_field_mutants(fx: &Fx) -> Vec<(String, Vec<u8>)> {
    type Vo = VerifierOnlyCircuitData<C, D>;
    let muts: Vec<(&str, Box<dyn Fn(&mut Vo)>)> = vec![
        ("constants_sigmas_cap[0] limb 0 + 1", Box::new(|v| v.constants_sigmas_cap.0[0].elements[0] += F::ONE)),
        ("constants_sigmas_cap[last] limb 3 + 1", Box::new(|v| {
            let n = v.constants_sigmas_cap.0.len();
            v.constants_sigmas_cap.0[n - 1].elements[3] += F::ONE
        })),
        ("circuit_digest limb 0 + 1", Box::new(|v| v.circuit_digest.elements[0] += F::ONE)),
        ("circuit_digest limb 3 + 1", Box::new(|v| v.circuit_digest.elements[3] += F::ONE)),
        ("cap: two entries swapped", Box::new(|v| v.constants_sigmas_cap.0.swap(0, 1))),
    ];
    let mut out = Vec::new();
    for (label, f) in muts {
        let mut v = fx.pubd.verifier_only.clone();
        let r = catch(|| {
            f(&mut v);
            v.to_bytes().ok()
        });
        if let Ok(Some(b)) = r {
            if b != fx.pub_v {
                out.push((label.to_string(), b));
            }
        }
    }
    out
}

/// D1: every single-bit flip / truncation / extension of the two public-batch files, and every field
/// mutant, through the pin as `load_public_batch_verifier_from_bins` composes it:
/// `load_verifier_data_from_bytes` then `ensure_verifier_data_matches_canonical`
fn section_public_pin_functions(rep: &Report, fx: &Fx, thorough: bool) -> (usize, usize) {
    let t0 = Instant::now();
    let mut cases: Vec<(String, Vec<u8>, Vec<u8>)> = vec![("canonical".into(), fx.pub_c.clone(), fx.pub_v.clone())];
    for m in all_mutations(fx.pub_c.len()) {
        cases.push((format!("public_batch_common.bin:{}", m.label()), m.apply(&fx.pub_c), fx.pub_v.clone()));
    }
    for m in all_mutations(fx.pub_v.len()) {
        cases.push((format!("public_batch_verifier.bin:{}", m.label()), fx.pub_c.clone(), m.apply(&fx.pub_v)));
    }
    for (l, b) in public_common_field_mutants(fx, true) {
        cases.push((format!("public_batch_common.bin field {l}"), b, fx.pub_v.clone()));
    }
    for (l, b) in public_verifier_field_mutants(fx) {
        cases.push((format!("public_batch_verifier.bin field {l}"), fx.pub_c.clone(), b));
    }
    cases.push(("files swapped".into(), fx.pub_v.clone(), fx.pub_c.clone()));
    cases.push(("private-batch artifacts".into(), fx.pb_c.clone(), fx.pb_v.clone()));
    cases.push((format!("canonical public batch for M={M_OTHER}"), fx.pubo_c.clone(), fx.pubo_v.clone()));
    cases.push((format!("common M={M_PRIV} with verifier M={M_OTHER}"), fx.pub_c.clone(), fx.pubo_v.clone()));
    cases.push((format!("common M={M_OTHER} with verifier M={M_PRIV}"), fx.pubo_c.clone(), fx.pub_v.clone()));
    cases.push(("leaf artifacts".into(), fx.leaf_c.clone(), fx.leaf_v.clone()));
    let _ = thorough;
    let loadable = AtomicU64::new(0);
    let aliases = AtomicU64::new(0);
    let results: Vec<(u64, Option<(String, String)>)> = cases
        .par_iter()
        .map(|(label, c, v)| {
            if !wanted(&format!("public-pin-fn:{label}")) {
                return (0, None);
            }
            let expect = sem_public(fx, c, v);
            if expect && (c != &fx.pub_c || v != &fx.pub_v) {
                aliases.fetch_add(1, Ordering::Relaxed);
            }
            let (out, _) = run(|| {
                let loaded = load_verifier_data_from_bytes(c, v, "public_batch")?;
                loadable.fetch_add(1, Ordering::Relaxed);
                ensure_verifier_data_matches_canonical(&loaded, &fx.pubd, "public_batch")
            });
            let key = format!("public-pin-fn:{label}");
            // a panicking deserialiser has rejected the input; the inputs are listed in the evidence
            if let (Out::Panic(p), false) = (&out, expect) {
                rep.eval(1);
                return (hash64(&key), Some((label.clone(), p.clone())));
            }
            judge(rep, &key, &format!("load_verifier_data_from_bytes + ensure_verifier_data_matches_canonical with {label}"), expect, &out);
            (hash64(&key), None)
        })
        .collect();
    rep.distinct_many(results.iter().map(|r| r.0));
    let panics: Vec<&(String, String)> = results.iter().filter_map(|r| r.1.as_ref()).collect();
    let mut through_constructor = String::from("n/a");
    if !panics.is_empty() {
        // what the public entry point does with the first of them, on a real directory (evidence only)
        let first = cases.iter().find(|c| c.0 == panics[0].0).expect("case");
        let d = fx.dir_with("panic", vec![("public_batch_common.bin", Edit::Bytes(first.1.clone())), ("public_batch_verifier.bin", Edit::Bytes(first.2.clone()))]);
        let (out, _) = run(|| aggregator(&d));
        fx.rm(&d);
        rep.eval(1);
        if out == Out::Acc {
            viol(rep, "aggregator:input that panics the pin functions", "PublicBatchAggregator::with_limits ACCEPTED a non-canonical public_batch_common.bin", json!({"input": panics[0].0}));
        }
        through_constructor = out.short();
    }
    rep.extra(
        "inputs_rejected_by_panic_in_third_party_deserialiser",
        json!({
            "note": "not a C17 violation (nothing non-canonical is accepted): CommonCircuitData::from_bytes of qp-plonky2 indexes common_data.luts[lut_index] in LookupGate/LookupTableGate::deserialize and unwinds when a gate tag is turned into a lookup gate; the public-batch loader deserialises before it pins, so the panic surfaces from load_verifier_data_from_bytes and PublicBatchAggregator::with_limits",
            "count": panics.len(),
            "inputs": panics.iter().take(40).map(|p| json!({"input": p.0, "panic": p.1})).collect::<Vec<_>>(),
            "PublicBatchAggregator::with_limits on the first one": through_constructor,
        }),
    );
    rep.extra("public_pin_function_sweep", json!({"cases": cases.len(), "deserialiser_panics": panics.len(), "deserialised_successfully_then_compared": loadable.load(Ordering::Relaxed), "non_identical_bytes_semantically_equal_and_accepted": aliases.load(Ordering::Relaxed)}));
    eprintln!("[loaders] D1 public pin functions: {} cases ({} loadable, {} aliases) in {:.1}s", cases.len(), loadable.load(Ordering::Relaxed), aliases.load(Ordering::Relaxed), t0.elapsed().as_secs_f64());
    (cases.len(), aliases.load(Ordering::Relaxed) as usize)
}

/// D2: the aggregator constructor on directories with edited files
fn jobs_aggregator<'a>(fx: &'a Fx, thorough: bool, counts: &mut BTreeMap<String, usize>) -> Vec<Job<'a>> {
    let names = ["private_batch_common.bin", "private_batch_verifier.bin", "public_batch_common.bin", "public_batch_verifier.bin"];
    let mut cases: Vec<(String, Vec<(&'static str, Vec<u8>)>)> = vec![("clean directory".into(), vec![])];
    // identity copy: load + re-serialise both public files
    {
        let c = CommonCircuitData::<F, D>::from_bytes(fx.pub_c.clone(), &DefaultGateSerializer).ok().and_then(|c| c.to_bytes(&DefaultGateSerializer).ok());
        let v = VerifierOnlyCircuitData::<C, D>::from_bytes(fx.pub_v.clone()).ok().and_then(|v| v.to_bytes().ok());
        match (c, v) {
            (Some(c), Some(v)) => cases.push(("public files loaded and re-serialised (identity copy)".into(), vec![(names[2], c), (names[3], v)])),
            _ => die("canonical public-batch bytes do not load in the harness"),
        }
    }
    for (l, b) in public_common_field_mutants(fx, thorough) {
        cases.push((format!("public_batch_common.bin field {l}"), vec![(names[2], b)]));
    }
    for (l, b) in public_verifier_field_mutants(fx).into_iter().take(if thorough { 99 } else { 1 }) {
        cases.push((format!("public_batch_verifier.bin field {l}"), vec![(names[3], b)]));
    }
    let mut extra_cases: Vec<(String, Vec<(&'static str, Vec<u8>)>)> = Vec::new();
    cases.push(("private_batch_* and public_batch_* swapped".into(), vec![(names[0], fx.pub_c.clone()), (names[1], fx.pub_v.clone()), (names[2], fx.pb_c.clone()), (names[3], fx.pb_v.clone())]));
    extra_cases.push(("public_batch_* replaced by private_batch_*".into(), vec![(names[2], fx.pb_c.clone()), (names[3], fx.pb_v.clone())]));
    extra_cases.push(("public_batch common and verifier swapped".into(), vec![(names[2], fx.pub_v.clone()), (names[3], fx.pub_c.clone())]));
    cases.push((format!("public_batch_* canonical for M={M_OTHER}"), vec![(names[2], fx.pubo_c.clone()), (names[3], fx.pubo_v.clone())]));
    extra_cases.push((format!("private_batch_* canonical for N={N_OTHER}"), vec![(names[0], fx.pbo_c.clone()), (names[1], fx.pbo_v.clone())]));
    extra_cases.push(("private_batch_common.bin mid bit flipped".into(), vec![(names[0], Mu::Flip(fx.pb_c.len() * 4 + 3).apply(&fx.pb_c))]));
    extra_cases.push(("private_batch_verifier.bin last bit flipped".into(), vec![(names[1], Mu::Flip(fx.pb_v.len() * 8 - 1).apply(&fx.pb_v))]));
    extra_cases.push(("public_batch_common.bin extended by 0x00".into(), vec![(names[2], Mu::Ext(0).apply(&fx.pub_c))]));
    extra_cases.push(("public_batch_verifier.bin extended by 0xff".into(), vec![(names[3], Mu::Ext(0xff).apply(&fx.pub_v))]));
    extra_cases.push(("public_batch_verifier.bin truncated by one".into(), vec![(names[3], Mu::Trunc(fx.pub_v.len() - 1).apply(&fx.pub_v))]));
    extra_cases.push(("public_batch_common.bin truncated by one".into(), vec![(names[2], Mu::Trunc(fx.pub_c.len() - 1).apply(&fx.pub_c))]));
    // byte-level flips that still deserialise are the ones only the comparison can reject
    let want_flips = if thorough { 48 } else { 0 };
    let loadable: Vec<Mu> = (0..fx.pub_c.len() * 8)
        .map(Mu::Flip)
        .filter(|m| catch(|| CommonCircuitData::<F, D>::from_bytes(m.apply(&fx.pub_c), &DefaultGateSerializer).is_ok()) == Ok(true))
        .collect();
    if !loadable.is_empty() {
        let step = (loadable.len() / want_flips.max(1)).max(1);
        for m in loadable.iter().step_by(step).take(want_flips).filter(|_| want_flips > 0) {
            cases.push((format!("public_batch_common.bin:{} (still deserialises)", m.label()), vec![(names[2], m.apply(&fx.pub_c))]));
        }
    }
    for m in spread_flips(fx.pub_v.len(), 16) {
        extra_cases.push((format!("public_batch_verifier.bin:{}", m.label()), vec![(names[3], m.apply(&fx.pub_v))]));
    }
    if thorough {
        cases.extend(extra_cases);
    } else {
        // one accepted semantic alias (trailing byte) stays in the quick tier
        cases.extend(extra_cases.into_iter().filter(|c| c.0 == "public_batch_common.bin extended by 0x00"));
    }
    *counts.entry("PublicBatchAggregator::with_limits (pins)".into()).or_default() += cases.len();
    let mut jobs = Vec::new();
    for (label, edits) in cases {
        let get = |n: &str| edits.iter().find(|e| e.0 == n).map(|e| e.1.clone()).unwrap_or_else(|| fx.f(n).clone());
        let expect = get(names[0]) == fx.pb_c && get(names[1]) == fx.pb_v && sem_public(fx, &get(names[2]), &get(names[3]));
        jobs.push(job(
            format!("aggregator:{label}"),
            format!("PublicBatchAggregator::with_limits, directory: {label}"),
            expect,
            move || with_dir(fx, fx.dir_with("agg", edits.iter().map(|(n, b)| (*n, Edit::Bytes(b.clone()))).collect()), aggregator),
            move |a: &PublicBatchAggregator| aggregator_anomaly(fx, a),
        ));
    }
    jobs
}

// ---------------------------------------------------------------------------------
// E. size caps: over-cap files are rejected without being read, over-cap slices without being hashed
// ---------------------------------------------------------------------------------

fn rchar() -> Option<u64> {
    let s = std::fs::read_to_string("/proc/self/io").ok()?;
    s.lines().find_map(|l| l.strip_prefix("rchar:")).and_then(|x| x.trim().parse().ok())
}

/// run `f` alone (nothing else is running in this process) and return the bytes the process read meanwhile
fn measured<T>(f: impl FnOnce() -> T) -> (T, Option<u64>) {
    let before = rchar();
    let t = f();
    let after = rchar();
    (t, before.zip(after).map(|(b, a)| a.saturating_sub(b)))
}

type Call<'a> = Box<dyn Fn() -> Out + 'a>;

fn call<'a, T>(f: impl Fn() -> anyhow::Result<T> + 'a) -> Call<'a> {
    Box::new(move || run(&f).0)
}

/// an over-cap file: must be rejected, never a panic, and the process must not have read it
fn check_overcap(rep: &Report, key: &str, what: &str, f: &Call, max_read: &AtomicU64) {
    if !wanted(key) {
        return;
    }
    rep.eval(1);
    rep.distinct(hash64(&key));
    let (out, delta) = measured(|| f());
    match &out {
        Out::Rej(_) => {}
        Out::Acc => viol(rep, key, &format!("{what}: an artifact file over the size cap was ACCEPTED"), json!({"case": key})),
        Out::Panic(p) => note_panic(key, p),
    }
    if let Some(d) = delta {
        max_read.fetch_max(d, Ordering::Relaxed);
        if d >= READ_SLACK {
            // re-execute once; the read must reproduce
            let (_, d2) = measured(|| f());
            match d2 {
                Some(d2) if d2 >= READ_SLACK => viol(rep, 
                    &format!("{key}:read"),
                    &format!("{what}: the over-cap file was READ before being rejected ({} bytes read during the call; the bound is {READ_SLACK})", d.min(d2)),
                    json!({"case": key, "rchar_delta_first": d, "rchar_delta_second": d2, "outcome": out.short()}),
                ),
                _ => eprintln!("note: {key}: rchar grew by {d} on the first execution but not on re-execution; not reproducible, ignored"),
            }
        }
    }
}

fn section_caps(rep: &Report, fx: &Fx) -> Value {
    let t0 = Instant::now();
    let io = rchar().is_some();
    let max_read = AtomicU64::new(0);
    let cap1 = MAX_VERIFIER_ARTIFACT_BYTES;
    let cap64 = MAX_ARTIFACT_FILE_BYTES;
    let mut n_over = 0usize;
    let mut n_under = 0usize;
    let dir = fx.root.join("caps");
    std::fs::create_dir_all(&dir).unwrap_or_else(|e| die(&format!("mkdir caps: {e}")));
    let write = |name: &str, bytes: &[u8]| -> PathBuf {
        let p = dir.join(name);
        std::fs::write(&p, bytes).unwrap_or_else(|e| die(&format!("write {name}: {e}")));
        p
    };
    let sparse = |name: &str, len: u64| -> PathBuf {
        let p = dir.join(name);
        std::fs::File::create(&p).and_then(|f| f.set_len(len)).unwrap_or_else(|e| die(&format!("sparse {name}: {e}")));
        p
    };
    let padded = |prefix: &[u8], len: u64, fill: u8| -> Vec<u8> {
        let mut v = vec![fill; len as usize];
        v[..prefix.len()].copy_from_slice(prefix);
        v
    };
    let good_v = write("verifier.bin", &fx.leaf_v);
    let good_c = write("common.bin", &fx.leaf_c);

    // ---- 1 MiB cap: WormholeVerifier::new_from_files ----
    {
        let (out, _) = run(|| WormholeVerifier::new_from_files(&good_v, &good_c));
        judge(rep, "verifier-files:canonical", "WormholeVerifier::new_from_files on the canonical files", true, &out);
        rep.distinct(hash64(&"verifier-files:canonical"));
        n_under += 1;
    }
    for pos in 0..2u8 {
        let canon: &[u8] = if pos == 0 { &fx.leaf_v } else { &fx.leaf_c };
        let under: Vec<(String, PathBuf)> = vec![
            (format!("{} = {} bytes of 0xa5 (cap-1)", fname(pos), cap1 - 1), write("u1", &vec![0xa5u8; (cap1 - 1) as usize])),
            (format!("{} = {} bytes of 0xa5 (cap)", fname(pos), cap1), write("u2", &vec![0xa5u8; cap1 as usize])),
            (format!("{} = canonical bytes zero-padded to cap-1", fname(pos)), write("u3", &padded(canon, cap1 - 1, 0))),
            (format!("{} = canonical bytes zero-padded to cap", fname(pos)), write("u4", &padded(canon, cap1, 0))),
            (format!("{} = canonical bytes plus one 0x00", fname(pos)), write("u5", &Mu::Ext(0).apply(canon))),
            (format!("{} = canonical with the last bit flipped", fname(pos)), write("u6", &Mu::Flip(canon.len() * 8 - 1).apply(canon))),
        ];
        for (label, p) in &under {
            let (out, _) = run(|| if pos == 0 { WormholeVerifier::new_from_files(p, &good_c) } else { WormholeVerifier::new_from_files(&good_v, p) });
            let key = format!("verifier-files:{label}");
            judge(rep, &key, &format!("WormholeVerifier::new_from_files with {label}"), false, &out);
            rep.distinct(hash64(&key));
            n_under += 1;
        }
        let over: Vec<(String, PathBuf)> = vec![
            (format!("{} = {} bytes of 0xa5 (cap+1, real file)", fname(pos), cap1 + 1), write("o1", &vec![0xa5u8; (cap1 + 1) as usize])),
            (format!("{} = canonical bytes zero-padded to cap+1 (real file)", fname(pos)), write("o2", &padded(canon, cap1 + 1, 0))),
            (format!("{} = sparse file of cap+1", fname(pos)), sparse("o3", cap1 + 1)),
            (format!("{} = sparse file of 64 MiB + 1", fname(pos)), sparse("o4", cap64 + 1)),
            (format!("{} = symbolic link to a sparse file of cap+1", fname(pos)), {
                let target = sparse("o5-target", cap1 + 1);
                let l = dir.join("o5");
                let _ = std::fs::remove_file(&l);
                std::os::unix::fs::symlink(&target, &l).unwrap_or_else(|e| die(&format!("symlink o5: {e}")));
                l
            }),
        ];
        for (label, p) in &over {
            let f: Call = call(|| if pos == 0 { WormholeVerifier::new_from_files(p, &good_c) } else { WormholeVerifier::new_from_files(&good_v, p) });
            check_overcap(rep, &format!("verifier-files-overcap:{label}"), &format!("WormholeVerifier::new_from_files with {label}"), &f, &max_read);
            n_over += 1;
        }
    }

    // ---- 64 MiB cap: read_artifact_file and everything built on it ----
    let big_sparse = sparse("big-sparse.bin", cap64 + 1);
    let big_real = {
        let mut v = vec![0x5au8; (cap64 + 1) as usize];
        v[..fx.leaf_c.len()].copy_from_slice(&fx.leaf_c);
        write("big-real.bin", &v)
    };
    let big_link = {
        let l = dir.join("big-link.bin");
        let _ = std::fs::remove_file(&l);
        std::os::unix::fs::symlink(&big_sparse, &l).unwrap_or_else(|e| die(&format!("symlink big-link: {e}")));
        l
    };
    let at_cap = sparse("at-cap.bin", cap64);
    let below_cap = sparse("below-cap.bin", cap64 - 1);
    {
        let (out, got) = run(|| read_artifact_file(&below_cap));
        judge(rep, "read_artifact_file:cap-1", "read_artifact_file on a file of cap-1 bytes (allowed)", true, &out);
        if let Some(b) = got {
            if b.len() as u64 != cap64 - 1 {
                viol(rep, "read_artifact_file:cap-1:len", "read_artifact_file returned a different number of bytes than the file holds", json!({"returned": b.len()}));
            }
        }
        let (out, _) = run(|| read_artifact_file(&at_cap));
        rep.eval(1);
        if let Out::Panic(p) = &out {
            note_panic("read_artifact_file:cap", p);
        }
        for (k, p) in [("cap-1", &below_cap), ("cap", &at_cap)] {
            let (out, _) = run(|| PrivateBatchProver::new_from_files(p, &good_v, &fx.good.join("dummy_proof.bin"), N_LEAF));
            let key = format!("private-prover-files:common.bin = sparse file of {k}");
            judge(rep, &key, &format!("PrivateBatchProver::new_from_files with common.bin = zero file of {k} bytes"), false, &out);
            rep.distinct(hash64(&key));
        }
        n_under += 4;
    }
    let g = |n: &str| fx.good.join(n);
    let mut calls: Vec<(String, Call)> = Vec::new();
    for (shape, big) in [("sparse file of cap+1", &big_sparse), ("real file of cap+1 with a canonical prefix", &big_real), ("symbolic link to a sparse file of cap+1", &big_link)] {
        calls.push((format!("read_artifact_file({shape})"), call(move || read_artifact_file(big))));
        calls.push((format!("PrivateBatchProver::new_from_files(common.bin = {shape})"), call(move || PrivateBatchProver::new_from_files(big, &g("verifier.bin"), &g("dummy_proof.bin"), N_LEAF))));
    }
    let big = &big_sparse;
    calls.push(("PrivateBatchProver::new_from_files(verifier.bin = sparse file of cap+1)".into(), call(move || PrivateBatchProver::new_from_files(&g("common.bin"), big, &g("dummy_proof.bin"), N_LEAF))));
    calls.push(("PrivateBatchProver::new_from_files(dummy_proof.bin = sparse file of cap+1)".into(), call(move || PrivateBatchProver::new_from_files(&g("common.bin"), &g("verifier.bin"), big, N_LEAF))));
    calls.push(("PublicBatchProver::new_from_files(private_batch_common.bin = sparse file of cap+1)".into(), call(move || PublicBatchProver::new_from_files(big, &g("private_batch_verifier.bin"), &g("dummy_private_batch_proof.bin"), (N_LEAF, M_PRIV)))));
    calls.push(("PublicBatchProver::new_from_files(private_batch_verifier.bin = sparse file of cap+1)".into(), call(move || PublicBatchProver::new_from_files(&g("private_batch_common.bin"), big, &g("dummy_private_batch_proof.bin"), (N_LEAF, M_PRIV)))));
    calls.push(("PublicBatchProver::new_from_files(dummy_private_batch_proof.bin = sparse file of cap+1)".into(), call(move || PublicBatchProver::new_from_files(&g("private_batch_common.bin"), &g("private_batch_verifier.bin"), big, (N_LEAF, M_PRIV)))));
    // directory-based entry points: one file of the directory replaced by a sparse over-cap file
    let mut dirs: Vec<PathBuf> = Vec::new();
    let mut over_dir = |name: &'static str| -> PathBuf {
        let d = fx.dir_with("cap", vec![(name, Edit::Sparse(cap64 + 1))]);
        dirs.push(d.clone());
        d
    };
    for name in ["config.json", "common.bin", "verifier.bin", "dummy_proof.bin"] {
        let d = over_dir(name);
        calls.push((format!("PrivateBatchProver::new_from_binaries_dir({name} = sparse file of cap+1)"), call(move || PrivateBatchProver::new_from_binaries_dir(&d))));
    }
    for name in ["config.json", "private_batch_common.bin", "private_batch_verifier.bin", "dummy_private_batch_proof.bin"] {
        let d = over_dir(name);
        calls.push((format!("PublicBatchProver::new_from_binaries_dir({name} = sparse file of cap+1)"), call(move || PublicBatchProver::new_from_binaries_dir(&d))));
    }
    // (the aggregator's later reads - public_batch_*.bin, dummy_private_batch_proof.bin - sit behind circuit builds;
    // they are exercised in the measured group below)
    for name in ["config.json", "private_batch_common.bin", "private_batch_verifier.bin"] {
        let d = over_dir(name);
        calls.push((format!("PublicBatchAggregator::with_limits({name} = sparse file of cap+1)"), call(move || aggregator(&d))));
    }
    for name in ["common.bin", "verifier.bin", "dummy_proof.bin"] {
        let d = over_dir(name);
        calls.push((format!("generate_private_batch_circuit_binaries({name} = sparse file of cap+1)"), call(move || generate_private_batch_circuit_binaries(&d, N_LEAF, true))));
    }
    for name in ["private_batch_common.bin", "private_batch_verifier.bin"] {
        let d = over_dir(name);
        calls.push((format!("generate_public_batch_circuit_binaries({name} = sparse file of cap+1)"), call(move || generate_public_batch_circuit_binaries(&d, M_PRIV, N_LEAF))));
    }
    // a directory entry that is a symbolic link to an over-cap file outside the directory
    for name in ["common.bin", "dummy_proof.bin"] {
        let d = fx.dir_with("caplink", vec![(name, Edit::Link(big_sparse.clone()))]);
        dirs.push(d.clone());
        calls.push((format!("PrivateBatchProver::new_from_binaries_dir({name} = symbolic link to a sparse file of cap+1)"), call(move || PrivateBatchProver::new_from_binaries_dir(&d))));
    }
    for name in ["private_batch_verifier.bin"] {
        let d = fx.dir_with("caplink", vec![(name, Edit::Link(big_sparse.clone()))]);
        dirs.push(d.clone());
        let d2 = d.clone();
        calls.push((format!("PublicBatchProver::new_from_binaries_dir({name} = symbolic link to a sparse file of cap+1)"), call(move || PublicBatchProver::new_from_binaries_dir(&d))));
        calls.push((format!("PublicBatchAggregator::with_limits({name} = symbolic link to a sparse file of cap+1)"), call(move || aggregator(&d2))));
    }
    for (label, f) in &calls {
        check_overcap(rep, &format!("overcap:{label}"), label, f, &max_read);
        n_over += 1;
    }
    drop(calls);
    for d in dirs {
        fx.rm(&d);
    }
    fx.rm(&dir);

    // ---- slice cap of WormholeVerifier::new_from_bytes ----
    let mut n_slice = 0usize;
    for pos in 0..2u8 {
        let canon: &[u8] = if pos == 0 { &fx.leaf_v } else { &fx.leaf_c };
        for (k, len) in [("cap-1", cap1 - 1), ("cap", cap1), ("cap+1", cap1 + 1)] {
            let b = padded(canon, len, 0);
            let (out, _) = run(|| if pos == 0 { WormholeVerifier::new_from_bytes(&b, &fx.leaf_c) } else { WormholeVerifier::new_from_bytes(&fx.leaf_v, &b) });
            let key = format!("verifier-slice:{} = canonical bytes zero-padded to {k}", fname(pos));
            judge(rep, &key, &format!("WormholeVerifier::new_from_bytes with {} = canonical bytes zero-padded to {k} ({len} bytes)", fname(pos)), false, &out);
            rep.distinct(hash64(&key));
            n_slice += 1;
        }
    }
    // "before being hashed": a 16 MiB slice with a canonical prefix must be refused in a small fraction of
    // the time one keccak pass over it takes (measured here with the same hash function)
    let huge = padded(&fx.leaf_v, 16 * 1024 * 1024, 0);
    let t_hash = {
        use tiny_keccak::Hasher;
        let t = Instant::now();
        let mut h = tiny_keccak::Keccak::v256();
        h.update(&huge);
        let mut o = [0u8; 32];
        h.finalize(&mut o);
        std::hint::black_box(o);
        t.elapsed()
    };
    let mut slice_timing = Vec::new();
    for pos in 0..2u8 {
        let mut best = std::time::Duration::MAX;
        let mut last = Out::Acc;
        for _ in 0..5 {
            let t = Instant::now();
            let (out, _) = run(|| if pos == 0 { WormholeVerifier::new_from_bytes(&huge, &fx.leaf_c) } else { WormholeVerifier::new_from_bytes(&fx.leaf_v, &huge) });
            best = best.min(t.elapsed());
            last = out;
        }
        let key = format!("verifier-slice:16 MiB slice as {}", fname(pos));
        judge(rep, &key, &format!("WormholeVerifier::new_from_bytes with a 16 MiB slice as {}", fname(pos)), false, &last);
        rep.distinct(hash64(&key));
        n_slice += 1;
        if best > t_hash / 8 {
            viol(rep, 
                &format!("{key}:hashed"),
                &format!("WormholeVerifier::new_from_bytes spent {best:?} (best of 5) refusing a 16 MiB slice passed as {}; one keccak pass over it takes {t_hash:?}: the over-cap slice is hashed before it is rejected", fname(pos)),
                json!({"best_of_5_us": best.as_micros() as u64, "keccak_pass_us": t_hash.as_micros() as u64}),
            );
        }
        slice_timing.push(json!({"file": fname(pos), "best_of_5_us": best.as_micros() as u64}));
    }
    eprintln!("[loaders] E caps: {n_over} over-cap files, {n_under} at/below-cap files, {n_slice} slices in {:.1}s (max rchar delta {} B)", t0.elapsed().as_secs_f64(), max_read.load(Ordering::Relaxed));
    if !io {
        rep.assume("/proc/self/io is not available here: over-cap files were only checked to be rejected, not to be rejected unread");
    }
    json!({
        "over_cap_file_calls": n_over,
        "at_or_below_cap_file_calls": n_under,
        "slice_calls": n_slice,
        "read_counter": if io { "/proc/self/io rchar, calls executed one at a time" } else { "UNAVAILABLE - rejection only" },
        "largest_rchar_growth_during_an_over_cap_call_bytes": max_read.load(Ordering::Relaxed),
        "bound_bytes": READ_SLACK,
        "keccak_pass_over_16MiB_us": t_hash.as_micros() as u64,
        "refusal_time_of_16MiB_slice": slice_timing,
    })
}

// ---------------------------------------------------------------------------------
// F. no prover ever reads a prover artifact
// ---------------------------------------------------------------------------------

const PROVER_ARTIFACTS: [&str; 3] = ["prover.bin", "private_batch_prover.bin", "public_batch_prover.bin"];

fn strays(fx: &Fx) -> Vec<(&'static str, Edit)> {
    vec![
        ("stray.bin", Edit::Bytes(vec![0xEE; 4096])),
        ("common.bin.bak", Edit::Bytes(Mu::Flip(9).apply(&fx.leaf_c))),
        ("verifier.bin.old", Edit::Bytes(Mu::Flip(9).apply(&fx.leaf_v))),
        ("public_batch_prover.bin.tmp", Edit::Bytes(vec![1, 2, 3])),
        (".hidden", Edit::Bytes(vec![])),
        ("notes.txt", Edit::Bytes(b"not an artifact".to_vec())),
        ("old/private_batch_common.bin", Edit::Bytes(fx.pbo_c.clone())),
        ("aggregated_prover.bin", Edit::Dir),
    ]
}

fn planted(fx: &Fx, how: &str) -> Vec<(&'static str, Edit)> {
    let mut e = strays(fx);
    for n in PROVER_ARTIFACTS {
        e.push((
            n,
            match how {
                "directories" => Edit::Dir,
                "garbage files" => Edit::Bytes(vec![0xA5; 5000]),
                "32 MiB zero files" => Edit::Sparse(32 * 1024 * 1024),
                _ => Edit::Remove,
            },
        ));
    }
    e
}

fn jobs_planted<'a>(fx: &'a Fx, thorough: bool, counts: &mut BTreeMap<String, usize>) -> Vec<Job<'a>> {
    let mut jobs = Vec::new();
    // quick: the planted-directories run subsumes the clean run (same expected result: canonical circuits)
    let variants = if thorough { vec!["clean", "directories", "garbage files"] } else { vec!["directories"] };
    for how in variants {
        let what = if how == "clean" { "the clean directory".to_string() } else { format!("prover.bin, private_batch_prover.bin, public_batch_prover.bin planted as {how} plus stray files") };
        let mk = move |tag: &str| if how == "clean" { fx.dir_with(tag, vec![]) } else { fx.dir_with(tag, planted(fx, how)) };
        let full = thorough || how != "clean"; // quick: the clean aggregator is in the pin list, clean new_from_files is implied by the planted run
        *counts.entry("constructors on directories with planted prover artifacts / clean".into()).or_default() += if full { 5 } else { 2 };
        jobs.push(job(format!("planted:{how}:PrivateBatchProver::new_from_binaries_dir"), format!("PrivateBatchProver::new_from_binaries_dir on {what}"), true, move || with_dir(fx, mk("pl1"), |d| PrivateBatchProver::new_from_binaries_dir(d)), move |p: &PrivateBatchProver| private_prover_anomaly(fx, p)));
        jobs.push(job(format!("planted:{how}:PublicBatchProver::new_from_binaries_dir"), format!("PublicBatchProver::new_from_binaries_dir on {what}"), true, move || with_dir(fx, mk("pl2"), |d| PublicBatchProver::new_from_binaries_dir(d)), move |p: &PublicBatchProver| public_prover_anomaly(fx, p)));
        if !full {
            continue;
        }
        jobs.push(job(format!("planted:{how}:PublicBatchAggregator::with_limits"), format!("PublicBatchAggregator::with_limits on {what}"), true, move || with_dir(fx, mk("pl3"), aggregator), move |a: &PublicBatchAggregator| aggregator_anomaly(fx, a)));
        jobs.push(job(format!("planted:{how}:PrivateBatchProver::new_from_files"), format!("PrivateBatchProver::new_from_files on {what}"), true, move || with_dir(fx, mk("pl4"), |d| PrivateBatchProver::new_from_files(&d.join("common.bin"), &d.join("verifier.bin"), &d.join("dummy_proof.bin"), N_LEAF)), move |p: &PrivateBatchProver| private_prover_anomaly(fx, p)));
        jobs.push(job(format!("planted:{how}:PublicBatchProver::new_from_files"), format!("PublicBatchProver::new_from_files on {what}"), true, move || with_dir(fx, mk("pl5"), |d| PublicBatchProver::new_from_files(&d.join("private_batch_common.bin"), &d.join("private_batch_verifier.bin"), &d.join("dummy_private_batch_proof.bin"), (N_LEAF, M_PRIV))), move |p: &PublicBatchProver| public_prover_anomaly(fx, p)));
    }
    jobs
}

/// Calls that need circuit builds before they reach the interesting file run together, with the read
/// counter taken around the whole group; if the group reads more than its genuine artifacts allow, every
/// member is re-executed alone to attribute (and reproduce) the read.
///  * the three directory constructors on a directory whose planted prover artifacts are 32 MiB files
///    (expected: accepted, canonical circuits, at most the genuine artifacts read);
///  * PublicBatchAggregator::with_limits with public_batch_common.bin / public_batch_verifier.bin /
///    dummy_private_batch_proof.bin replaced by a sparse over-cap file (expected: rejected, < 64 KiB read).
fn section_measured_group(rep: &Report, fx: &Fx, thorough: bool) -> Value {
    let t0 = Instant::now();
    let genuine: u64 = fx.files.values().map(|b| b.len() as u64).sum();
    let d = fx.dir_with("planted-big", planted(fx, "32 MiB zero files"));
    let dref = &d;
    struct Member<'a> {
        name: String,
        expect: bool,
        allowed: u64,
        f: Box<dyn Fn() -> (Out, Option<String>) + Send + Sync + 'a>,
    }
    let planted_what = "a directory with prover.bin, private_batch_prover.bin, public_batch_prover.bin planted as 32 MiB files plus stray files";
    let mut members: Vec<Member> = vec![
        Member { name: format!("PrivateBatchProver::new_from_binaries_dir on {planted_what}"), expect: true, allowed: genuine + READ_SLACK, f: Box::new(move || {
            let (o, g) = run(|| PrivateBatchProver::new_from_binaries_dir(dref));
            (o, g.and_then(|p| private_prover_anomaly(fx, &p)))
        }) },
        Member { name: format!("PublicBatchProver::new_from_binaries_dir on {planted_what}"), expect: true, allowed: genuine + READ_SLACK, f: Box::new(move || {
            let (o, g) = run(|| PublicBatchProver::new_from_binaries_dir(dref));
            (o, g.and_then(|p| public_prover_anomaly(fx, &p)))
        }) },
        Member { name: format!("PublicBatchAggregator::with_limits on {planted_what}"), expect: true, allowed: genuine + READ_SLACK, f: Box::new(move || {
            let (o, g) = run(|| aggregator(dref));
            (o, g.and_then(|a| aggregator_anomaly(fx, &a)))
        }) },
    ];
    let mut dirs = vec![d.clone()];
    let late: &[&str] = if thorough { &["public_batch_common.bin", "public_batch_verifier.bin", "dummy_private_batch_proof.bin"] } else { &["public_batch_common.bin", "dummy_private_batch_proof.bin"] };
    for name in late.iter().copied() {
        let od = fx.dir_with("cap-slow", vec![(name, Edit::Sparse(MAX_ARTIFACT_FILE_BYTES + 1))]);
        dirs.push(od.clone());
        members.push(Member { name: format!("PublicBatchAggregator::with_limits({name} = sparse file of cap+1)"), expect: false, allowed: READ_SLACK, f: Box::new(move || (run(|| aggregator(&od)).0, None)) });
    }
    let (outs, delta) = measured(|| members.par_iter().map(|m| (m.f)()).collect::<Vec<_>>());
    for (m, (out, anomaly)) in members.iter().zip(&outs) {
        let key = format!("group:{}", m.name);
        rep.distinct(hash64(&key));
        if m.expect {
            judge(rep, &key, &m.name, true, out);
            if let Some(a) = anomaly {
                viol(rep, &format!("{key}:returned"), &format!("{}: accepted, but {a}", m.name), json!({"case": key}));
            }
        } else {
            rep.eval(1);
            match out {
                Out::Rej(_) => {}
                Out::Acc => viol(rep, &key, &format!("{}: an artifact file over the size cap was ACCEPTED", m.name), json!({"case": key})),
                Out::Panic(p) => note_panic(&key, p),
            }
        }
    }
    let group_bound: u64 = members.iter().map(|m| m.allowed).sum();
    let mut attributed = Vec::new();
    if let Some(dl) = delta {
        if dl > group_bound {
            for m in &members {
                let (_, d1) = measured(|| (m.f)());
                if d1.map(|x| x > m.allowed).unwrap_or(false) {
                    attributed.push(m.name.clone());
                    let why = if m.expect { "it reads a planted prover artifact" } else { "the over-cap file was READ before being rejected" };
                    viol(rep, 
                        &format!("group-read:{}", m.name),
                        &format!("{}: {} bytes were read during the call (executed alone), at most {} are explained by genuine artifacts: {why}", m.name, d1.unwrap(), m.allowed),
                        json!({"call": m.name, "rchar_delta_alone": d1, "allowed": m.allowed, "group_rchar_delta": dl, "group_bound": group_bound}),
                    );
                }
            }
            if attributed.is_empty() {
                eprintln!("note: the measured group read {dl} bytes (> {group_bound}) but no member reproduced it alone; ignored");
            }
        }
    }
    for d in dirs {
        fx.rm(&d);
    }
    eprintln!("[loaders] F/E measured group: {} calls, rchar delta {:?} (bound {group_bound}) in {:.1}s", members.len(), delta, t0.elapsed().as_secs_f64());
    json!({"calls": members.iter().map(|m| m.name.clone()).collect::<Vec<_>>(), "planted": "prover.bin, private_batch_prover.bin, public_batch_prover.bin as 32 MiB zero files, plus stray files", "bytes_read_by_the_group": delta, "group_bound": group_bound, "genuine_artifact_bytes_in_directory": genuine, "members_over_their_bound_when_run_alone": attributed})
}

fn main() {
    quiet_panics();
    let tier = tier_from_args();
    let thorough = tier == "thorough";
    if let Some(p) = arg_value("--property") {
        if p != "C17" {
            die(&format!("loaders decides C17, not {p}"));
        }
    }
    let replay_key = arg_value("--replay").map(|path| {
        let v: Value = std::fs::read_to_string(&path).ok().and_then(|s| serde_json::from_str(&s).ok()).unwrap_or_else(|| machinery_error(&format!("cannot read replay file {path}")));
        v["key"].as_str().map(|s| s.to_string()).unwrap_or_else(|| machinery_error("replay file has no key"))
    });
    let _ = REPLAY.set(replay_key.clone());
    let rep = Report::new("C17", "exploration", &tier);
    let root = std::env::temp_dir().join(format!("vharness-loaders-{}", std::process::id()));
    let _ = std::fs::remove_dir_all(&root);
    let _ = ROOT.set(root.clone());
    std::fs::create_dir_all(&root).unwrap_or_else(|e| die(&format!("cannot create {}: {e}", root.display())));
    let code = match catch(|| body(&rep, &root, thorough)) {
        Ok(c) => c,
        Err(p) => {
            die(&format!("harness panic: {p}"));
        }
    };
    let _ = std::fs::remove_dir_all(&root);
    std::process::exit(code);
}

fn body(rep: &Report, root: &Path, thorough: bool) -> i32 {
    let fx = build_fixture(root);
    // development aid: LOADERS_ONLY=A,B,D1,JOBS,E,G runs only those parts (the report is then marked as capped),
    // LOADERS_JOBS=<substring> restricts the expensive calls to keys containing the substring
    let only: Option<Vec<String>> = std::env::var("LOADERS_ONLY").ok().map(|s| s.split(',').map(|x| x.trim().to_string()).collect());
    let on = |part: &str| only.as_ref().map(|o| o.iter().any(|x| x == part)).unwrap_or(true);
    let job_filter = std::env::var("LOADERS_JOBS").ok();
    if only.is_some() || job_filter.is_some() {
        rep.cap_hit("partial run requested through LOADERS_ONLY / LOADERS_JOBS: not the full enumeration");
    }
    let n_a = if on("A") { section_keccak(rep, &fx) } else { 0 };
    let (n_b, stride_b) = if on("B") { section_leaf_rebuild(rep, &fx, thorough) } else { (0, 0) };
    let (n_d1, aliases) = if on("D1") { section_public_pin_functions(rep, &fx, thorough) } else { (0, 0) };
    let mut counts: BTreeMap<String, usize> = BTreeMap::new();
    let t0 = Instant::now();
    let mut jobs = jobs_aggregator(&fx, thorough, &mut counts);
    jobs.extend(jobs_private_batch(&fx, thorough, &mut counts));
    jobs.extend(jobs_planted(&fx, thorough, &mut counts));
    if !on("JOBS") {
        jobs.clear();
    }
    if let Some(f) = &job_filter {
        jobs.retain(|j| j.key.contains(f.as_str()));
    }
    // accepted (most expensive) calls first
    jobs.sort_by_key(|j| !(j.expect));
    run_jobs(rep, &jobs);
    eprintln!("[loaders] C/D2/F expensive loader calls: {} in {:.1}s", jobs.len(), t0.elapsed().as_secs_f64());
    for j in jobs.iter().step_by(jobs.len() / 6 + 1) {
        rep.sample(json!({"case": j.what, "expected": if j.expect { "accepted" } else { "rejected" }}));
    }
    let n_jobs = jobs.len();
    drop(jobs);
    let replaying = |prefixes: &[&str]| REPLAY.get().and_then(|r| r.as_ref()).map(|k| prefixes.iter().any(|p| k.starts_with(p))).unwrap_or(true);
    let caps = if on("E") && replaying(&["verifier-files", "read_artifact_file", "private-prover-files:common.bin = sparse", "overcap:", "verifier-slice:"]) { section_caps(rep, &fx) } else { json!(null) };
    let planted_reads = if on("G") && replaying(&["group"]) { section_measured_group(rep, &fx, thorough) } else { json!(null) };

    rep.extra("cases_per_loader", json!({
        "WormholeVerifier::new_from_bytes (keccak pin)": {"cases": n_a, "set": "EVERY single-bit flip, EVERY proper prefix, extensions {0x00,0xff} of verifier.bin and of common.bin, plus whole-file substitutions", "all_single_bit_flips": true},
        "load_canonical_leaf_verifier_data (rebuild pin)": {"cases": n_b, "set": if stride_b == 1 { "EVERY element of the same mutation list (all single-bit flips, all proper prefixes, both extensions) and the whole-file substitutions".to_string() } else { format!("every {stride_b}-th element of the same mutation list (deterministic stride, coprime to 8 so every bit-in-byte position is visited), all prefixes at 16-byte steps, both extensions, the whole-file substitutions") }, "all_single_bit_flips": stride_b == 1},
        "load_verifier_data_from_bytes + ensure_verifier_data_matches_canonical (public pin as composed by the aggregator)": {"cases": n_d1, "set": "EVERY single-bit flip, EVERY proper prefix, extensions of public_batch_common.bin and public_batch_verifier.bin, every field mutant, whole-file substitutions", "all_single_bit_flips": true, "semantic_aliases_found": aliases},
        "expensive loader calls (one circuit build or more each)": counts,
        "expensive loader calls total": n_jobs,
    }));
    {
        let notes = PANIC_NOTES.lock().unwrap();
        rep.extra("inputs_rejected_by_panic_elsewhere", json!({"count": notes.len(), "first": notes.iter().take(20).map(|n| json!({"case": n.0, "panic": n.1})).collect::<Vec<_>>()}));
    }
    rep.extra("size_caps", caps);
    rep.extra("measured_group_planted_prover_artifacts_and_late_over_cap_files", planted_reads);
    rep.extra("fixture", json!({"bins_dir": format!("generate_all_circuit_binaries(include_prover=true, num_leaf_proofs={N_LEAF}, num_private_batch_proofs={M_PRIV})"), "other_shapes": format!("private batch N={N_OTHER}, public batch M={M_OTHER}, leaf under the zk recursion config"), "artifact_sizes": {"common.bin": fx.leaf_c.len(), "verifier.bin": fx.leaf_v.len(), "private_batch_common.bin": fx.pb_c.len(), "private_batch_verifier.bin": fx.pb_v.len(), "public_batch_common.bin": fx.pub_c.len(), "public_batch_verifier.bin": fx.pub_v.len()}}));
    rep.extra("exhaustive_scope", json!("exhaustive = every element of every set named in cases_per_loader was evaluated, no time or count cap was hit. Only the sets marked all_single_bit_flips=true contain every single-bit flip; the others are the deterministic strided/structured subsets described there."));
    rep.rule(&format!(
        "case = (loader entry point, artifact bytes or bins directory). Oracle: accepted <=> the bytes equal the harness's own rebuild of the canonical circuit for the configured shape (public batch: both files deserialise and re-serialise to the canonical bytes); a loader that unwinds has rejected (such inputs are listed in the evidence, C17 does not forbid them); a file over the cap must be rejected with /proc/self/io rchar growing by < {READ_SLACK} bytes during the call (calls run one at a time); a slice over the cap must be refused in < 1/8 of one keccak pass over it; constructors must return the canonical circuits whatever prover artifacts are planted. Sets: keccak-pinned WormholeVerifier::new_from_bytes and the public-batch pin functions: ALL single-bit flips, ALL proper prefixes, one-byte extensions 0x00/0xff of each file; load_canonical_leaf_verifier_data: every {stride_b}-th element of that list (deterministic stride, not a sample; 1 = the whole list) + prefixes at 16-byte steps; private-batch pin, prover constructors, artifact builders and PublicBatchAggregator::with_limits: the structured lists counted in cases_per_loader (spread bit flips, prefixes, extensions, other-shape artifacts, swapped files, one-field re-serialisations). distinct = distinct (entry point, input) pairs"
    ));
    rep.assume("the aggregator's byte-slice constructors define no slice cap; nothing beyond the pin is demanded of them");
    if let Some(k) = REPLAY.get().and_then(|r| r.as_ref()) {
        // replay: only that case was judged; no evidence file is written
        if rep.n_violations() > 0 {
            println!("VIOLATION property=C17 replayed-key={k}");
            return 1;
        }
        println!("replay of {k}: not reproduced");
        return 0;
    }
    rep.assume("'not read' is observed as process-wide rchar growth during a call executed alone; 'not hashed' as refusal time against a measured keccak pass");
    rep.finish()
}
