//! C01..C04 (and the CX half of C05): leaf circuit exploration.
use vharness::leafx::{explore, LeafCtx};
use vharness::mcx::*;

fn main() {
    quiet_panics();
    let tier = tier_from_args();
    let prop = arg_value("--property");
    let ctx = LeafCtx::new();
    if let Some(path) = arg_value("--replay") {
        std::process::exit(replay(&ctx, &path));
    }
    let reps: Vec<Report> = ["C01", "C02", "C03", "C04", "C05x"]
        .iter()
        .map(|p| Report::new(p, "model_checking", &tier))
        .collect();
    let r: [&Report; 5] = [&reps[0], &reps[1], &reps[2], &reps[3], &reps[4]];
    explore(&ctx, &tier, &r);
    // evidence is written for C01..C04; the completeness half belongs to C05's own check
    let code = finish_all(&r[..4], prop.as_deref());
    if reps[4].n_violations() > 0 {
        eprintln!("note: {} completeness/PI-order observations are reported by the C05 check", reps[4].n_violations());
    }
    std::process::exit(code);
}

/// Re-execute one recorded violation without the explorer: the assignment and the deviation
/// script are read from the replay file, run through CX, judged by the reference predicate,
/// and (if accepted) proven and verified with the real prover/verifier.
fn replay(ctx: &LeafCtx, path: &str) -> i32 {
    use vharness::cx::{Cx, Dev};
    use vharness::leafref::{fields, LeafA};
    let v: serde_json::Value = serde_json::from_str(&std::fs::read_to_string(path).expect("replay file")).expect("json");
    let case = &v["case"];
    let mut a = LeafA::zero();
    for fd in fields() {
        if let Some(arr) = case["assignment"][&fd.name].as_array() {
            for (k, x) in arr.iter().enumerate() {
                a.v[fd.off + k] = x.as_u64().unwrap();
            }
        }
    }
    let devs: Vec<Dev> = case["deviations"].as_array().map(|d| d.iter().map(|x| Dev { gen: x["gen"].as_u64().unwrap() as usize, alt: x["alt"].as_u64().unwrap() as usize }).collect()).unwrap_or_default();
    let cx = Cx::new(&ctx.data);
    let inputs = a.to_inputs(&ctx.targets);
    let out = cx.run(&inputs, &devs, &[], false);
    let pv = a.p_violations();
    println!("circuit: {}", out.verdict.short());
    println!("spec clauses violated by the statement: {pv:?}");
    if out.verdict.accepted() {
        println!("real prover + verifier on this witness: {:?}", cx.prove_and_verify(&inputs, &devs));
    }
    if out.verdict.accepted() && !pv.is_empty() {
        println!("VIOLATION property={} replay={path}", v["property"].as_str().unwrap_or("?"));
        1
    } else {
        println!("not reproduced on this tree");
        0
    }
}
