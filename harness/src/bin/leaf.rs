//! C01..C04 (and the CX half of C05): leaf circuit exploration.
use vharness::leafx::{explore, LeafCtx};
use vharness::mcx::*;

fn main() {
    quiet_panics();
    let tier = tier_from_args();
    let prop = arg_value("--property");
    let ctx = LeafCtx::new();
    let reps: Vec<Report> = ["C01", "C02", "C03", "C04", "C05x"]
        .iter()
        .map(|p| Report::new(p, "model_checking", &tier))
        .collect();
    let r: [&Report; 5] = [&reps[0], &reps[1], &reps[2], &reps[3], &reps[4]];
    explore(&ctx, &tier, &r);
    // evidence is written for C01..C04; the completeness half belongs to C05's own check
    let code = finish_all(&r[..4], prop.as_deref());
    if reps[4].n_violations() > 0 {
        eprintln!("note: {} completeness/PI-order observations are reported by the C05 check", reps[4].n_violations());
    }
    std::process::exit(code);
}
