//! Wrapper-only circuits (the real `build_private_batch_constraints` /
//! `build_public_batch_constraints` over *free* child public inputs) and the native
//! reference models of C06-C09, C12, C13, C36.
use crate::cx::{f, C, D, F};
use crate::leafref::h;
use plonky2::iop::target::Target;
use plonky2::plonk::circuit_builder::CircuitBuilder;
use plonky2::plonk::circuit_data::{CircuitConfig, CircuitData, CommonCircuitData};
use wormhole_aggregator::private_batch::circuit::circuit_logic::{
    verif_build_private_batch_wrapper, PrivateBatchCircuitTargets,
};
use wormhole_aggregator::public_batch::circuit::circuit_logic::{
    verif_build_public_batch_wrapper, PublicBatchCircuitTargets,
};

pub type D4 = [u64; 4];
pub const Z4: D4 = [0; 4];

/// One leaf statement as the private-batch wrapper sees it (21 public inputs) plus the
/// slot's dummy-nullifier preimage.
#[derive(Clone, Debug, PartialEq, Eq, Hash, PartialOrd, Ord)]
pub struct Slot {
    pub asset: u64,
    pub a1: u64,
    pub a2: u64,
    pub fee: u64,
    pub nullifier: D4,
    pub e1: D4,
    pub e2: D4,
    pub bh: D4,
    pub number: u64,
    pub pre: D4,
}
impl Slot {
    pub fn pis(&self) -> Vec<u64> {
        let mut p = vec![self.asset, self.a1, self.a2, self.fee];
        p.extend_from_slice(&self.nullifier);
        p.extend_from_slice(&self.e1);
        p.extend_from_slice(&self.e2);
        p.extend_from_slice(&self.bh);
        p.push(self.number);
        p
    }
    pub fn is_dummy(&self) -> bool {
        self.bh == Z4
    }
    pub fn dummy_nullifier(&self) -> D4 {
        h(&h(&self.pre))
    }
}

/// C07's acceptance predicate. Ok(()) or the reason the spec says "unsatisfiable".
pub fn private_accepts(slots: &[Slot]) -> Result<(), &'static str> {
    if slots.iter().any(|s| s.asset != slots[0].asset) {
        return Err("asset ids differ");
    }
    let reals: Vec<&Slot> = slots.iter().filter(|s| !s.is_dummy()).collect();
    if let Some(r0) = reals.first() {
        if reals.iter().any(|s| s.bh != r0.bh) {
            return Err("real block hashes differ");
        }
        if reals.iter().any(|s| s.fee != r0.fee) {
            return Err("real fees differ");
        }
    }
    for i in 0..reals.len() {
        for j in i + 1..reals.len() {
            if reals[i].nullifier == reals[j].nullifier {
                return Err("duplicate real nullifier");
            }
        }
    }
    for (_, sum) in group_exits(slots) {
        if sum >= 1u128 << 32 {
            return Err("grouped exit sum >= 2^32");
        }
    }
    Ok(())
}

/// Dummy-masked (account, amount) pairs in slot order.
pub fn masked_pairs(slots: &[Slot]) -> Vec<(D4, u128)> {
    let mut v = Vec::new();
    for s in slots {
        if s.is_dummy() {
            v.push((Z4, 0));
            v.push((Z4, 0));
        } else {
            v.push((s.e1, s.a1 as u128));
            v.push((s.e2, s.a2 as u128));
        }
    }
    v
}
/// Groups in first-occurrence order: (account, total).
pub fn group_exits(slots: &[Slot]) -> Vec<(D4, u128)> {
    let mut out: Vec<(D4, u128)> = Vec::new();
    for (acc, amt) in masked_pairs(slots) {
        if let Some(e) = out.iter_mut().find(|e| e.0 == acc) {
            e.1 += amt;
        } else {
            out.push((acc, amt));
        }
    }
    out
}

/// C06's aggregate: the full 21N+8 output vector.
pub fn private_agg(slots: &[Slot]) -> Vec<u64> {
    let n = slots.len();
    let mut out = vec![2 * n as u64, slots[0].asset];
    match slots.iter().find(|s| !s.is_dummy()) {
        Some(r) => {
            out.push(r.fee);
            out.extend_from_slice(&r.bh);
            out.push(r.number);
        }
        None => out.extend_from_slice(&[0; 6]),
    }
    // header order is [2N, asset, fee, block hash(4), number]
    let pairs = masked_pairs(slots);
    let groups = group_exits(slots);
    let mut seen: Vec<D4> = Vec::new();
    for (acc, _) in &pairs {
        if seen.contains(acc) {
            out.extend_from_slice(&[0; 5]);
        } else {
            seen.push(*acc);
            let total = groups.iter().find(|g| g.0 == *acc).unwrap().1;
            out.push(total as u64);
            out.extend_from_slice(acc);
        }
    }
    let mut nulls: Vec<D4> = slots.iter().map(|s| if s.is_dummy() { s.dummy_nullifier() } else { s.nullifier }).collect();
    nulls.sort();
    for nl in nulls {
        out.extend_from_slice(&nl);
    }
    out.resize(21 * n + 8, 0);
    out
}

pub struct PrivWrap {
    pub n: usize,
    pub data: CircuitData<F, C, D>,
    pub pi_targets: Vec<Vec<Target>>,
    pub pre_targets: Vec<[Target; 4]>,
}

pub fn wrapper_config(base: CircuitConfig) -> CircuitConfig {
    CircuitConfig { zero_knowledge: false, ..base }
}

pub fn build_priv_wrapper(n: usize, leaf_common: &CommonCircuitData<F, D>) -> PrivWrap {
    let cfg = wrapper_config(zk_circuits_common::circuit::wormhole_private_batch_circuit_config());
    let mut b = CircuitBuilder::<F, D>::new(cfg);
    let leaf_proofs: Vec<_> = (0..n).map(|_| b.add_virtual_proof_with_pis(leaf_common)).collect();
    let pre: Vec<[Target; 4]> = (0..n).map(|_| core::array::from_fn(|_| b.add_virtual_target())).collect();
    let targets = PrivateBatchCircuitTargets { leaf_proofs, dummy_nullifier_pre_images: pre.clone() };
    verif_build_private_batch_wrapper(&mut b, &targets, n);
    let pi_targets = targets.leaf_proofs.iter().map(|p| p.public_inputs.clone()).collect();
    PrivWrap { n, data: b.build::<C>(), pi_targets, pre_targets: pre }
}

impl PrivWrap {
    pub fn inputs(&self, slots: &[Slot]) -> Vec<(Target, F)> {
        assert_eq!(slots.len(), self.n);
        let mut v = Vec::with_capacity(self.n * 25);
        for (i, s) in slots.iter().enumerate() {
            for (k, x) in s.pis().into_iter().enumerate() {
                v.push((self.pi_targets[i][k], f(x)));
            }
            for k in 0..4 {
                v.push((self.pre_targets[i][k], f(s.pre[k])));
            }
        }
        v
    }
}

// ---------------------------------------------------------------------------------
// Public batch
// ---------------------------------------------------------------------------------

/// One private-batch statement as the public wrapper sees it: the full 21N+8 vector.
#[derive(Clone, Debug, PartialEq, Eq, Hash, PartialOrd, Ord)]
pub struct Inner {
    pub pis: Vec<u64>,
}
impl Inner {
    pub fn n(&self) -> usize {
        (self.pis.len() - 8) / 21
    }
    pub fn asset(&self) -> u64 {
        self.pis[1]
    }
    pub fn fee(&self) -> u64 {
        self.pis[2]
    }
    pub fn bh(&self) -> D4 {
        [self.pis[3], self.pis[4], self.pis[5], self.pis[6]]
    }
    pub fn number(&self) -> u64 {
        self.pis[7]
    }
    pub fn is_dummy(&self) -> bool {
        self.bh() == Z4
    }
    pub fn slots(&self) -> &[u64] {
        &self.pis[8..8 + 10 * self.n()]
    }
    pub fn nullifiers(&self) -> &[u64] {
        let n = self.n();
        &self.pis[8 + 10 * n..8 + 10 * n + 4 * n]
    }
}

/// C13's acceptance predicate.
pub fn public_accepts(inners: &[Inner]) -> Result<(), &'static str> {
    let reals: Vec<&Inner> = inners.iter().filter(|i| !i.is_dummy()).collect();
    if let Some(r0) = reals.first() {
        if reals.iter().any(|i| i.bh() != r0.bh()) {
            return Err("real block hashes differ");
        }
        if reals.iter().any(|i| i.asset() != r0.asset()) {
            return Err("real asset ids differ");
        }
        if reals.iter().any(|i| i.fee() != r0.fee()) {
            return Err("real fees differ");
        }
    }
    Ok(())
}

/// C12's output.
pub fn public_agg(addr: D4, inners: &[Inner]) -> Vec<u64> {
    let m = inners.len();
    let n = inners[0].n();
    let mut out = addr.to_vec();
    match inners.iter().find(|i| !i.is_dummy()) {
        Some(r) => {
            out.push(r.asset());
            out.push(r.fee());
            out.extend_from_slice(&r.bh());
            out.push(r.number());
        }
        None => out.extend_from_slice(&[0; 7]),
    }
    out.push((2 * n * m) as u64);
    for i in inners {
        if i.is_dummy() {
            out.extend(std::iter::repeat(0).take(10 * n));
        } else {
            out.extend_from_slice(i.slots());
        }
    }
    for i in inners {
        if i.is_dummy() {
            out.extend(std::iter::repeat(0).take(4 * n));
        } else {
            out.extend_from_slice(i.nullifiers());
        }
    }
    out
}

pub struct PubWrap {
    pub m: usize,
    pub n: usize,
    pub data: CircuitData<F, C, D>,
    pub pi_targets: Vec<Vec<Target>>,
    pub addr: [Target; 4],
}

pub fn build_pub_wrapper(m: usize, n: usize, some_common: &CommonCircuitData<F, D>) -> PubWrap {
    let cfg = wrapper_config(zk_circuits_common::circuit::wormhole_public_batch_circuit_config());
    let mut b = CircuitBuilder::<F, D>::new(cfg);
    let len = 21 * n + 8;
    let proofs: Vec<_> = (0..m)
        .map(|_| {
            // proof targets of the right *shape family*; only `public_inputs` is read by the wrapper
            let mut p = b.add_virtual_proof_with_pis(some_common);
            p.public_inputs = b.add_virtual_targets(len);
            p
        })
        .collect();
    let addr: [Target; 4] = b.add_virtual_targets(4).try_into().unwrap();
    let targets = PublicBatchCircuitTargets { private_batch_proofs: proofs, aggregator_address: addr };
    verif_build_public_batch_wrapper(&mut b, &targets, m, n);
    let pi_targets = targets.private_batch_proofs.iter().map(|p| p.public_inputs.clone()).collect();
    PubWrap { m, n, data: b.build::<C>(), pi_targets, addr }
}

impl PubWrap {
    pub fn inputs(&self, addr: D4, inners: &[Inner]) -> Vec<(Target, F)> {
        assert_eq!(inners.len(), self.m);
        let mut v = Vec::new();
        for k in 0..4 {
            v.push((self.addr[k], f(addr[k])));
        }
        for (i, inn) in inners.iter().enumerate() {
            assert_eq!(inn.pis.len(), 21 * self.n + 8);
            for (k, x) in inn.pis.iter().enumerate() {
                v.push((self.pi_targets[i][k], f(*x)));
            }
        }
        v
    }
}
