//! Real proofs used by the prover-level checks (C14, C15, C16, C17, C18, C11): genuine leaf
//! proofs sharing blocks, the canonical dummy template, real private-batch proofs.
use crate::cx::{u, C, D, F};
use crate::leafnative::{build_ext, leaf_hash_of, shared_tree, HonestParams};
use crate::wrapref::{Slot, D4};
use plonky2::iop::witness::{PartialWitness, WitnessWrite};
use plonky2::plonk::circuit_data::{CircuitData, VerifierCircuitData};
use plonky2::plonk::proof::ProofWithPublicInputs;
use wormhole_aggregator::private_batch::circuit::circuit_logic::{PrivateBatchCircuit, PrivateBatchCircuitTargets};
use wormhole_prover::WormholeProver;

pub type Proof = ProofWithPublicInputs<F, C, D>;

pub fn leaf_verifier() -> VerifierCircuitData<F, C, D> {
    wormhole_circuit::circuit::circuit_logic::WormholeCircuit::default().build_verifier()
}

pub fn prove_leaf(inputs: &wormhole_circuit::inputs::CircuitInputs) -> anyhow::Result<Proof> {
    WormholeProver::new(zk_circuits_common::circuit::wormhole_leaf_circuit_config())?.commit(inputs)?.prove()
}

pub fn dummy_leaf_proof() -> Proof {
    prove_leaf(&wormhole_aggregator::build_dummy_circuit_inputs().unwrap()).expect("canonical dummy leaf proves")
}

/// Specification of one real leaf inside a block.
#[derive(Clone, Debug)]
pub struct LeafSpec {
    pub name: &'static str,
    pub seed: u64,
    pub asset: u32,
    pub input: u32,
    pub fee: u32,
    pub out1: u32,
    pub out2: u32,
    pub exit1: D4,
    pub exit2: D4,
}

/// Prove every leaf of one block (all leaves share header, number and tree).
pub fn prove_block(block_seed: u64, number: u32, specs: &[LeafSpec]) -> Vec<(LeafSpec, Proof)> {
    let params: Vec<HonestParams> = specs
        .iter()
        .map(|s| HonestParams { seed: s.seed, depth: 2, positions: vec![0, 0], asset: s.asset, input: s.input, fee: s.fee, out1: s.out1, out2: s.out2, tc: 3 + s.seed, block_number: number })
        .collect();
    let hashes: Vec<[u64; 4]> = params.iter().map(leaf_hash_of).collect();
    let paths = shared_tree(block_seed, &hashes);
    use rayon::prelude::*;
    specs
        .par_iter()
        .zip(params.par_iter())
        .zip(paths.par_iter())
        .map(|((s, p), path)| {
            let hst = build_ext(p, Some(path), Some((s.exit1, s.exit2)), 0xB10C_0000 + block_seed);
            assert!(hst.a.hon(), "fixture leaf {} must be honest: {:?}", s.name, hst.a.p_violations());
            let proof = prove_leaf(&hst.inputs).unwrap_or_else(|e| panic!("fixture leaf {} must prove: {e}", s.name));
            (s.clone(), proof)
        })
        .collect()
}

pub fn slot_of_proof(p: &Proof, pre: D4) -> Slot {
    let v: Vec<u64> = p.public_inputs.iter().map(|x| u(*x)).collect();
    Slot {
        asset: v[0],
        a1: v[1],
        a2: v[2],
        fee: v[3],
        nullifier: [v[4], v[5], v[6], v[7]],
        e1: [v[8], v[9], v[10], v[11]],
        e2: [v[12], v[13], v[14], v[15]],
        bh: [v[16], v[17], v[18], v[19]],
        number: v[20],
        pre,
    }
}

pub fn private_batch_circuit(n: usize, leaf: &VerifierCircuitData<F, C, D>) -> (CircuitData<F, C, D>, PrivateBatchCircuitTargets) {
    let c = PrivateBatchCircuit::new(zk_circuits_common::circuit::wormhole_private_batch_circuit_config(), &leaf.common, &leaf.verifier_only, n).expect("canonical private batch circuit");
    let t = c.targets();
    (c.build_circuit(), t)
}

/// Fill a private-batch witness directly (bypassing the prover's admission), as the
/// artifact builder does for the all-dummy template.
pub fn fill_private(pw: &mut PartialWitness<F>, t: &PrivateBatchCircuitTargets, proofs: &[Proof], pres: &[D4]) -> anyhow::Result<()> {
    for (pt, p) in t.leaf_proofs.iter().zip(proofs) {
        pw.set_proof_with_pis_target(pt, p)?;
    }
    for (tt, pre) in t.dummy_nullifier_pre_images.iter().zip(pres) {
        for k in 0..4 {
            pw.set_target(tt[k], crate::cx::f(pre[k]))?;
        }
    }
    Ok(())
}

/// A real private-batch proof over the given leaf proofs (no admission checks).
pub fn prove_private_raw(data: &CircuitData<F, C, D>, t: &PrivateBatchCircuitTargets, proofs: &[Proof], pres: &[D4]) -> anyhow::Result<Proof> {
    let mut pw = PartialWitness::new();
    fill_private(&mut pw, t, proofs, pres)?;
    data.prove(pw)
}
