//! mcx — explorer core: bounded-exhaustive enumeration helpers, the deviation-bounded
//! choice tree, evidence/violation bookkeeping. No dependency on the subject.
use serde_json::{json, Value};
use std::collections::BTreeMap;
use std::io::Write;
use std::sync::atomic::{AtomicU64, Ordering};
use std::sync::Mutex;
use std::time::Instant;

pub const VERIF_DIR: &str = "/verif";

// ---------------------------------------------------------------------------------
// Enumeration
// ---------------------------------------------------------------------------------

/// Odometer enumeration of a finite product; element 0 of every domain first, so the
/// first assignment is the "simplest" one. Calls `f` for every tuple of indices.
pub fn product_indices(sizes: &[usize], mut f: impl FnMut(&[usize])) {
    if sizes.iter().any(|&s| s == 0) {
        return;
    }
    let mut idx = vec![0usize; sizes.len()];
    loop {
        f(&idx);
        let mut i = sizes.len();
        loop {
            if i == 0 {
                return;
            }
            i -= 1;
            idx[i] += 1;
            if idx[i] < sizes[i] {
                break;
            }
            idx[i] = 0;
        }
    }
}

/// All tuples of a finite product, materialised.
pub fn product<T: Clone>(domains: &[Vec<T>]) -> Vec<Vec<T>> {
    let sizes: Vec<usize> = domains.iter().map(|d| d.len()).collect();
    let mut out = Vec::new();
    product_indices(&sizes, |ix| {
        out.push(ix.iter().enumerate().map(|(k, &i)| domains[k][i].clone()).collect())
    });
    out
}

/// All "edits" at Hamming distance 1..=k from a base point: an edit is a sorted list
/// of (field index, alternative index). `alts[i]` = number of alternatives of field i.
pub fn edits_within_distance(alts: &[usize], k: usize) -> Vec<Vec<(usize, usize)>> {
    let mut out: Vec<Vec<(usize, usize)>> = vec![vec![]];
    let mut frontier: Vec<Vec<(usize, usize)>> = vec![vec![]];
    for _ in 0..k {
        let mut next = Vec::new();
        for e in &frontier {
            let start = e.last().map(|x| x.0 + 1).unwrap_or(0);
            for f in start..alts.len() {
                for a in 0..alts[f] {
                    let mut e2 = e.clone();
                    e2.push((f, a));
                    next.push(e2);
                }
            }
        }
        out.extend(next.iter().cloned());
        frontier = next;
    }
    out
}

/// All permutations of 0..n (lexicographic).
pub fn permutations(n: usize) -> Vec<Vec<usize>> {
    let mut out = Vec::new();
    let mut p: Vec<usize> = (0..n).collect();
    loop {
        out.push(p.clone());
        // next permutation
        let mut i = n;
        loop {
            if i < 2 {
                return out;
            }
            i -= 1;
            if p[i - 1] < p[i] {
                break;
            }
        }
        let mut j = n - 1;
        while p[j] <= p[i - 1] {
            j -= 1;
        }
        p.swap(i - 1, j);
        p[i..].reverse();
    }
}

// ---------------------------------------------------------------------------------
// Choice tree (deviation-bounded stateless exploration)
// ---------------------------------------------------------------------------------

/// Records the choices of one execution: replays `prefix`, then takes choice 0.
pub struct Choices {
    prefix: Vec<u32>,
    pub taken: Vec<(u32, u32)>, // (chosen, arity)
    pub diverged: bool,
}
impl Choices {
    pub fn new(prefix: Vec<u32>) -> Self {
        Self { prefix, taken: vec![], diverged: false }
    }
    pub fn choose(&mut self, arity: u32) -> u32 {
        let i = self.taken.len();
        let c = if i < self.prefix.len() { self.prefix[i] } else { 0 };
        if c >= arity {
            self.diverged = true;
            self.taken.push((0, arity));
            return 0;
        }
        self.taken.push((c, arity));
        c
    }
    pub fn script(&self) -> Vec<u32> {
        self.taken.iter().map(|x| x.0).collect()
    }
}

/// Explore every execution of `run` with at most `bound` non-default choices
/// (`bound = usize::MAX` = every script). `visit(script, result)` is called for each
/// complete execution. Returns (executions, choice edges taken). A prefix that does not
/// replay is a machinery error.
pub fn choice_tree<R>(
    bound: usize,
    mut run: impl FnMut(&mut Choices) -> R,
    mut visit: impl FnMut(&[u32], R),
) -> (u64, u64) {
    let mut stack: Vec<Vec<u32>> = vec![vec![]];
    let mut execs = 0u64;
    let mut edges = 0u64;
    while let Some(prefix) = stack.pop() {
        let plen = prefix.len();
        let mut ch = Choices::new(prefix);
        let r = run(&mut ch);
        if ch.diverged || ch.taken.len() < plen {
            machinery_error("choice_tree: prefix did not replay (uncontrolled nondeterminism)");
        }
        execs += 1;
        edges += ch.taken.len() as u64;
        let script = ch.script();
        let devs_before: Vec<usize> = {
            let mut acc = 0;
            script
                .iter()
                .map(|&c| {
                    let b = acc;
                    if c != 0 {
                        acc += 1;
                    }
                    b
                })
                .collect()
        };
        for i in (plen..ch.taken.len()).rev() {
            if devs_before[i] + 1 > bound {
                continue;
            }
            for alt in (1..ch.taken[i].1).rev() {
                let mut p = script[..i].to_vec();
                p.push(alt);
                stack.push(p);
            }
        }
        visit(&script, r);
    }
    (execs, edges)
}

// ---------------------------------------------------------------------------------
// Evidence, violations, known findings
// ---------------------------------------------------------------------------------

pub fn machinery_error(msg: &str) -> ! {
    eprintln!("MACHINERY-ERROR: {msg}");
    std::process::exit(2);
}

pub fn tier_from_args() -> String {
    let args: Vec<String> = std::env::args().collect();
    for (i, a) in args.iter().enumerate() {
        if a == "--tier" {
            return args[i + 1].clone();
        }
    }
    std::env::var("VERIF_TIER").unwrap_or_else(|_| "quick".into())
}
pub fn arg_value(name: &str) -> Option<String> {
    let args: Vec<String> = std::env::args().collect();
    for (i, a) in args.iter().enumerate() {
        if a == name {
            return args.get(i + 1).cloned();
        }
    }
    None
}
pub fn seed() -> i64 {
    std::env::var("VERIF_SEED").ok().and_then(|s| s.parse().ok()).unwrap_or(0)
}

#[derive(Clone, Debug)]
pub struct Violation {
    pub property: String,
    pub key: String, // stable identity of the failing case (matched against known findings)
    pub what: String,
    pub case: Value,
}

/// Per-property collector. Thread-safe.
pub struct Report {
    pub property: String,
    pub level: String,
    pub tier: String,
    start: Instant,
    pub evaluations: AtomicU64,
    pub states: AtomicU64,
    pub transitions: AtomicU64,
    pub traces: AtomicU64,
    inner: Mutex<ReportInner>,
}
#[derive(Default)]
struct ReportInner {
    distinct: std::collections::HashSet<u64>,
    samples: Vec<Value>,
    violations: Vec<Violation>,
    rule: String,
    assumptions: Vec<String>,
    extra: BTreeMap<String, Value>,
    exhaustive: bool,
    caps: Vec<String>,
}

pub fn hash64(v: &impl std::hash::Hash) -> u64 {
    use std::hash::Hasher;
    let mut h = std::collections::hash_map::DefaultHasher::new();
    v.hash(&mut h);
    h.finish()
}

impl Report {
    pub fn new(property: &str, level: &str, tier: &str) -> Self {
        Self {
            property: property.into(),
            level: level.into(),
            tier: tier.into(),
            start: Instant::now(),
            evaluations: AtomicU64::new(0),
            states: AtomicU64::new(0),
            transitions: AtomicU64::new(0),
            traces: AtomicU64::new(0),
            inner: Mutex::new(ReportInner { exhaustive: true, ..Default::default() }),
        }
    }
    pub fn eval(&self, n: u64) {
        self.evaluations.fetch_add(n, Ordering::Relaxed);
    }
    pub fn rule(&self, r: &str) {
        self.inner.lock().unwrap().rule = r.into();
    }
    pub fn assume(&self, a: &str) {
        self.inner.lock().unwrap().assumptions.push(a.into());
    }
    /// Record a distinct non-trivial case by hash.
    pub fn distinct(&self, h: u64) {
        self.inner.lock().unwrap().distinct.insert(h);
    }
    pub fn distinct_many(&self, hs: impl IntoIterator<Item = u64>) {
        let mut g = self.inner.lock().unwrap();
        for h in hs {
            g.distinct.insert(h);
        }
    }
    pub fn sample(&self, v: Value) {
        let mut g = self.inner.lock().unwrap();
        if g.samples.len() < 12 {
            g.samples.push(v);
        }
    }
    pub fn extra(&self, k: &str, v: Value) {
        self.inner.lock().unwrap().extra.insert(k.into(), v);
    }
    pub fn add_extra_count(&self, k: &str, n: u64) {
        let mut g = self.inner.lock().unwrap();
        let cur = g.extra.get(k).and_then(|v| v.as_u64()).unwrap_or(0);
        g.extra.insert(k.into(), json!(cur + n));
    }
    pub fn cap_hit(&self, what: &str) {
        let mut g = self.inner.lock().unwrap();
        g.exhaustive = false;
        g.caps.push(what.into());
    }
    pub fn violation(&self, key: &str, what: &str, case: Value) {
        let mut g = self.inner.lock().unwrap();
        if g.violations.len() < 6 && !g.violations.iter().any(|v| v.key == key) {
            g.violations.push(Violation {
                property: self.property.clone(),
                key: key.into(),
                what: what.into(),
                case,
            });
        }
    }
    /// (property, key, what) of every violation recorded so far (used by --replay runs, which
    /// never write evidence).
    pub fn violation_texts(&self) -> Vec<(String, String, String)> {
        self.inner.lock().unwrap().violations.iter().map(|v| (v.property.clone(), v.key.clone(), v.what.clone())).collect()
    }
    pub fn n_violations(&self) -> usize {
        self.inner.lock().unwrap().violations.len()
    }

    /// Write the evidence file, print VIOLATION / KNOWN-FINDING lines, return exit code.
    pub fn finish(&self) -> i32 {
        let g = self.inner.lock().unwrap();
        let known = load_known_findings();
        let mut new_violations = 0;
        let mut known_hits = 0;
        for v in &g.violations {
            let is_known = known.iter().any(|k| {
                k.get("status").and_then(|s| s.as_str()) == Some("open")
                    && k.get("property").and_then(|s| s.as_str()) == Some(&v.property)
                    && k.get("key").and_then(|s| s.as_str()) == Some(&v.key)
            });
            if is_known {
                known_hits += 1;
                println!("KNOWN-FINDING: property={} {} [{}]", v.property, v.what, v.key);
            } else {
                new_violations += 1;
                let path = format!(
                    "{}/replays/{}-{:016x}.json",
                    VERIF_DIR,
                    v.property,
                    hash64(&v.key)
                );
                let body = json!({"property": v.property, "key": v.key, "what": v.what, "case": v.case});
                let _ = std::fs::create_dir_all(format!("{}/replays", VERIF_DIR));
                let _ = std::fs::write(&path, serde_json::to_string_pretty(&body).unwrap());
                println!("VIOLATION property={} replay={}", v.property, path);
                eprintln!("  -> {}", v.what.chars().take(400).collect::<String>());
            }
        }
        let evaluations = self.evaluations.load(Ordering::Relaxed);
        let mut coverage = serde_json::Map::new();
        coverage.insert("evaluations".into(), json!(evaluations));
        coverage.insert("distinct_nontrivial".into(), json!(g.distinct.len()));
        coverage.insert("rule".into(), json!(g.rule));
        let samples = if g.samples.is_empty() { vec![json!("(none)")] } else { g.samples.clone() };
        coverage.insert("samples".into(), json!(samples));
        coverage.insert("exhaustive".into(), json!(g.exhaustive));
        if !g.caps.is_empty() {
            coverage.insert("caps_hit".into(), json!(g.caps));
        }
        if self.level == "model_checking" {
            let st = self.states.load(Ordering::Relaxed);
            let tr = self.transitions.load(Ordering::Relaxed);
            coverage.insert("states".into(), json!(st.max(1)));
            coverage.insert("transitions".into(), json!(tr.max(1)));
            coverage.insert(
                "traces_validated_against_impl".into(),
                json!(self.traces.load(Ordering::Relaxed)),
            );
        }
        for (k, v) in &g.extra {
            coverage.insert(k.clone(), v.clone());
        }
        let ev = json!({
            "property_id": self.property,
            "tier": self.tier,
            "seed": seed(),
            "level": self.level,
            "coverage": Value::Object(coverage),
            "assumptions": g.assumptions,
            "wall_s": self.start.elapsed().as_secs_f64(),
            "violations": new_violations,
            "known_findings_hit": known_hits,
        });
        let path = format!("{}/evidence/{}.json", VERIF_DIR, self.property);
        let _ = std::fs::create_dir_all(format!("{}/evidence", VERIF_DIR));
        let tmp = format!("{}.tmp{}", path, std::process::id());
        std::fs::write(&tmp, serde_json::to_string_pretty(&ev).unwrap()).expect("write evidence");
        std::fs::rename(&tmp, &path).expect("rename evidence");
        println!(
            "[{}] tier={} evaluations={} distinct={} violations={} known={} exhaustive={} wall={:.1}s",
            self.property,
            self.tier,
            evaluations,
            g.distinct.len(),
            new_violations,
            known_hits,
            g.exhaustive,
            self.start.elapsed().as_secs_f64()
        );
        let _ = std::io::stdout().flush();
        if new_violations > 0 {
            1
        } else {
            0
        }
    }
}

pub fn load_known_findings() -> Vec<Value> {
    let p = format!("{}/known_findings.json", VERIF_DIR);
    match std::fs::read_to_string(&p) {
        Ok(s) => serde_json::from_str::<Value>(&s)
            .ok()
            .and_then(|v| v.get("findings").and_then(|f| f.as_array().cloned()))
            .unwrap_or_default(),
        Err(_) => vec![],
    }
}

/// Finish reports. With `only = Some(id)` just that property's report is finished (its
/// evidence written, its violations printed); otherwise all of them.
pub fn finish_all(reports: &[&Report], only: Option<&str>) -> i32 {
    let mut code = 0;
    for r in reports {
        if only.map(|o| o == r.property).unwrap_or(true) {
            if r.finish() != 0 {
                code = 1;
            }
        }
    }
    code
}

/// Run `f` over `items` on all cores, deterministic result order.
pub fn par_map<T: Sync, R: Send>(items: &[T], f: impl Fn(usize, &T) -> R + Sync) -> Vec<R> {
    use rayon::prelude::*;
    items.par_iter().enumerate().map(|(i, t)| f(i, t)).collect()
}

pub fn catch<R>(f: impl FnOnce() -> R) -> Result<R, String> {
    match std::panic::catch_unwind(std::panic::AssertUnwindSafe(f)) {
        Ok(r) => Ok(r),
        Err(e) => Err(if let Some(s) = e.downcast_ref::<&str>() {
            s.to_string()
        } else if let Some(s) = e.downcast_ref::<String>() {
            s.clone()
        } else {
            "panic".into()
        }),
    }
}

pub fn quiet_panics() {
    if std::env::var("VERIF_LOUD").is_ok() {
        return;
    }
    std::panic::set_hook(Box::new(|_| {}));
}
