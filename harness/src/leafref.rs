//! Reference model of the leaf statement: a flat assignment of every logical free input of
//! the leaf circuit, native re-derivations (written here, over plonky2's native Poseidon2),
//! and the two predicates P (necessary, what C01-C04 state) and Hon (sufficient, C05).
use crate::cx::{f, u, F, P};
use plonky2::hash::poseidon2::Poseidon2Hash;
use plonky2::iop::target::Target;
use plonky2::plonk::config::Hasher;
use wormhole_circuit::circuit::circuit_logic::CircuitTargets;

pub const ASSET: usize = 0;
pub const OUT1: usize = 1;
pub const OUT2: usize = 2;
pub const FEE: usize = 3;
pub const NULL: usize = 4;
pub const EXIT1: usize = 8;
pub const EXIT2: usize = 12;
pub const BH: usize = 16;
pub const BN: usize = 20;
pub const SECN: usize = 21;
pub const SECA: usize = 25;
pub const TCN: usize = 29;
pub const TCL: usize = 31;
pub const ACC: usize = 33;
pub const TO: usize = 37;
pub const INPUT: usize = 41;
pub const ROOT: usize = 42;
pub const DEPTH: usize = 46;
pub const POS: usize = 47; // 16
pub const SIB: usize = 63; // 16*3*4
pub const PARENT: usize = 255;
pub const STATE: usize = 259;
pub const EXTR: usize = 263;
pub const ZKROOT: usize = 267;
pub const DIGEST: usize = 271; // 28
pub const IND: usize = 299; // is_not_dummy, UNSET = not supplied
pub const LEN: usize = 300;
pub const UNSET: u64 = u64::MAX;

pub fn h(x: &[u64]) -> [u64; 4] {
    let v: Vec<F> = x.iter().map(|&a| f(a)).collect();
    let o = Poseidon2Hash::hash_no_pad(&v).elements;
    [u(o[0]), u(o[1]), u(o[2]), u(o[3])]
}
fn salt(s: &str) -> Vec<u64> {
    zk_circuits_common::utils::string_to_felts(s).unwrap().into_iter().map(u).collect()
}
pub fn nullifier_of(secret: &[u64], tc: &[u64]) -> [u64; 4] {
    let mut pre = salt("~nullif~");
    pre.extend_from_slice(secret);
    pre.extend_from_slice(tc);
    h(&h(&pre))
}
pub fn account_of(secret: &[u64]) -> [u64; 4] {
    let mut pre = salt("wormhole");
    pre.extend_from_slice(secret);
    h(&h(&pre))
}
pub fn dummy_nullifier_of(pre: &[u64]) -> [u64; 4] {
    h(&h(pre))
}

#[derive(Clone, Debug, PartialEq, Eq, Hash)]
pub struct LeafA {
    pub v: Vec<u64>,
}

impl LeafA {
    pub fn zero() -> Self {
        let mut v = vec![0u64; LEN];
        v[IND] = UNSET;
        Self { v }
    }
    pub fn d4(&self, off: usize) -> [u64; 4] {
        [self.v[off], self.v[off + 1], self.v[off + 2], self.v[off + 3]]
    }
    pub fn set4(&mut self, off: usize, d: [u64; 4]) {
        self.v[off..off + 4].copy_from_slice(&d);
    }
    pub fn sib(&self, level: usize, s: usize) -> [u64; 4] {
        self.d4(SIB + (level * 3 + s) * 4)
    }
    pub fn leaf_hash(&self) -> [u64; 4] {
        let mut pre = self.v[TO..TO + 4].to_vec();
        pre.extend_from_slice(&self.v[TCL..TCL + 2]);
        pre.push(self.v[ASSET]);
        pre.push(self.v[INPUT]);
        h(&pre)
    }
    /// Fold the path: at each active level insert the running hash at `position` among the
    /// three siblings. An out-of-range position (candidate generation only) omits the running
    /// hash and repeats the last sibling, mirroring what unconstrained selects would compute.
    pub fn fold(&self) -> [u64; 4] {
        let mut cur = self.leaf_hash();
        let depth = self.v[DEPTH].min(16) as usize;
        for l in 0..depth {
            let s = [self.sib(l, 0), self.sib(l, 1), self.sib(l, 2)];
            let pos = self.v[POS + l];
            let ch: [[u64; 4]; 4] = match pos {
                0 => [cur, s[0], s[1], s[2]],
                1 => [s[0], cur, s[1], s[2]],
                2 => [s[0], s[1], cur, s[2]],
                3 => [s[0], s[1], s[2], cur],
                _ => [s[0], s[1], s[2], s[2]],
            };
            let mut pre = Vec::with_capacity(16);
            for c in &ch {
                pre.extend_from_slice(c);
            }
            cur = h(&pre);
        }
        cur
    }
    pub fn header_hash(&self) -> [u64; 4] {
        let mut pre = self.v[PARENT..PARENT + 4].to_vec();
        pre.push(self.v[BN]);
        pre.extend_from_slice(&self.v[STATE..STATE + 4]);
        pre.extend_from_slice(&self.v[EXTR..EXTR + 4]);
        pre.extend_from_slice(&self.v[ZKROOT..ZKROOT + 4]);
        pre.extend_from_slice(&self.v[DIGEST..DIGEST + 28]);
        h(&pre)
    }
    pub fn is_dummy(&self) -> bool {
        self.d4(BH) == [0; 4] && self.v[OUT1] == 0 && self.v[OUT2] == 0
    }

    /// Re-derive the dependent fields honestly from the (possibly edited) independent ones.
    /// `keep` lists offsets of derived fields that must NOT be recomputed (they were the
    /// edited ones).
    pub fn recompute(&mut self, keep: &[usize]) {
        if !keep.contains(&ACC) {
            let a = account_of(&self.v[SECA..SECA + 4]);
            self.set4(ACC, a);
        }
        if !keep.contains(&TO) {
            let a = self.d4(ACC);
            self.set4(TO, a);
        }
        if !keep.contains(&NULL) {
            let n = nullifier_of(&self.v[SECN..SECN + 4], &self.v[TCN..TCN + 2]);
            self.set4(NULL, n);
        }
        if !keep.contains(&ROOT) {
            let r = self.fold();
            self.set4(ROOT, r);
        }
        if !keep.contains(&ZKROOT) {
            let r = self.d4(ROOT);
            self.set4(ZKROOT, r);
        }
        if !keep.contains(&BH) {
            let b = self.header_hash();
            self.set4(BH, b);
        }
    }

    /// An honest real statement. `seed` varies secrets/siblings; positions as given.
    pub fn real(seed: u64, depth: usize, positions: &[u64], input: u64, fee: u64, out1: u64, out2: u64) -> Self {
        let mut a = Self::zero();
        let g = |k: u64| -> [u64; 4] { h(&[seed, k]) };
        a.v[ASSET] = 0;
        a.v[OUT1] = out1;
        a.v[OUT2] = out2;
        a.v[FEE] = fee;
        a.v[INPUT] = input;
        a.set4(EXIT1, g(1));
        a.set4(EXIT2, g(2));
        a.v[BN] = 1000 + seed;
        a.set4(SECN, g(3));
        a.set4(SECA, g(3));
        a.v[TCN] = 7 + seed;
        a.v[TCN + 1] = 3;
        a.v[TCL] = 7 + seed;
        a.v[TCL + 1] = 3;
        a.v[DEPTH] = depth as u64;
        for l in 0..depth {
            a.v[POS + l] = positions[l];
            for s in 0..3 {
                let d = g(100 + (l * 3 + s) as u64);
                a.set4(SIB + (l * 3 + s) * 4, d);
            }
        }
        a.set4(PARENT, g(4));
        a.set4(STATE, g(5));
        a.set4(EXTR, g(6));
        for i in 0..28 {
            a.v[DIGEST + i] = (g(7 + i as u64 / 4)[i % 4]) & 0xFFFF_FFFF;
        }
        a.recompute(&[]);
        a
    }

    /// Dummy statement: zero block hash, zero outputs; everything else honest-but-unbound.
    pub fn dummy(seed: u64, garbage: bool) -> Self {
        let mut a = Self::real(seed, if garbage { 3 } else { 0 }, &[1, 0, 2], 0, 0, 0, 0);
        a.set4(BH, [0; 4]);
        a.set4(EXIT1, [0; 4]);
        a.set4(EXIT2, [0; 4]);
        if garbage {
            a.set4(NULL, h(&[seed, 999]));
            a.set4(ROOT, h(&[seed, 998]));
            a.set4(ZKROOT, h(&[seed, 997]));
            a.v[BN] = 77;
            a.v[INPUT] = 5;
            a.v[FEE] = 3;
        } else {
            a.v[BN] = 0;
            a.set4(NULL, h(&[seed, 999]));
        }
        a
    }

    pub fn to_inputs(&self, t: &CircuitTargets) -> Vec<(Target, F)> {
        let mut out: Vec<(Target, F)> = Vec::with_capacity(LEN);
        let mut put = |tg: Target, off: usize| out.push((tg, f(self.v[off])));
        let leaf = &t.zk_merkle_proof.leaf;
        put(leaf.asset_id, ASSET);
        put(leaf.output_amount_1, OUT1);
        put(leaf.output_amount_2, OUT2);
        put(leaf.volume_fee_bps, FEE);
        for i in 0..4 {
            put(t.nullifier.hash.elements[i], NULL + i);
            put(t.exit_accounts.exit_account_1.address.elements[i], EXIT1 + i);
            put(t.exit_accounts.exit_account_2.address.elements[i], EXIT2 + i);
            put(t.block_header.block_hash.elements[i], BH + i);
            put(t.nullifier.secret.elements[i], SECN + i);
            put(t.unspendable_account.secret.elements[i], SECA + i);
            put(t.unspendable_account.account_id.elements[i], ACC + i);
            put(leaf.to_account.elements[i], TO + i);
            put(t.zk_merkle_proof.root_hash.elements[i], ROOT + i);
            put(t.block_header.header.parent_hash[i], PARENT + i);
            put(t.block_header.header.state_root[i], STATE + i);
            put(t.block_header.header.extrinsics_root[i], EXTR + i);
            put(t.block_header.header.zk_tree_root[i], ZKROOT + i);
        }
        put(t.block_header.header.block_number, BN);
        for i in 0..2 {
            put(t.nullifier.transfer_count[i], TCN + i);
            put(leaf.transfer_count[i], TCL + i);
        }
        put(leaf.input_amount, INPUT);
        put(t.zk_merkle_proof.depth, DEPTH);
        for l in 0..16 {
            put(t.zk_merkle_proof.positions[l], POS + l);
            for s in 0..3 {
                for e in 0..4 {
                    put(t.zk_merkle_proof.siblings[l][s].elements[e], SIB + (l * 3 + s) * 4 + e);
                }
            }
        }
        for i in 0..28 {
            put(t.block_header.header.digest[i], DIGEST + i);
        }
        if self.v[IND] != UNSET {
            put(t.zk_merkle_proof.is_not_dummy.target, IND);
        }
        out
    }

    /// The 21 public inputs in the documented order.
    pub fn expected_pis(&self) -> Vec<u64> {
        let mut p = vec![self.v[ASSET], self.v[OUT1], self.v[OUT2], self.v[FEE]];
        p.extend_from_slice(&self.v[NULL..NULL + 4]);
        p.extend_from_slice(&self.v[EXIT1..EXIT1 + 4]);
        p.extend_from_slice(&self.v[EXIT2..EXIT2 + 4]);
        p.extend_from_slice(&self.v[BH..BH + 4]);
        p.push(self.v[BN]);
        p
    }

    /// Necessary conditions stated by C01..C04; returns the violated clauses as
    /// (property, clause). Empty == P(A) holds.
    pub fn p_violations(&self) -> Vec<(&'static str, String)> {
        let mut bad: Vec<(&'static str, String)> = Vec::new();
        let v = &self.v;
        let dummy = self.is_dummy();
        let rp = if dummy { "C04" } else { "C01" };
        let two32 = 1u64 << 32;
        for (name, off) in [("asset", ASSET), ("input", INPUT), ("out1", OUT1), ("out2", OUT2), ("block_number", BN), ("tc_lo", TCL), ("tc_hi", TCL + 1)] {
            if v[off] >= two32 {
                bad.push((rp, format!("{name} >= 2^32")));
            }
        }
        if v[FEE] > 10000 {
            bad.push((rp, "fee > 10000".into()));
        }
        if bad.is_empty() {
            let lhs = (v[OUT1] as u128 + v[OUT2] as u128) * 10000;
            let rhs = (v[INPUT] as u128) * (10000 - v[FEE]) as u128;
            if lhs > rhs {
                bad.push((rp, "fee rule (out1+out2)*10000 > in*(10000-fee)".into()));
            }
        }
        // the dummy decision itself
        if v[IND] != UNSET {
            let want = if dummy { 0 } else { 1 };
            if v[IND] != want {
                bad.push(("C04", format!("witnessed is_not_dummy={} but statement dummy={}", v[IND], dummy)));
            }
        }
        if !dummy {
            // a statement that is "half dummy" escaping a binding is C04's concern
            let half = self.d4(BH) == [0; 4] || (v[OUT1] == 0 && v[OUT2] == 0);
            let tag = |p: &'static str| if half { "C04" } else { p };
            if self.d4(SECN) != self.d4(SECA) {
                bad.push((tag("C02"), "nullifier secret != address secret".into()));
            }
            if v[TCN..TCN + 2] != v[TCL..TCL + 2] {
                bad.push((tag("C02"), "nullifier transfer count != leaf transfer count".into()));
            }
            if self.d4(ACC) != self.d4(TO) {
                bad.push((tag("C02"), "address account != leaf recipient".into()));
            }
            if self.d4(ACC) != account_of(&v[SECA..SECA + 4]) {
                bad.push((tag("C02"), "account != H(H(salt||secret))".into()));
            }
            if self.d4(NULL) != nullifier_of(&v[SECN..SECN + 4], &v[TCN..TCN + 2]) {
                bad.push((tag("C02"), "nullifier != H(H(salt||secret||count))".into()));
            }
            if self.d4(BH) != self.header_hash() {
                bad.push((tag("C03"), "block hash != H(header preimage)".into()));
            }
            if self.d4(ZKROOT) != self.d4(ROOT) {
                bad.push((tag("C03"), "header tree root != proven root".into()));
            }
            if v[DEPTH] > 16 {
                bad.push((tag("C03"), "depth > 16".into()));
            } else {
                let d = v[DEPTH] as usize;
                if (0..d).any(|l| v[POS + l] > 3) {
                    bad.push((tag("C03"), "active position > 3".into()));
                } else if self.fold() != self.d4(ROOT) {
                    bad.push((tag("C03"), "path does not reach root".into()));
                }
            }
        }
        bad
    }

    /// Sufficient conditions: everything the honest circuit is documented to require.
    pub fn hon(&self) -> bool {
        let v = &self.v;
        if !self.p_violations().is_empty() {
            return false;
        }
        if v.iter().take(IND).any(|&x| x >= P) {
            return false;
        }
        // unconditional wiring also applies to dummies
        if self.d4(SECN) != self.d4(SECA) || v[TCN..TCN + 2] != v[TCL..TCL + 2] || self.d4(ACC) != self.d4(TO) {
            return false;
        }
        if self.d4(ACC) != account_of(&v[SECA..SECA + 4]) {
            return false;
        }
        if v[DEPTH] > 16 || (0..16).any(|l| v[POS + l] > 3) {
            return false;
        }
        true
    }
}

/// A logical field: a contiguous group of flat offsets that is edited as a unit.
#[derive(Clone, Debug)]
pub struct FieldDef {
    pub name: String,
    pub off: usize,
    pub len: usize,
    pub kind: Kind,
    /// a second copy of the same logical value held by copy-connected targets (edited together)
    pub twin: Option<usize>,
}
#[derive(Clone, Copy, Debug, PartialEq, Eq)]
pub enum Kind {
    Amount,
    Fee,
    Digest,
    TcLimb,
    Depth,
    Pos,
    Felt,
    Flag,
}

pub fn fields() -> Vec<FieldDef> {
    let mut out = Vec::new();
    let mut add = |name: &str, off: usize, len: usize, kind: Kind| out.push(FieldDef { name: name.into(), off, len, kind, twin: None });
    add("asset", ASSET, 1, Kind::Amount);
    add("out1", OUT1, 1, Kind::Amount);
    add("out2", OUT2, 1, Kind::Amount);
    add("fee", FEE, 1, Kind::Fee);
    add("nullifier", NULL, 4, Kind::Digest);
    add("exit1", EXIT1, 4, Kind::Digest);
    add("exit2", EXIT2, 4, Kind::Digest);
    add("block_hash", BH, 4, Kind::Digest);
    add("block_number", BN, 1, Kind::Amount);
    add("secret_n", SECN, 4, Kind::Digest);
    add("secret_a", SECA, 4, Kind::Digest);
    add("tc_n.lo", TCN, 1, Kind::TcLimb);
    add("tc_n.hi", TCN + 1, 1, Kind::TcLimb);
    add("tc_leaf.lo", TCL, 1, Kind::TcLimb);
    add("tc_leaf.hi", TCL + 1, 1, Kind::TcLimb);
    add("account_id", ACC, 4, Kind::Digest);
    add("to_account", TO, 4, Kind::Digest);
    add("input", INPUT, 1, Kind::Amount);
    add("root_hash", ROOT, 4, Kind::Digest);
    add("depth", DEPTH, 1, Kind::Depth);
    for l in 0..16 {
        add(&format!("pos[{l}]"), POS + l, 1, Kind::Pos);
    }
    for l in 0..16 {
        for s in 0..3 {
            add(&format!("sib[{l}][{s}]"), SIB + (l * 3 + s) * 4, 4, Kind::Digest);
        }
    }
    add("parent_hash", PARENT, 4, Kind::Digest);
    add("state_root", STATE, 4, Kind::Digest);
    add("extrinsics_root", EXTR, 4, Kind::Digest);
    add("zk_tree_root", ZKROOT, 4, Kind::Digest);
    for i in 0..28 {
        add(&format!("digest[{i}]"), DIGEST + i, 1, Kind::Felt);
    }
    add("is_not_dummy", IND, 1, Kind::Flag);
    // logical values held twice by copy-connected targets: both copies edited together, so the
    // edit reaches the constraints behind the connection instead of dying as a copy conflict
    out.push(FieldDef { name: "secret(both copies)".into(), off: SECN, len: 4, kind: Kind::Digest, twin: Some(SECA) });
    out.push(FieldDef { name: "tc.lo(both copies)".into(), off: TCN, len: 1, kind: Kind::TcLimb, twin: Some(TCL) });
    out.push(FieldDef { name: "tc.hi(both copies)".into(), off: TCN + 1, len: 1, kind: Kind::TcLimb, twin: Some(TCL + 1) });
    out.push(FieldDef { name: "account(both copies)".into(), off: ACC, len: 4, kind: Kind::Digest, twin: Some(TO) });
    out
}

/// Alternatives for a field given its base value (each alternative = new values for the
/// field's offsets). Simplest first.
pub fn alternatives(fd: &FieldDef, base: &[u64], rich: bool) -> Vec<Vec<u64>> {
    let two32 = 1u64 << 32;
    let mut out: Vec<Vec<u64>> = Vec::new();
    let b = base[0];
    match fd.kind {
        Kind::Amount => {
            let mut c = vec![0, 1, b.wrapping_add(1) % P, two32 - 1, two32, P - 1];
            if b > 0 {
                c.push(b - 1);
            }
            if rich {
                c.extend_from_slice(&[two32 + 1, 1 << 48, P - two32, (1 << 63) + 5, b + two32]);
            }
            for x in c {
                out.push(vec![x]);
            }
        }
        Kind::Fee => {
            let mut c = vec![0, 1, 9999, 10000, 10001, 16383, 16384, two32 - 1, two32, P - 1];
            if rich {
                c.extend_from_slice(&[b + 1, P - 10000, 10000 + two32]);
            }
            for x in c {
                out.push(vec![x]);
            }
        }
        Kind::TcLimb => {
            for x in [0, b + 1, two32 - 1, two32, P - 1] {
                out.push(vec![x]);
            }
        }
        Kind::Depth => {
            let mut c: Vec<u64> = (0..=17).collect();
            c.extend_from_slice(&[31, 32, 33, 63, 64, P - 1]);
            for x in c {
                out.push(vec![x]);
            }
        }
        Kind::Pos => {
            for x in [0, 1, 2, 3, 4, 5, 7, P - 1] {
                out.push(vec![x]);
            }
        }
        Kind::Felt => {
            out.push(vec![(b + 1) % P]);
            if rich {
                out.push(vec![0]);
                out.push(vec![P - 1]);
            }
        }
        Kind::Flag => {
            for x in [UNSET, 0, 1, 2] {
                out.push(vec![x]);
            }
        }
        Kind::Digest => {
            for i in [0usize, 3, 1, 2] {
                let mut d = base.to_vec();
                d[i] = (d[i] + 1) % P;
                out.push(d);
            }
            out.push(vec![0; 4]);
            out.push(h(&[0xA17E, base[0]]).to_vec()); // an unrelated digest
            {
                // same limb sum, different digest (limb 0 + 1, limb 1 - 1)
                let mut d = base.to_vec();
                d[0] = (d[0] + 1) % P;
                d[1] = if d[1] == 0 { P - 1 } else { d[1] - 1 };
                out.push(d);
            }
            if rich {
                out.push(vec![P - 1; 4]);
                let mut d = base.to_vec();
                d.swap(0, 3);
                out.push(d);
            }
        }
    }
    out.retain(|a| a.as_slice() != base);
    out.dedup();
    out
}
