pub mod cx;
pub mod leafref;
pub mod leafx;
pub mod mcx;
pub mod leafnative;
pub mod privx;
pub mod wrapref;
pub mod fixtures;
