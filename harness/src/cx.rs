//! CX — constraint explorer. Runs the *real* circuit's generators in plonky2's own order
//! with optional interception of generator outputs (hint deviations) and then evaluates
//! every gate constraint on every row. ACCEPT == "satisfying assignment of the circuit".
use plonky2::field::goldilocks_field::GoldilocksField;
use plonky2::field::types::{Field, PrimeField64};
use plonky2::hash::hash_types::HashOut;
use plonky2::iop::generator::GeneratedValues;
use plonky2::iop::target::Target;
use plonky2::iop::witness::{PartitionWitness, Witness};
use plonky2::plonk::circuit_data::CircuitData;
use plonky2::plonk::config::{GenericConfig, Hasher, PoseidonGoldilocksConfig};
use plonky2::plonk::vars::EvaluationVarsBaseBatch;

pub type F = GoldilocksField;
pub type C = PoseidonGoldilocksConfig;
pub const D: usize = 2;
pub const P: u64 = 0xFFFF_FFFF_0000_0001;

pub fn f(x: u64) -> F {
    F::from_noncanonical_u64(x)
}
pub fn u(x: F) -> u64 {
    x.to_canonical_u64()
}

#[derive(Clone, Copy, Debug, PartialEq, Eq, Hash)]
pub enum GenClass {
    WireSplit { num_limbs: usize },
    BaseSplit,
    Split,
    LowHigh { n_log: usize },
    Equality,
    Random,
    Other,
}
impl GenClass {
    pub fn is_hint(&self) -> bool {
        matches!(
            self,
            GenClass::WireSplit { .. }
                | GenClass::BaseSplit
                | GenClass::Split
                | GenClass::LowHigh { .. }
                | GenClass::Equality
        )
    }
}

#[derive(Clone, Copy, Debug, PartialEq, Eq, Hash)]
pub struct Dev {
    pub gen: usize,
    pub alt: usize,
}

#[derive(Clone, Debug, PartialEq, Eq)]
pub enum Reject {
    InputConflict(String),
    GeneratorConflict { gen: usize, id: String },
    Blocked { unfinished: usize, first: String },
    Gate { row: usize, constraint: usize },
    DeviationNotApplicable,
    Panic(String),
}

#[derive(Clone, Debug, PartialEq, Eq)]
pub enum Verdict {
    Accept { pis: Vec<u64>, probes: Vec<u64> },
    Reject(Reject),
}
impl Verdict {
    pub fn accepted(&self) -> bool {
        matches!(self, Verdict::Accept { .. })
    }
    pub fn short(&self) -> String {
        match self {
            Verdict::Accept { .. } => "ACCEPT".into(),
            Verdict::Reject(r) => match r {
                Reject::InputConflict(_) => "REJECT(input-conflict)".into(),
                Reject::GeneratorConflict { id, .. } => format!("REJECT(copy-conflict@{id})"),
                Reject::Blocked { .. } => "REJECT(blocked)".into(),
                Reject::Gate { row, .. } => format!("REJECT(gate@row{row})"),
                Reject::DeviationNotApplicable => "N/A".into(),
                Reject::Panic(s) => format!("REJECT(panic:{s})"),
            },
        }
    }
}

#[derive(Clone, Copy, PartialEq, Eq, Debug)]
pub enum MenuMode {
    /// only generators whose output is not pinned by their own gate (decompositions, equality)
    Hints,
    /// every generator (generic +1 / 0 menu on the others)
    All,
}

pub struct RunOut {
    pub verdict: Verdict,
    /// menu size per generator (0 = never ran / no alternatives), only when requested
    pub menus: Vec<u16>,
}

pub struct Cx<'a> {
    pub data: &'a CircuitData<F, C, D>,
    consts: Vec<F>, // [const][row]
    pub classes: Vec<GenClass>,
    pub ids: Vec<String>,
    pub mode: MenuMode,
}

fn parse_usize_after(s: &str, key: &str) -> Option<usize> {
    let i = s.find(key)? + key.len();
    let rest = &s[i..];
    let digits: String = rest.chars().skip_while(|c| *c == ' ').take_while(|c| c.is_ascii_digit()).collect();
    digits.parse().ok()
}

impl<'a> Cx<'a> {
    pub fn new(data: &'a CircuitData<F, C, D>) -> Self {
        assert!(data.common.luts.is_empty(), "CX does not model lookup tables");
        let degree = data.common.degree();
        let nc = data.common.num_constants;
        let mut consts = Vec::with_capacity(nc * degree);
        for i in 0..nc {
            let vals = data.prover_only.constants_sigmas_commitment.polynomials[i].clone().fft();
            assert_eq!(vals.values.len(), degree);
            consts.extend_from_slice(&vals.values);
        }
        let mut classes = Vec::new();
        let mut ids = Vec::new();
        for g in &data.prover_only.generators {
            let id = g.0.id();
            let class = if id == "WireSplitGenerator" {
                let dbg = format!("{:?}", g.0);
                GenClass::WireSplit { num_limbs: parse_usize_after(&dbg, "num_limbs:").unwrap_or(63) }
            } else if id.starts_with("BaseSplitGenerator") {
                GenClass::BaseSplit
            } else if id == "SplitGenerator" {
                GenClass::Split
            } else if id == "LowHighGenerator" {
                let dbg = format!("{:?}", g.0);
                GenClass::LowHigh { n_log: parse_usize_after(&dbg, "n_log:").expect("n_log in Debug") }
            } else if id == "EqualityGenerator" {
                GenClass::Equality
            } else if id == "RandomValueGenerator" {
                GenClass::Random
            } else {
                GenClass::Other
            };
            classes.push(class);
            ids.push(id);
        }
        Self { data, consts, classes, ids, mode: MenuMode::Hints }
    }

    pub fn class_census(&self) -> std::collections::BTreeMap<String, usize> {
        let mut m = std::collections::BTreeMap::new();
        for id in &self.ids {
            *m.entry(id.clone()).or_insert(0) += 1;
        }
        m
    }

    /// Alternative answers for generator `g` given its honest answer.
    pub fn menu(&self, g: usize, honest: &[(Target, F)]) -> Vec<Vec<F>> {
        let vals: Vec<u64> = honest.iter().map(|x| u(x.1)).collect();
        let mut out: Vec<Vec<u64>> = Vec::new();
        let n = vals.len();
        if n == 0 {
            return vec![];
        }
        match self.classes[g] {
            GenClass::Random => {}
            GenClass::WireSplit { num_limbs } => {
                let l = num_limbs.min(63);
                let mut x: u128 = 0;
                for (i, v) in vals.iter().enumerate() {
                    if i * l < 128 {
                        x += (*v as u128) << (i * l);
                    }
                }
                for k in 1..=2u128 {
                    let y = x + k * (P as u128);
                    if n * l >= 128 || y < (1u128 << (n * l)) {
                        let mask = (1u128 << l) - 1;
                        let mut alt = Vec::with_capacity(n);
                        let mut yy = y;
                        for _ in 0..n {
                            alt.push((yy & mask) as u64);
                            yy >>= l;
                        }
                        if yy == 0 {
                            out.push(alt);
                        }
                    }
                }
                let mut a = vals.clone();
                a[0] = a[0].wrapping_add(1) % P;
                out.push(a);
                let mut a = vals.clone();
                a[n - 1] = a[n - 1].wrapping_add(1) % P;
                out.push(a);
                out.push(vec![0; n]);
                if n >= 2 {
                    // borrow one unit of the upper chunk into the lower one (same weighted sum)
                    if vals[1] > 0 && l < 63 {
                        let mut a = vals.clone();
                        a[1] -= 1;
                        a[0] += 1u64 << l;
                        out.push(a);
                    }
                }
            }
            GenClass::BaseSplit | GenClass::Split => {
                for &i in &[0usize, n - 1, 31.min(n - 1), 32.min(n - 1)] {
                    let mut a = vals.clone();
                    a[i] = if a[i] == 0 { 1 } else { 0 };
                    out.push(a);
                }
                // highest set bit cleared + bit above set / lowest zero bit set
                if let Some(i) = (0..n).rev().find(|&i| vals[i] != 0) {
                    let mut a = vals.clone();
                    a[i] = 0;
                    out.push(a);
                    if i + 1 < n {
                        let mut a = vals.clone();
                        a[i + 1] = 1;
                        out.push(a);
                    }
                }
                out.push(vec![0; n]);
                out.push(vec![1; n]);
                let mut a = vals.clone();
                a[0] = 2;
                out.push(a);
            }
            GenClass::LowHigh { n_log } => {
                if n == 2 {
                    let (low, high) = (vals[0], vals[1]);
                    let x: u128 = (low as u128) + ((high as u128) << n_log);
                    let mask = (1u128 << n_log) - 1;
                    for k in 1..=2u128 {
                        let y = x + k * (P as u128);
                        let h = y >> n_log;
                        if h < (P as u128) {
                            out.push(vec![(y & mask) as u64, h as u64]);
                        }
                    }
                    out.push(vec![(low + 1) % P, high]);
                    out.push(vec![low, (high + 1) % P]);
                    if low > 0 {
                        out.push(vec![low - 1, high]);
                    }
                    if high > 0 && n_log < 63 {
                        out.push(vec![low + (1u64 << n_log), high - 1]);
                    }
                    // same field sum with a "negative" low: low - 2^n_log (mod p), high + 1
                    if n_log < 63 {
                        let lo = ((low as u128 + P as u128 - (1u128 << n_log)) % (P as u128)) as u64;
                        out.push(vec![lo, (high + 1) % P]);
                    }
                    out.push(vec![0, 0]);
                    out.push(vec![high, low]);
                }
            }
            GenClass::Equality => {
                if n == 2 {
                    let (e, inv) = (vals[0], vals[1]);
                    // output order of plonky2's EqualityGenerator: (equal, inv)
                    let flip = if e == 0 { 1 } else { 0 };
                    out.push(vec![flip, inv]);
                    out.push(vec![e, 0]);
                    out.push(vec![flip, 0]);
                    out.push(vec![e, (inv + 1) % P]);
                    out.push(vec![flip, (inv + 1) % P]);
                    out.push(vec![2, inv]);
                    out.push(vec![flip, 1]);
                }
            }
            GenClass::Other => {
                if self.mode == MenuMode::All {
                    for i in 0..n {
                        let mut a = vals.clone();
                        a[i] = (a[i] + 1) % P;
                        out.push(a);
                        if vals[i] != 0 {
                            let mut a = vals.clone();
                            a[i] = 0;
                            out.push(a);
                        }
                    }
                }
            }
        }
        if !self.classes[g].is_hint() && self.mode == MenuMode::Hints {
            return vec![];
        }
        out.retain(|a| a != &vals);
        out.dedup();
        out.into_iter().map(|a| a.into_iter().map(f).collect()).collect()
    }

    /// One execution.
    pub fn run(&self, inputs: &[(Target, F)], devs: &[Dev], probes: &[Target], want_menus: bool) -> RunOut {
        let r = std::panic::catch_unwind(std::panic::AssertUnwindSafe(|| {
            self.run_inner(inputs, devs, probes, want_menus, false).0
        }));
        match r {
            Ok(o) => o,
            Err(e) => {
                let s = if let Some(s) = e.downcast_ref::<&str>() {
                    s.to_string()
                } else if let Some(s) = e.downcast_ref::<String>() {
                    s.clone()
                } else {
                    "panic".into()
                };
                RunOut { verdict: Verdict::Reject(Reject::Panic(s)), menus: vec![] }
            }
        }
    }

    /// Same as `run`, and on ACCEPT hands back the full partition witness so that a real
    /// proof can be produced from the adversarial assignment.
    pub fn run_keep_witness(
        &self,
        inputs: &[(Target, F)],
        devs: &[Dev],
        probes: &[Target],
    ) -> (RunOut, Option<PartitionWitness<'a, F>>) {
        self.run_inner(inputs, devs, probes, false, true)
    }

    fn run_inner(
        &self,
        inputs: &[(Target, F)],
        devs: &[Dev],
        probes: &[Target],
        want_menus: bool,
        keep: bool,
    ) -> (RunOut, Option<PartitionWitness<'a, F>>) {
        let common = &self.data.common;
        let po = &self.data.prover_only;
        let degree = common.degree();
        let num_wires = common.config.num_wires;
        let generators = &po.generators;
        let mut menus: Vec<u16> = if want_menus { vec![0; generators.len()] } else { vec![] };
        let mut w = PartitionWitness::new(num_wires, degree, &po.representative_map);
        for (t, v) in inputs {
            if let Err(e) = w.set_target_returning_rep(*t, *v) {
                return (
                    RunOut { verdict: Verdict::Reject(Reject::InputConflict(format!("{e}"))), menus },
                    None,
                );
            }
        }
        let mut pending: Vec<usize> = (0..generators.len()).collect();
        let mut expired = vec![false; generators.len()];
        let mut remaining = generators.len();
        let mut buffer = GeneratedValues::<F>::empty();
        let mut dev_used = vec![false; devs.len()];
        while !pending.is_empty() {
            let mut next = Vec::new();
            for &gi in &pending {
                if expired[gi] {
                    continue;
                }
                let finished = generators[gi].0.run(&w, &mut buffer);
                if finished {
                    expired[gi] = true;
                    remaining -= 1;
                }
                if !buffer.target_values.is_empty() {
                    if self.classes[gi] == GenClass::Random {
                        for tv in buffer.target_values.iter_mut() {
                            tv.1 = F::ZERO;
                        }
                    } else {
                        let dev_here = devs.iter().position(|d| d.gen == gi);
                        if want_menus || dev_here.is_some() {
                            let menu = self.menu(gi, &buffer.target_values);
                            if want_menus {
                                menus[gi] = menu.len().min(u16::MAX as usize) as u16;
                            }
                            if let Some(di) = dev_here {
                                let alt = devs[di].alt;
                                if alt >= menu.len() {
                                    return (
                                        RunOut { verdict: Verdict::Reject(Reject::DeviationNotApplicable), menus },
                                        None,
                                    );
                                }
                                dev_used[di] = true;
                                for (k, tv) in buffer.target_values.iter_mut().enumerate() {
                                    tv.1 = menu[alt][k];
                                }
                            }
                        }
                    }
                }
                let mut new_reps = Vec::with_capacity(buffer.target_values.len());
                for (t, v) in buffer.target_values.drain(..) {
                    match w.set_target_returning_rep(t, v) {
                        Ok(r) => new_reps.extend(r),
                        Err(_) => {
                            return (
                                RunOut {
                                    verdict: Verdict::Reject(Reject::GeneratorConflict {
                                        gen: gi,
                                        id: self.ids[gi].clone(),
                                    }),
                                    menus,
                                },
                                None,
                            );
                        }
                    }
                }
                for watch in new_reps {
                    if let Some(ws) = po.generator_indices_by_watches.get(&watch) {
                        for &wg in ws {
                            if !expired[wg] {
                                next.push(wg);
                            }
                        }
                    }
                }
            }
            pending = next;
        }
        if dev_used.iter().any(|u| !u) {
            return (RunOut { verdict: Verdict::Reject(Reject::DeviationNotApplicable), menus }, None);
        }
        if remaining != 0 {
            let first = (0..generators.len())
                .find(|&i| !expired[i])
                .map(|i| {
                    let missing: Vec<String> = generators[i]
                        .0
                        .watch_list()
                        .into_iter()
                        .filter(|t| w.try_get_target(*t).is_none())
                        .map(|t| format!("{t:?}"))
                        .collect();
                    format!("{} waits for {}", self.ids[i], missing.join(","))
                })
                .unwrap_or_default();
            return (
                RunOut { verdict: Verdict::Reject(Reject::Blocked { unfinished: remaining, first }), menus },
                None,
            );
        }
        // ---- all gate constraints on all rows ----
        let pis: Vec<F> = po.public_inputs.iter().map(|t| w.try_get_target(*t).unwrap_or(F::ZERO)).collect();
        let pi_hash: HashOut<F> = <<C as GenericConfig<D>>::InnerHasher as Hasher<F>>::hash_no_pad(&pis);
        let mut wires = vec![F::ZERO; num_wires * degree];
        let rep = &po.representative_map;
        for row in 0..degree {
            let base = row * num_wires;
            for col in 0..num_wires {
                if let Some(x) = w.values[rep[base + col]] {
                    wires[col * degree + row] = x;
                }
            }
        }
        let num_selectors = common.selectors_info.num_selectors();
        let chunk = degree.min(4096);
        // evaluate in row chunks to bound memory on the 2^15-row recursive circuits
        let mut off = 0;
        while off < degree {
            let len = chunk.min(degree - off);
            let (cs, ws): (Vec<F>, Vec<F>) = if len == degree {
                (Vec::new(), Vec::new())
            } else {
                let nc = common.num_constants;
                let mut cs = Vec::with_capacity(nc * len);
                for c in 0..nc {
                    cs.extend_from_slice(&self.consts[c * degree + off..c * degree + off + len]);
                }
                let mut ws = Vec::with_capacity(num_wires * len);
                for c in 0..num_wires {
                    ws.extend_from_slice(&wires[c * degree + off..c * degree + off + len]);
                }
                (cs, ws)
            };
            let (cref, wref): (&[F], &[F]) = if len == degree { (&self.consts, &wires) } else { (&cs, &ws) };
            let vars = EvaluationVarsBaseBatch::new(len, cref, wref, &pi_hash);
            for (i, gate) in common.gates.iter().enumerate() {
                let sel = common.selectors_info.selector_indices[i];
                let res = gate.0.eval_filtered_base_batch(
                    vars,
                    i,
                    sel,
                    common.selectors_info.groups[sel].clone(),
                    num_selectors,
                    common.num_lookup_selectors,
                );
                if let Some(pos) = res.iter().position(|x| !x.is_zero()) {
                    return (
                        RunOut {
                            verdict: Verdict::Reject(Reject::Gate { row: off + pos % len, constraint: pos / len }),
                            menus,
                        },
                        None,
                    );
                }
            }
            off += len;
        }
        let probes_v: Vec<u64> = probes.iter().map(|t| w.try_get_target(*t).map(u).unwrap_or(u64::MAX)).collect();
        let out = RunOut { verdict: Verdict::Accept { pis: pis.iter().map(|x| u(*x)).collect(), probes: probes_v }, menus };
        (out, if keep { Some(w) } else { None })
    }

    /// All single deviations available on this input (from an honest run's menus).
    pub fn single_devs(&self, inputs: &[(Target, F)]) -> (RunOut, Vec<Dev>) {
        let honest = self.run(inputs, &[], &[], true);
        let mut devs = Vec::new();
        for (g, &m) in honest.menus.iter().enumerate() {
            for a in 0..m as usize {
                devs.push(Dev { gen: g, alt: a });
            }
        }
        (honest, devs)
    }

    /// Enumerate every deviation script with at most `dmax` deviated generators (menus are
    /// taken from the run that precedes the last deviation, i.e. they are the alternatives
    /// available in that state). Calls `visit(script, verdict)` for the honest run and for
    /// every deviated run. Returns the number of executions.
    pub fn explore_devs(
        &self,
        inputs: &[(Target, F)],
        probes: &[Target],
        dmax: usize,
        visit: &mut dyn FnMut(&[Dev], &Verdict),
    ) -> u64 {
        let mut n = 0u64;
        let mut stack: Vec<Vec<Dev>> = vec![vec![]];
        while let Some(script) = stack.pop() {
            let out = self.run(inputs, &script, probes, script.len() < dmax);
            if matches!(out.verdict, Verdict::Reject(Reject::DeviationNotApplicable)) {
                continue;
            }
            n += 1;
            visit(&script, &out.verdict);
            if script.len() < dmax {
                let start = script.last().map(|d| d.gen + 1).unwrap_or(0);
                for g in start..out.menus.len() {
                    for a in 0..out.menus[g] as usize {
                        let mut s2 = script.clone();
                        s2.push(Dev { gen: g, alt: a });
                        stack.push(s2);
                    }
                }
            }
        }
        n
    }

    /// Replay an accepted (possibly adversarial) assignment through the real prover and
    /// the real verifier. Returns Ok(true) if a proof was produced and verified.
    pub fn prove_and_verify(&self, inputs: &[(Target, F)], devs: &[Dev]) -> anyhow::Result<bool> {
        let (out, w) = self.run_keep_witness(inputs, devs, &[]);
        if !out.verdict.accepted() {
            return Ok(false);
        }
        let w = w.unwrap();
        let mut timing = plonky2::util::timing::TimingTree::default();
        let proof = plonky2::plonk::prover::prove_with_partition_witness(
            &self.data.prover_only,
            &self.data.common,
            w,
            &mut timing,
        )?;
        self.data.verify(proof)?;
        Ok(true)
    }

    /// Targets no generator produced and the caller did not set: the prover's remaining
    /// degrees of freedom as seen from one run with only `inputs` set.
    pub fn blocked_generators(&self, inputs: &[(Target, F)]) -> Vec<String> {
        match self.run(inputs, &[], &[], false).verdict {
            Verdict::Reject(Reject::Blocked { unfinished, first }) => vec![format!("{unfinished} unfinished; {first}")],
            _ => vec![],
        }
    }
}
