//! Leaf-circuit exploration (C01..C04 soundness, C05 completeness half): bounded distance
//! balls around honest base points, a dedicated fee-rule product, and hint deviations, all
//! run through CX on the circuit `WormholeCircuit::new` builds.
use crate::cx::{Cx, Dev, MenuMode, Verdict};
use crate::leafref::*;
use crate::mcx::{edits_within_distance, hash64, Report};
use plonky2::plonk::circuit_data::CircuitData;
use rayon::prelude::*;
use serde_json::{json, Value};
use std::sync::atomic::{AtomicU64, Ordering};
use wormhole_circuit::circuit::circuit_logic::{CircuitTargets, WormholeCircuit};

pub struct LeafCtx {
    pub data: CircuitData<crate::cx::F, crate::cx::C, 2>,
    pub targets: CircuitTargets,
}
impl LeafCtx {
    pub fn new() -> Self {
        let c = WormholeCircuit::new(zk_circuits_common::circuit::wormhole_leaf_circuit_config())
            .expect("canonical leaf config");
        let targets = c.targets();
        let data = c.build_circuit();
        Self { data, targets }
    }
}

#[derive(Clone, Debug)]
pub struct Case {
    pub base: usize,
    pub edits: Vec<(usize, usize)>, // (field index, alternative index)
    pub coherent: bool,
    pub label: String,
    pub a: LeafA,
}

pub fn base_points() -> Vec<(String, LeafA)> {
    let mut pos16 = vec![0u64; 16];
    for (i, p) in pos16.iter_mut().enumerate() {
        *p = (i % 4) as u64;
    }
    vec![
        ("R0".into(), LeafA::real(1, 0, &[], 1_000_000, 10, 600_000, 399_000)),
        ("R2".into(), LeafA::real(2, 2, &[1, 3], 50_000, 100, 40_000, 9_500)),
        ("R16".into(), LeafA::real(3, 16, &pos16, 777, 0, 700, 77)),
        ("Rmax".into(), LeafA::real(4, 1, &[2], u32::MAX as u64, 0, 1 << 31, (1 << 31) - 1)),
        ("Rfee".into(), LeafA::real(5, 3, &[0, 0, 3], 123_456, 10000, 0, 0)),
        ("D".into(), LeafA::dummy(6, false)),
        ("Dg".into(), LeafA::dummy(7, true)),
    ]
}

fn derived_offsets() -> [usize; 6] {
    [ACC, TO, NULL, ROOT, ZKROOT, BH]
}

fn apply(base: &LeafA, fds: &[FieldDef], alts: &[Vec<Vec<u64>>], edits: &[(usize, usize)], coherent: bool) -> LeafA {
    let mut a = base.clone();
    let mut keep: Vec<usize> = Vec::new();
    for &(fi, ai) in edits {
        let fd = &fds[fi];
        let val = &alts[fi][ai];
        for k in 0..fd.len {
            a.v[fd.off + k] = val[k];
            if let Some(t) = fd.twin {
                a.v[t + k] = val[k];
            }
        }
        if derived_offsets().contains(&fd.off) {
            keep.push(fd.off);
        }
        if let Some(t) = fd.twin {
            if derived_offsets().contains(&t) {
                keep.push(t);
            }
        }
    }
    if coherent {
        let was_dummy_bh = base.d4(BH) == [0; 4];
        // a dummy base keeps its zero block hash unless the edit is on the block hash itself
        if was_dummy_bh && !keep.contains(&BH) {
            keep.push(BH);
        }
        a.recompute(&keep);
    }
    a
}

pub struct Tally {
    pub execs: AtomicU64,
    pub edges: AtomicU64,
    pub accepts: AtomicU64,
    pub rejects: AtomicU64,
    pub undetermined: AtomicU64,
}

fn case_json(c: &Case, fds: &[FieldDef]) -> Value {
    json!({
        "base": c.label,
        "mode": if c.coherent {"coherent (dependent fields re-derived)"} else {"raw"},
        "edits": c.edits.iter().map(|(fi, ai)| format!("{}#alt{}", fds[*fi].name, ai)).collect::<Vec<_>>(),
    })
}

fn full_case_json(c: &Case, fds: &[FieldDef], devs: &[Dev], cx: &Cx) -> Value {
    let mut named = serde_json::Map::new();
    for fd in fds {
        named.insert(fd.name.clone(), json!(c.a.v[fd.off..fd.off + fd.len].to_vec()));
    }
    json!({
        "engine": "CX/leaf",
        "case": case_json(c, fds),
        "assignment": named,
        "deviations": devs.iter().map(|d| json!({"gen": d.gen, "id": cx.ids[d.gen], "alt": d.alt})).collect::<Vec<_>>(),
    })
}

/// Evaluate one assignment (honest hints) against the oracle. Returns the honest verdict.
#[allow(clippy::too_many_arguments)]
fn judge(
    cx: &Cx,
    ctx: &LeafCtx,
    c: &Case,
    devs: &[Dev],
    fds: &[FieldDef],
    reps: &[&Report; 5],
    tally: &Tally,
) -> Verdict {
    let inputs = c.a.to_inputs(&ctx.targets);
    let out = cx.run(&inputs, devs, &[], false);
    if matches!(out.verdict, Verdict::Reject(crate::cx::Reject::DeviationNotApplicable)) {
        return out.verdict;
    }
    tally.execs.fetch_add(1, Ordering::Relaxed);
    tally.edges.fetch_add((c.edits.len() + devs.len()) as u64, Ordering::Relaxed);
    let pv = c.a.p_violations();
    match &out.verdict {
        Verdict::Accept { pis, .. } => {
            tally.accepts.fetch_add(1, Ordering::Relaxed);
            if !pv.is_empty() {
                // replay through the real prover + verifier to make the counterexample concrete
                let proved = cx.prove_and_verify(&inputs, devs).unwrap_or(false);
                let mut props: Vec<&str> = pv.iter().map(|x| x.0).collect();
                props.dedup();
                for p in props {
                    let idx = ["C01", "C02", "C03", "C04", "C05"].iter().position(|x| *x == p).unwrap();
                    let clauses: Vec<String> = pv.iter().filter(|x| x.0 == p).map(|x| x.1.clone()).collect();
                    let key = format!("leaf:{}:{}:{:?}:{}:{:?}", c.label, c.coherent, c.edits, clauses.join("|"), devs);
                    let mut cj = full_case_json(c, fds, devs, cx);
                    cj["violated_clauses"] = json!(clauses);
                    cj["real_proof_verified"] = json!(proved);
                    reps[idx].violation(
                        &key,
                        &format!("leaf circuit ACCEPTS a statement with: {} (real proof verifies: {})", clauses.join("; "), proved),
                        cj,
                    );
                }
            }
            if pis != &c.a.expected_pis() {
                let key = format!("leaf-pi-order:{}:{:?}", c.label, c.edits);
                reps[4].violation(&key, "accepted leaf run exposes public inputs different from the documented order", full_case_json(c, fds, devs, cx));
            }
        }
        Verdict::Reject(r) => {
            tally.rejects.fetch_add(1, Ordering::Relaxed);
            if devs.is_empty() && c.a.hon() {
                let key = format!("leaf-complete:{}:{}:{:?}", c.label, c.coherent, c.edits);
                let mut cj = full_case_json(c, fds, devs, cx);
                cj["reject"] = json!(format!("{r:?}"));
                reps[4].violation(&key, &format!("honest well-formed leaf input is REJECTED by the circuit: {r:?}"), cj);
            }
            if devs.is_empty() && pv.is_empty() && !c.a.hon() {
                tally.undetermined.fetch_add(1, Ordering::Relaxed);
            }
        }
    }
    out.verdict
}

/// Run the exploration. `reps` = reports for C01..C05 in that order.
pub fn explore(ctx: &LeafCtx, tier: &str, reps: &[&Report; 5]) {
    let thorough = tier == "thorough";
    let mut cx = Cx::new(&ctx.data);
    cx.mode = MenuMode::Hints;
    let fds = fields();
    let bases = base_points();
    let tally = Tally {
        execs: AtomicU64::new(0),
        edges: AtomicU64::new(0),
        accepts: AtomicU64::new(0),
        rejects: AtomicU64::new(0),
        undetermined: AtomicU64::new(0),
    };

    // ---- machinery self-checks: bases are honest and accepted, replay is deterministic ----
    for (name, a) in &bases {
        assert!(a.hon(), "base {name} must satisfy Hon");
        let i = a.to_inputs(&ctx.targets);
        let v1 = cx.run(&i, &[], &[], false).verdict;
        let v2 = cx.run(&i, &[], &[], false).verdict;
        if v1 != v2 {
            crate::mcx::machinery_error("leaf: same execution replayed twice gave different observations");
        }
        match v1 {
            Verdict::Accept { pis, .. } => {
                if pis != a.expected_pis() {
                    reps[4].violation(&format!("leaf-base-pis:{name}"), "base point public inputs differ from the documented order", json!({"base": name}));
                }
            }
            Verdict::Reject(r) => {
                reps[4].violation(
                    &format!("leaf-base-reject:{name}"),
                    &format!("honest base statement {name} is rejected by the leaf circuit: {r:?}"),
                    json!({"base": name}),
                );
            }
        }
    }

    // ---- distance balls ----
    let k = if thorough { 2 } else { 1 };
    let mut all_cases: Vec<Case> = Vec::new();
    let mut per_base_alts: Vec<Vec<Vec<Vec<u64>>>> = Vec::new();
    for (bi, (name, base)) in bases.iter().enumerate() {
        let alts: Vec<Vec<Vec<u64>>> =
            fds.iter().map(|fd| alternatives(fd, &base.v[fd.off..fd.off + fd.len], thorough)).collect();
        // fields eligible for pairs (k=2): everything except siblings/positions of levels the
        // base does not use beyond the first inactive one, and digest-log felts other than 3
        let depth = base.v[DEPTH] as usize;
        let eligible2: Vec<bool> = fds
            .iter()
            .map(|fd| {
                if fd.name.starts_with("sib[") || fd.name.starts_with("pos[") {
                    let l: usize = fd.name[4..fd.name.find(']').unwrap()].parse().unwrap();
                    l <= depth.min(15) && (l + 2 >= depth || l == 0)
                } else if fd.name.starts_with("digest[") {
                    fd.name == "digest[0]" || fd.name == "digest[27]"
                } else {
                    true
                }
            })
            .collect();
        let sizes: Vec<usize> = alts.iter().map(|a| a.len()).collect();
        let edits1 = edits_within_distance(&sizes, 1);
        for e in &edits1 {
            for coherent in [false, true] {
                if e.is_empty() && coherent {
                    continue;
                }
                let a = apply(base, &fds, &alts, e, coherent);
                all_cases.push(Case { base: bi, edits: e.clone(), coherent, label: name.clone(), a });
            }
        }
        if k == 2 {
            let sizes2: Vec<usize> = sizes.iter().zip(&eligible2).map(|(s, ok)| if *ok { (*s).min(6) } else { 0 }).collect();
            for e in edits_within_distance(&sizes2, 2) {
                if e.len() != 2 {
                    continue;
                }
                for coherent in [false, true] {
                    let a = apply(base, &fds, &alts, &e, coherent);
                    all_cases.push(Case { base: bi, edits: e.clone(), coherent, label: name.clone(), a });
                }
            }
        }
        per_base_alts.push(alts);
    }

    // ---- dedicated fee-rule product (always coherent: input is part of the leaf hash) ----
    {
        let two32 = 1u64 << 32;
        let ins: Vec<u64> = vec![0, 1, 9, 10, 10_000, 65_537, two32 - 1, two32, crate::cx::P - 1];
        let fees: Vec<u64> = vec![0, 1, 9_999, 10_000, 10_001, 16_383, 16_384, two32 - 1];
        let base = &bases[1].1; // R2
        let fi = |n: &str| fds.iter().position(|f| f.name == n).unwrap();
        let _ = fi;
        for &inp in &ins {
            for &fee in &fees {
                // outputs around the boundary floor(in*(10000-fee)/10000)
                let mut sums: Vec<u64> = vec![0, 1];
                if inp < two32 && fee <= 10000 {
                    let b = ((inp as u128) * (10000 - fee) as u128 / 10000) as u64;
                    sums.extend_from_slice(&[b.saturating_sub(1), b, b + 1, b + 2]);
                }
                sums.extend_from_slice(&[inp, inp.wrapping_add(1) % crate::cx::P, two32 - 1, two32]);
                sums.sort();
                sums.dedup();
                for &s in &sums {
                    let mut splits: Vec<(u64, u64)> = vec![(s, 0), (0, s)];
                    if s >= 2 {
                        splits.push((s / 2, s - s / 2));
                    }
                    // wrapped pairs: out1 = p - k, out2 = s + k (field sum == s)
                    if thorough || s < 4 {
                        for kk in [1u64, 10_000] {
                            splits.push((crate::cx::P - kk, (s + kk) % crate::cx::P));
                        }
                    }
                    for (o1, o2) in splits {
                        let mut a = base.clone();
                        a.v[INPUT] = inp;
                        a.v[FEE] = fee;
                        a.v[OUT1] = o1;
                        a.v[OUT2] = o2;
                        a.recompute(&[]);
                        all_cases.push(Case {
                            base: 1,
                            edits: vec![],
                            coherent: true,
                            label: format!("R2/fee-product(in={inp},fee={fee},o1={o1},o2={o2})"),
                            a,
                        });
                    }
                }
            }
        }
    }

    // ---- spec-variant candidates: derived fields computed by a *different* recipe (field
    // order swapped, single instead of double hash, wrong salt, duplicated component, shifted
    // insertion). The spec says all of them must be rejected; a circuit that hashes in another
    // order accepts exactly one of them.
    for (bi, (name, base)) in bases.iter().enumerate() {
        if base.is_dummy() {
            continue;
        }
        let mut push = |label: String, a: LeafA| {
            all_cases.push(Case { base: bi, edits: vec![], coherent: true, label: format!("{name}/variant:{label}"), a });
        };
        // header: every swap of two components and every duplication of one over another
        let comps: Vec<Vec<u64>> = vec![
            base.v[PARENT..PARENT + 4].to_vec(),
            vec![base.v[BN]],
            base.v[STATE..STATE + 4].to_vec(),
            base.v[EXTR..EXTR + 4].to_vec(),
            base.v[ZKROOT..ZKROOT + 4].to_vec(),
            base.v[DIGEST..DIGEST + 28].to_vec(),
        ];
        for i in 0..6 {
            for j in 0..6 {
                if i == j {
                    continue;
                }
                let mut c = comps.clone();
                if i < j {
                    c.swap(i, j);
                    let mut a = base.clone();
                    a.set4(BH, h(&c.concat()));
                    push(format!("header-swap({i},{j})"), a);
                }
                let mut c = comps.clone();
                c[i] = comps[j].clone();
                let mut a = base.clone();
                a.set4(BH, h(&c.concat()));
                push(format!("header-dup({i}<-{j})"), a);
            }
        }
        {
            let mut a = base.clone();
            let pre: Vec<u64> = comps.concat();
            a.set4(BH, h(&h(&pre)));
            push("header-double-hash".into(), a);
            let mut a = base.clone();
            a.set4(BH, h(&pre[..pre.len() - 28]));
            push("header-without-digest".into(), a);
        }
        // limb-pair aliases of the transfer count: the same weighted sum (x0*2^32 + x1,
        // x0 + x1*2^32, or x0 + x1) expressed by other limbs, in the nullifier's copy, in the
        // leaf's copy, or in both, everything derived from them re-derived. A binding that
        // compares a recomposed value instead of the limbs accepts one of them.
        {
            let two32: i128 = 1 << 32;
            let addp = |x: u64, d: i128| -> u64 { (x as i128 + d).rem_euclid(crate::cx::P as i128) as u64 };
            for (l, d0, d1) in [("x0-1,x1+2^32", -1, two32), ("x0+1,x1-2^32", 1, -two32), ("x0+2^32,x1-1", two32, -1), ("x0-2^32,x1+1", -two32, 1), ("x0+1,x1-1", 1, -1), ("x0-1,x1+1", -1, 1)] {
                for (wl, offs) in [("nullifier copy", vec![TCN]), ("leaf copy", vec![TCL]), ("both copies", vec![TCN, TCL])] {
                    let mut a = base.clone();
                    for o in offs {
                        a.v[o] = addp(base.v[o], d0);
                        a.v[o + 1] = addp(base.v[o + 1], d1);
                    }
                    a.recompute(&[]);
                    push(format!("count-limbs-alias({l}; {wl})"), a);
                }
            }
        }
        // nullifier / account recipes
        let sec = base.v[SECN..SECN + 4].to_vec();
        let tc = base.v[TCN..TCN + 2].to_vec();
        let saltn: Vec<u64> = zk_circuits_common::utils::string_to_felts("~nullif~").unwrap().into_iter().map(crate::cx::u).collect();
        let saltw: Vec<u64> = zk_circuits_common::utils::string_to_felts("wormhole").unwrap().into_iter().map(crate::cx::u).collect();
        let nvars: Vec<(&str, [u64; 4])> = vec![
            ("single-hash", h(&[saltn.clone(), sec.clone(), tc.clone()].concat())),
            ("salt-last", h(&h(&[sec.clone(), tc.clone(), saltn.clone()].concat()))),
            ("count-before-secret", h(&h(&[saltn.clone(), tc.clone(), sec.clone()].concat()))),
            ("no-salt", h(&h(&[sec.clone(), tc.clone()].concat()))),
            ("wrong-salt", h(&h(&[saltw.clone(), sec.clone(), tc.clone()].concat()))),
            ("count-limbs-swapped", h(&h(&[saltn.clone(), sec.clone(), vec![tc[1], tc[0]]].concat()))),
            ("without-count", h(&h(&[saltn.clone(), sec.clone()].concat()))),
            ("triple-hash", h(&h(&h(&[saltn.clone(), sec.clone(), tc.clone()].concat())))),
        ];
        for (l, n) in nvars {
            let mut a = base.clone();
            a.set4(NULL, n);
            push(format!("nullifier-{l}"), a);
        }
        let avars: Vec<(&str, [u64; 4])> = vec![
            ("single-hash", h(&[saltw.clone(), sec.clone()].concat())),
            ("salt-last", h(&h(&[sec.clone(), saltw.clone()].concat()))),
            ("no-salt", h(&h(&sec))),
            ("nullifier-salt", h(&h(&[saltn.clone(), sec.clone()].concat()))),
        ];
        for (l, acc) in avars {
            let mut a = base.clone();
            a.set4(ACC, acc);
            a.set4(TO, acc);
            a.recompute(&[ACC, TO, NULL]);
            push(format!("account-{l}"), a);
        }
        // leaf-hash recipes (root re-derived from the variant leaf hash): express by editing
        // the hashed fields so that the *spec* leaf hash differs from what is folded
        let to = base.v[TO..TO + 4].to_vec();
        let tcl = base.v[TCL..TCL + 2].to_vec();
        let lvars: Vec<(&str, Vec<u64>)> = vec![
            ("asset-input-swapped", [to.clone(), tcl.clone(), vec![base.v[INPUT], base.v[ASSET]]].concat()),
            ("count-limbs-swapped", [to.clone(), vec![tcl[1], tcl[0]], vec![base.v[ASSET], base.v[INPUT]]].concat()),
            ("count-first", [tcl.clone(), to.clone(), vec![base.v[ASSET], base.v[INPUT]]].concat()),
            ("without-count", [to.clone(), vec![base.v[ASSET], base.v[INPUT]]].concat()),
            ("output-instead-of-input", [to.clone(), tcl.clone(), vec![base.v[ASSET], base.v[OUT1]]].concat()),
        ];
        for (l, pre) in lvars {
            // fold from a different leaf hash: reuse `fold` by temporarily computing with a patched copy
            let mut cur = h(&pre);
            let depth = base.v[DEPTH] as usize;
            for lvl in 0..depth {
                let s = [base.sib(lvl, 0), base.sib(lvl, 1), base.sib(lvl, 2)];
                let ch: [[u64; 4]; 4] = match base.v[POS + lvl] {
                    0 => [cur, s[0], s[1], s[2]],
                    1 => [s[0], cur, s[1], s[2]],
                    2 => [s[0], s[1], cur, s[2]],
                    _ => [s[0], s[1], s[2], cur],
                };
                cur = h(&ch.concat());
            }
            let mut a = base.clone();
            a.set4(ROOT, cur);
            a.recompute(&[ROOT, ACC, TO, NULL]);
            push(format!("leafhash-{l}"), a);
        }
        // arrangement recipes: at one level the four children are hashed in another order than
        // "running hash inserted at `position` among the siblings in their given order"
        {
            let d = (base.v[DEPTH] as usize).min(3);
            for lvl_mut in 0..d {
                for perm in crate::mcx::permutations(4).into_iter().skip(1) {
                    let mut cur = base.leaf_hash();
                    for lvl in 0..base.v[DEPTH] as usize {
                        let s = [base.sib(lvl, 0), base.sib(lvl, 1), base.sib(lvl, 2)];
                        let mut ch: Vec<[u64; 4]> = match base.v[POS + lvl] {
                            0 => vec![cur, s[0], s[1], s[2]],
                            1 => vec![s[0], cur, s[1], s[2]],
                            2 => vec![s[0], s[1], cur, s[2]],
                            _ => vec![s[0], s[1], s[2], cur],
                        };
                        if lvl == lvl_mut {
                            ch = perm.iter().map(|&i| ch[i]).collect();
                        }
                        cur = h(&ch.concat());
                    }
                    if cur == base.d4(ROOT) {
                        continue; // two equal children: same arrangement
                    }
                    let mut a = base.clone();
                    a.set4(ROOT, cur);
                    a.recompute(&[ROOT, ACC, TO, NULL]);
                    push(format!("children-order(level {lvl_mut}, {perm:?})"), a);
                }
            }
        }
        // insertion recipes: position interpreted shifted / from the other end
        if base.v[DEPTH] > 0 {
            for (l, fpos) in [("pos+1", 1u64), ("3-pos", 100)] {
                let mut b2 = base.clone();
                let d = base.v[DEPTH] as usize;
                for lvl in 0..d {
                    b2.v[POS + lvl] = if fpos == 100 { 3 - base.v[POS + lvl] } else { (base.v[POS + lvl] + 1) % 4 };
                }
                let r = b2.fold();
                let mut a = base.clone();
                a.set4(ROOT, r);
                a.recompute(&[ROOT, ACC, TO, NULL]);
                push(format!("insertion-{l}"), a);
            }
        }
    }

    // ---- run all honest-hint cases ----
    let verdicts: Vec<bool> = all_cases
        .par_iter()
        .map(|c| judge(&cx, ctx, c, &[], &fds, reps, &tally).accepted())
        .collect();

    // distinct non-trivial = distinct assignments; per property: those that touch its clauses
    let mut n_by_prop = [0u64; 5];
    for (c, acc) in all_cases.iter().zip(&verdicts) {
        let hsh = hash64(&c.a.v);
        let pv = c.a.p_violations();
        for (i, p) in ["C01", "C02", "C03", "C04"].iter().enumerate() {
            if pv.iter().any(|x| x.0 == *p) || (pv.is_empty() && *acc) {
                reps[i].distinct(hsh);
                n_by_prop[i] += 1;
            }
        }
        if c.a.hon() {
            reps[4].distinct(hsh);
            n_by_prop[4] += 1;
        }
    }

    // ---- hint deviations ----
    // on every base point, and on rejected distance-1 assignments (spec says reject) chosen by
    // field kind: the numeric/range/dummy-decision ones in quick, all in thorough.
    let mut dev_targets: Vec<usize> = Vec::new();
    for (ci, c) in all_cases.iter().enumerate() {
        if c.edits.is_empty() && c.label.len() <= 4 {
            dev_targets.push(ci);
            continue;
        }
        if c.edits.len() != 1 || c.a.p_violations().is_empty() {
            continue;
        }
        let fd = &fds[c.edits[0].0];
        let numeric = matches!(fd.kind, Kind::Amount | Kind::Fee | Kind::TcLimb | Kind::Depth | Kind::Flag)
            || (fd.kind == Kind::Pos && c.edits[0].1 >= 4)
            || fd.off == BH;
        if thorough {
            dev_targets.push(ci);
        } else if numeric {
            if fd.kind == Kind::Pos && !(fd.name == "pos[0]" || fd.name == "pos[1]" || fd.name == "pos[2]") {
                continue;
            }
            if fd.kind == Kind::Depth && !matches!(c.edits[0].1, 0 | 1 | 15 | 16 | 17 | 18) {
                continue;
            }
            dev_targets.push(ci);
        }
    }
    if thorough {
        // the fee product's rejected cases too
        for (ci, c) in all_cases.iter().enumerate() {
            if c.label.starts_with("R2/fee-product") && !c.a.p_violations().is_empty() && ci % 3 == 0 {
                dev_targets.push(ci);
            }
        }
    }
    let dev_runs = AtomicU64::new(0);
    let dev_accepts = AtomicU64::new(0);
    dev_targets.par_iter().for_each(|&ci| {
        let c = &all_cases[ci];
        let inputs = c.a.to_inputs(&ctx.targets);
        let (honest, devs) = cx.single_devs(&inputs);
        let honest_acc = honest.verdict.accepted();
        devs.par_iter().for_each(|d| {
            let v = judge(&cx, ctx, c, &[*d], &fds, reps, &tally);
            dev_runs.fetch_add(1, Ordering::Relaxed);
            if v.accepted() {
                dev_accepts.fetch_add(1, Ordering::Relaxed);
                if !honest_acc && c.a.hon() {
                    // cannot happen (hon => honest accept), kept for symmetry
                }
            }
        });
    });

    // thorough: d=2 over hint generators on the base points, and the generic menu (every
    // generator) at d=1 on the base points
    let mut d2_runs = 0u64;
    let mut generic_runs = 0u64;
    if thorough {
        for (bi, (name, base)) in bases.iter().enumerate() {
            if !(bi == 1 || bi == 3 || bi == 5) {
                continue;
            }
            let c = Case { base: bi, edits: vec![], coherent: false, label: name.clone(), a: base.clone() };
            let inputs = base.to_inputs(&ctx.targets);
            let (_h, devs1) = cx.single_devs(&inputs);
            let n: u64 = devs1
                .par_iter()
                .map(|d1| {
                    let o = cx.run(&inputs, &[*d1], &[], true);
                    let mut cnt = 0u64;
                    for (g2, &m) in o.menus.iter().enumerate() {
                        if g2 <= d1.gen {
                            continue;
                        }
                        for a2 in 0..m as usize {
                            judge(&cx, ctx, &c, &[*d1, Dev { gen: g2, alt: a2 }], &fds, reps, &tally);
                            cnt += 1;
                        }
                    }
                    cnt
                })
                .sum();
            d2_runs += n;
        }
        let mut cxa = Cx::new(&ctx.data);
        cxa.mode = MenuMode::All;
        for (bi, (name, base)) in bases.iter().enumerate() {
            if !(bi == 1 || bi == 5) {
                continue;
            }
            let c = Case { base: bi, edits: vec![], coherent: false, label: name.clone(), a: base.clone() };
            let inputs = base.to_inputs(&ctx.targets);
            let (_h, devs) = cxa.single_devs(&inputs);
            generic_runs += devs.len() as u64;
            devs.par_iter().for_each(|d| {
                judge(&cxa, ctx, &c, &[*d], &fds, reps, &tally);
            });
        }
    }

    // ---- evidence ----
    let execs = tally.execs.load(Ordering::Relaxed);
    let edges = tally.edges.load(Ordering::Relaxed);
    let census = cx.class_census();
    let alph: Value = json!({
        "amount": "0,1,v+-1,2^32-1,2^32,p-1 (+2^32+1,2^48,p-2^32,2^63+5,v+2^32 thorough)",
        "fee": "0,1,9999,10000,10001,16383,16384,2^32-1,2^32,p-1",
        "transfer-count limb": "0,v+1,2^32-1,2^32,p-1",
        "depth": "0..17,31,32,33,63,64,p-1",
        "position": "0..5,7,p-1",
        "digest": "limb0+1, limb3+1, zero, unrelated (+limb1/2+1, all p-1, limbs swapped thorough)",
        "is_not_dummy": "unset,0,1,2",
        "hint menus": "WireSplit/LowHigh: decomposition of v+p and v+2p, +-1, borrow, zero, swapped; Equality: flag flipped, inv 0/+1, flag 2; BaseSplit: bit flips, all 0/1, limb=2",
    });
    for (i, r) in reps.iter().enumerate() {
        r.eval(if i < 4 { execs } else { n_by_prop[4] });
        r.states.store(execs, Ordering::Relaxed);
        r.transitions.store(edges.max(1), Ordering::Relaxed);
        r.traces.store(execs, Ordering::Relaxed);
        r.extra("honest_hint_assignments", json!(all_cases.len()));
        r.extra("hint_deviation_runs_d1", json!(dev_runs.load(Ordering::Relaxed)));
        r.extra("hint_deviation_runs_accepted", json!(dev_accepts.load(Ordering::Relaxed)));
        r.extra("hint_deviation_runs_d2", json!(d2_runs));
        r.extra("generic_menu_runs", json!(generic_runs));
        r.extra("assignments_with_hint_deviations", json!(dev_targets.len()));
        r.extra("accepted_runs", json!(tally.accepts.load(Ordering::Relaxed)));
        r.extra("rejected_runs", json!(tally.rejects.load(Ordering::Relaxed)));
        r.extra("p_and_not_hon_rejects (either verdict allowed)", json!(tally.undetermined.load(Ordering::Relaxed)));
        r.extra("cases_relevant_to_this_property", json!(n_by_prop[i]));
        r.extra("bounds", json!({"distance": k, "hint_deviations": if thorough {2} else {1}, "base_points": bases.iter().map(|b| b.0.clone()).collect::<Vec<_>>()}));
        r.extra("alphabets", alph.clone());
        r.extra("generator_census", json!(census));
        r.extra("circuit", json!({"rows": ctx.data.common.degree(), "generators": ctx.data.prover_only.generators.len(), "built_by": "WormholeCircuit::new(wormhole_leaf_circuit_config())"}));
        r.rule("each case = one complete assignment of all ~300 free inputs of the real leaf circuit (individually, connected targets separately) at Hamming distance <= k from an honest base point, raw or with dependent hashes re-derived, plus the fee-rule product, plus every single (thorough: pair) hint deviation; run through the circuit's own generators and all gate+copy constraints. distinct_nontrivial = distinct assignments whose spec verdict involves this property's clauses (violating them, or accepted with them holding)");
        r.assume("Poseidon2 collision resistance; plonky2 gate evaluators and permutation argument; alphabets instead of the whole field");
        r.assume("FRI/PLONK soundness (ACCEPT = satisfying assignment; each reported violation is additionally proven and verified with the real prover/verifier)");
    }
    // samples
    for (ci, c) in all_cases.iter().enumerate().filter(|(i, _)| i % (all_cases.len() / 9 + 1) == 0) {
        let s = json!({"case": case_json(c, &fds), "spec_clauses_violated": c.a.p_violations().iter().map(|x| x.1.clone()).collect::<Vec<_>>(), "circuit": if verdicts[ci] {"ACCEPT"} else {"REJECT"}});
        for r in reps.iter() {
            r.sample(s.clone());
        }
    }
}
