use vharness::leafnative::*;
use wormhole_prover::WormholeProver;
use rayon::prelude::*;
fn main(){
    let t=std::time::Instant::now();
    let mode = std::env::args().nth(1).unwrap_or("seq".into());
    let ps: Vec<HonestParams> = (0..32).map(|i| { let depth=(i%17) as usize; HonestParams{seed:i,depth,positions:vec![(i%4) as u8;depth],asset:0,input:1000,fee:10,out1:500,out2:400,tc:5,block_number:1}}).collect();
    let f = |p:&HonestParams| {
        let h=build(p);
        let prover = WormholeProver::new(zk_circuits_common::circuit::wormhole_leaf_circuit_config()).unwrap();
        let c = prover.commit(&h.inputs).unwrap();
        let pr = c.prove();
        eprintln!("{} {:?} {:?}", p.seed, pr.is_ok(), t.elapsed());
    };
    if mode=="seq" { ps.iter().for_each(f); } else { ps.par_iter().for_each(f); }
    println!("total {:?}", t.elapsed());
}
