use vharness::fixtures::*;
use wormhole_aggregator::private_batch::prover::PrivateBatchProver;
use plonky2::plonk::circuit_data::CircuitConfig;
fn main(){
    let leaf = leaf_verifier();
    let dummy = dummy_leaf_proof();
    for n in [2usize,3] {
      for zk in [true,false] {
        let cfg = CircuitConfig{ zero_knowledge: zk, ..zk_circuits_common::circuit::wormhole_private_batch_circuit_config()};
        let t=std::time::Instant::now();
        let p = PrivateBatchProver::new(cfg, leaf.common.clone(), &leaf.verifier_only, n, dummy.clone()).unwrap();
        println!("n={n} zk={zk} build {:?} degree_bits {}", t.elapsed(), p.circuit_data.common.degree_bits());
      }
    }
}
