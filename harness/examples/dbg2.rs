use vharness::leafnative::*;
fn main(){
    for i in 0..20u64 {
    let depth=(i%17) as usize;
    let p = HonestParams{seed:i,depth,positions:vec![(i%4) as u8;depth],asset:0,input:1000,fee:10,out1:500,out2:400,tc:5,block_number:1};
    let t=std::time::Instant::now();
    let _h=build(&p);
    println!("seed {i} depth {depth} pos {} build {:?}", i%4, t.elapsed());
    }
}
