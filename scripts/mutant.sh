#!/bin/bash
# usage: mutant.sh <file> <sed-expr> <bin> [args...]  -- applies sed to /repo/<file>, rebuilds, runs, reverts
set -u
file=$1; expr=$2; shift 2
cd /repo
cp "$file" /tmp/mutant_backup.$$
sed -i "$expr" "$file"
if git diff --quiet -- "$file"; then echo "MUTANT DID NOT CHANGE FILE"; fi
git diff --stat -- "$file" | tail -1
cd /verif/harness
if ! CARGO_NET_OFFLINE=true cargo build --release >/tmp/mutant_build.$$ 2>&1; then
  grep -E "^error" -A 8 /tmp/mutant_build.$$ | head -30; echo "MUTANT DID NOT COMPILE - not run"
  rm -f /tmp/mutant_build.$$; cd /repo; cp /tmp/mutant_backup.$$ "$file"; rm /tmp/mutant_backup.$$; exit 3
fi
rm -f /tmp/mutant_build.$$
cd /verif
"$@" 2>&1 | grep -E "VIOLATION|KNOWN|^\[|MACHINERY|->" | head -${LINES_MAX:-12}
cd /repo; cp /tmp/mutant_backup.$$ "$file"; rm /tmp/mutant_backup.$$
git -C /repo status --short | head -3
