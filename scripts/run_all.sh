#!/bin/bash
# run every registered check at the given tier, print a timing table
tier=${1:-quick}
cd /verif
for id in $(python3 -c "import json; print(' '.join(c['property_id'] for c in json.load(open('/verif/MANIFEST.json'))['checks']))"); do
  s=$(date +%s)
  out=$(./check $id $tier 2>&1 | grep -E "VIOLATION|MACHINERY|^\[$id\]" | tail -3)
  code=$?
  e=$(date +%s)
  echo "$id $tier $((e-s))s :: $out"
done
