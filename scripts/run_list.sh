#!/bin/bash
# usage: run_list.sh <tier> <ID>...   run the listed checks at the given tier, print a timing table
tier=$1; shift
cd /verif
for id in "$@"; do
  s=$(date +%s)
  out=$(./check $id $tier 2>&1 | grep -E "VIOLATION|MACHINERY|^\[$id\]" | tail -3)
  e=$(date +%s)
  echo "$id $tier $((e-s))s :: $out"
done
