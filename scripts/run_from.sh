#!/bin/bash
# run every registered check from <first id> on at the given tier, print a timing table
tier=${1:-quick}; first=${2:-C01}
cd /verif
go=0
for id in $(python3 -c "import json; print(' '.join(c['property_id'] for c in json.load(open('/verif/MANIFEST.json'))['checks']))"); do
  [ "$id" = "$first" ] && go=1
  [ $go = 1 ] || continue
  s=$(date +%s)
  out=$(./check $id $tier 2>&1 | grep -E "VIOLATION|MACHINERY|^\[$id\]" | tail -3)
  e=$(date +%s)
  echo "$id $tier $((e-s))s :: $out"
done
