#!/bin/bash
# usage: replaytest.sh <patch> <ID>  -- with the patch applied: run the quick check, replay the
# first recorded violation (must reproduce: exit 1); after reverting: replay again (must exit 0)
patch=$1; id=$2
mkdir -p /verif/target; exec 9>/verif/target/.build.lock; flock 9; export VERIF_NOLOCK=1
cd /repo && git apply "$patch" || { echo "PATCH DOES NOT APPLY"; exit 3; }
cd /verif; rm -f replays/$id-*.json
./check $id quick 2>&1 | grep -E "^VIOLATION" | head -2
f=$(ls replays/$id-*.json | head -1)
echo "--- replay with the change applied: $f"
./check $id quick --replay /verif/$f | tail -4; echo "exit=${PIPESTATUS[0]}"
cd /repo && git checkout -- . && cd /verif
echo "--- replay on the unchanged tree"
./check $id quick --replay /verif/$f | tail -2; echo "exit=${PIPESTATUS[0]}"
rm -f replays/$id-*.json
