#!/bin/bash
# usage: seedrun.sh <patch> <ID> [<ID>...]  -- apply a seeded patch to /repo, run the quick checks, revert
patch=$1; shift
mkdir -p /verif/target; exec 9>/verif/target/.build.lock; flock 9; export VERIF_NOLOCK=1
cd /repo; git status --short | grep -v '^??' | head -3
git apply "$patch" || { echo "PATCH DOES NOT APPLY"; exit 3; }
for id in "$@"; do
  echo "--- check $id"
  (cd /verif && timeout 1500 ./check $id ${TIER:-quick} 2>&1 | grep -E "VIOLATION|KNOWN|^\[C|MACHINERY|->" | head -5; echo "exit=${PIPESTATUS[0]}")
done
cd /repo; git checkout -- .; git status --short | grep -v '^??' | head -3
