#!/usr/bin/env python3
"""Generate /verif/MANIFEST.json from the table below (single source of truth)."""
import json, os
ALL = ["C%02d" % i for i in range(1, 37)]
MC = "model_checking"; EX = "exploration"; FE = "fault_enumeration"
# id -> (engine, category, technique, level text, level note, design ref)
CHECKS = {
 "C01": ("leaf", MC, "stateless bounded-exhaustive exploration of the real leaf constraint system (CX): all assignments within Hamming distance k of honest base points x all hint deviations up to d",
         "No assignment within the printed alphabets (distance<=1 quick / <=2 thorough around 7 base points, fee-rule product, spec-variant hashes) and no hint deviation (d<=1 quick, d<=2 thorough) satisfies the circuit WormholeCircuit::new builds while violating a 32-bit range, the fee cap or the integer fee rule. Every execution runs the implementation's own generators and evaluates every gate and copy constraint; a violating assignment is additionally proven and verified with the real prover/verifier.",
         "Alphabets instead of all field elements; Poseidon2 collision resistance; plonky2 gate evaluators, permutation argument and FRI soundness.", "§4 Leaf circuit"),
 "C02": ("leaf", MC, "same CX exploration; separately settable connected targets (nullifier secret/count vs address secret/leaf count) and re-derived hashes",
         "Within the same bounds no satisfiable non-dummy statement has a nullifier that is not H(H(salt||s||c)) for the secret and count of the proven leaf, an address that is not H(H(salt||s)) or a recipient different from it.", "as C01", "§4 Leaf circuit"),
 "C03": ("leaf", MC, "same CX exploration; header-order/leaf-hash/insertion spec variants, positions 4/5/7/p-1, depths 17..64",
         "Within the same bounds no satisfiable non-dummy statement has a block hash that is not the fixed-order header hash, a header root different from the proven root, a path deeper than 16, an active position above 3 or a path that does not fold to the root.", "as C01", "§4 Leaf circuit"),
 "C04": ("leaf", MC, "same CX exploration; half-dummy statements, witnessed is_not_dummy in {unset,0,1,2}, all equality-hint deviations",
         "Within the same bounds a statement escapes the bindings only with zero block hash and zero outputs; no hint deviation (incl. the six is_equal hints of the dummy flag) changes the decision; range/fee clauses hold on dummies.", "as C01", "§4 Leaf circuit"),
 "C05": ("leafprove", EX, "bounded-exhaustive enumeration of honest inputs (depth x position pattern x corner) and malformed path shapes on the real prover, pinned verifier, both parsers and CX",
         "Every enumerated honest input (all 4^d position patterns for d<=3 quick / <=4 thorough, 6 patterns for deeper trees up to 16, 8 amount/fee corners, 4 transfer counts) is accepted by the circuit with the documented public inputs and by commit; a deterministic subset is proven and verified by the keccak-pinned verifier and parsed back by both parsers; all 361 (siblings,positions) length pairs, depth 64/1000 and positions 4/5/255 give Err, never a panic.",
         "Real proving on a subset only; CX acceptance on all.", "§4 C05"),
}
NOT_YET = "check not built yet in this round (construction order DESIGN.md §10); not claimed"
def main():
    checks = []
    for pid in ALL:
        if pid not in CHECKS: continue
        eng, cat, tech, text, note, ref = CHECKS[pid]
        checks.append({
            "property_id": pid,
            "quick_cmd": f"./check {pid} quick",
            "thorough_cmd": f"./check {pid} thorough",
            "evidence_file": f"/verif/evidence/{pid}.json",
            "replay_cmd_template": "cat {path}",
            "engine": eng,
            "level_claimed": {"category": cat, "text": text, "design_ref": ref},
            "level_note": note,
            "technique": tech,
        })
    m = {
        "version": 1,
        "setup_cmd": "cd /verif/harness && CARGO_NET_OFFLINE=true cargo build --release --bins",
        "hooks": {
            "guard": "cargo feature verif-hooks (crates qp-zk-circuits-common, qp-wormhole-aggregator, qp-wormhole-circuit-builder)",
            "enable": "the harness crate /verif/harness depends on /repo's crates by path with features=[\"verif-hooks\"]; nothing else enables it (not in default features)",
            "baseline_off_cmd": "cd /repo && cargo nextest run --workspace --no-fail-fast --test-threads 8 --offline || cargo test --workspace --no-fail-fast --offline",
            "source_commits": open('/verif/hooks/commits.txt').read().split() if os.path.exists('/verif/hooks/commits.txt') else [],
            "add_only": True,
        },
        "engines": [
            {"name": "mcx", "path": "/verif/harness/src/mcx.rs", "serves_properties": ALL, "kind_free_text": "explorer core: products, distance balls, choice tree, evidence"},
            {"name": "CX", "path": "/verif/harness/src/cx.rs", "serves_properties": ["C01","C02","C03","C04","C05","C06","C07","C08","C09","C10","C11","C12","C13","C27","C30","C31","C36"], "kind_free_text": "stateless deviation-bounded explorer over the real circuit's generators + full gate/copy constraint evaluation"},
        ],
        "checks": checks,
        "notes": "All checks rebuild the harness (and through path dependencies /repo's crates, feature verif-hooks on) from /repo's working tree. exit 2 = machinery error.",
        "not_applicable": [{"property_id": p, "reason": NOT_YET} for p in ALL if p not in CHECKS],
    }
    json.dump(m, open('/verif/MANIFEST.json', 'w'), indent=1)
    print("checks:", len(checks), "not_applicable:", len(m["not_applicable"]))
main()
