#!/usr/bin/env python3
"""Generate /verif/MANIFEST.json from the table below (single source of truth)."""
import json, os
ALL = ["C%02d" % i for i in range(1, 37)]
MC = "model_checking"; EX = "exploration"; FE = "fault_enumeration"
# id -> (engine, category, technique, level text, level note, design ref)
CHECKS = {
 "C01": ("leaf", MC, "stateless bounded-exhaustive exploration of the real leaf constraint system (CX): all assignments within Hamming distance k of honest base points x all hint deviations up to d",
         "No assignment within the printed alphabets (distance<=1 quick / <=2 thorough around 7 base points, fee-rule product, spec-variant hashes) and no hint deviation (d<=1 quick, d<=2 thorough) satisfies the circuit WormholeCircuit::new builds while violating a 32-bit range, the fee cap or the integer fee rule. Every execution runs the implementation's own generators and evaluates every gate and copy constraint; a violating assignment is additionally proven and verified with the real prover/verifier.",
         "Alphabets instead of all field elements; Poseidon2 collision resistance; plonky2 gate evaluators, permutation argument and FRI soundness.", "§4 Leaf circuit"),
 "C02": ("leaf", MC, "same CX exploration; separately settable connected targets (nullifier secret/count vs address secret/leaf count) and re-derived hashes",
         "Within the same bounds no satisfiable non-dummy statement has a nullifier that is not H(H(salt||s||c)) for the secret and count of the proven leaf, an address that is not H(H(salt||s)) or a recipient different from it.", "as C01", "§4 Leaf circuit"),
 "C03": ("leaf", MC, "same CX exploration; header-order/leaf-hash/insertion spec variants, positions 4/5/7/p-1, depths 17..64",
         "Within the same bounds no satisfiable non-dummy statement has a block hash that is not the fixed-order header hash, a header root different from the proven root, a path deeper than 16, an active position above 3 or a path that does not fold to the root.", "as C01", "§4 Leaf circuit"),
 "C04": ("leaf", MC, "same CX exploration; half-dummy statements, witnessed is_not_dummy in {unset,0,1,2}, all equality-hint deviations",
         "Within the same bounds a statement escapes the bindings only with zero block hash and zero outputs; no hint deviation (incl. the six is_equal hints of the dummy flag) changes the decision; range/fee clauses hold on dummies.", "as C01", "§4 Leaf circuit"),

 "C06": ("wrap_private", EX, "bounded-exhaustive enumeration of child statement vectors on the real private-batch wrapper constraint system (CX, wrapper-only circuit via hook H1) against a native aggregate function",
         "For every vector of the listed finite sets (full 64k-slot alphabet at N=1, 145^2 at N=2, 14^3/24^3 at N=3, distance balls with all permutations at N=3,4) the circuit's output equals the specified aggregate felt by felt (header from the first real slot, first-occurrence grouping of dummy-masked pairs, sorted nullifiers with H(H(u)) replacements, zero padding).",
         "Child statements range over what the leaf circuit can prove; wrapper-only circuit uses zero_knowledge=false; N>=8 only sampled; recursion binding is C11.", "§4 Private-batch wrapper"),
 "C07": ("wrap_private", EX, "same enumeration; acceptance compared two-sidedly with the compatibility/replay-freedom predicate, plus differential invariance under all permutations and dummy-content replacements inside the sets",
         "Within the same sets the wrapper is satisfiable (honest hints) iff one asset over all slots, one block hash and fee over real slots, distinct real nullifiers and all group sums < 2^32; acceptance is invariant under slot permutation and under any change of a dummy slot's non-asset fields.", "as C06; adversarial hints are C10's check", "§4 Private-batch wrapper"),
 "C08": ("wrap_private", EX, "same enumeration; conservation computed from inputs and circuit outputs only",
         "Within the same sets: sum of output amounts = sum of real slots' outputs; every non-zero output slot carries exactly what real slots sent to that account; dummy slots with non-zero amounts/accounts contribute nothing.", "as C06", "§4 Private-batch wrapper"),
 "C09": ("wrap_private", EX, "same enumeration; differential oracles over permutation classes and dummy-content classes, zero-slot rule",
         "Within the same sets: header and nullifier region are identical across all permutations, exit groups only reorder, dummy/duplicate/unused slots are all-zero (zero-account group exception documented in DESIGN.md), and no dummy-slot field other than asset/preimage (nor a real slot's preimage) changes the output.", "as C06", "§4 Private-batch wrapper"),
 "C10": ("freedom", MC, "stateless deviation-bounded exploration: every script of <=d deviated hint generators on the real wrapper constraint systems and bytes_digest_eq (gadget deviations shared with C30/C31)",
         "For ~110 private (N=2,3) and 512 public (M=2,3) input vectors incl. sums at 2^32-1/2^32, duplicate nullifiers and alias-prone nullifiers, every hint deviation (d<=1; d<=2 thorough on N=2/M=2) either is rejected or yields the honest public output; no deviation turns an honest reject into accept; free-input census = child PIs + preimages.",
         "Hint menus (alias decompositions, +-1, borrow, flag/inverse flips, bit flips) rather than all field values; non-hint generators are pinned by their own gate.", "§4 C10"),
 "C12": ("wrap_public", EX, "bounded-exhaustive enumeration of inner statement vectors on the real public-batch wrapper constraint system (CX, hook H2) against native forwarding",
         "For every vector over the 256-archetype inner alphabet (M<=2) and a 40-archetype sub-alphabet (M=3), shapes (1,1),(2,1),(3,1),(2,2),(1,3), three addresses: output = address, first real inner's asset/fee/hash/number, 2NM, each inner's slots then nullifiers in inner order, zeros for zero-hash inners; segment i depends only on inner i.",
         "inner statements are arbitrary vectors (superset of provable ones); 8x8 and 16x1 only sampled.", "§4 Public-batch wrapper"),
 "C13": ("wrap_public", EX, "same enumeration; acceptance two-sided against the metadata-consistency predicate and constant on never-cross-checked classes",
         "Within the same sets the wrapper is satisfiable iff all non-zero-hash inners share block hash, asset and fee; slots, nullifiers, numbers, padding and every field of a zero-hash inner never change acceptance.", "as C12", "§4 Public-batch wrapper"),
 "C23": ("publish", FE, "choice-tree enumeration of every answer script (ok/error/crash-before/crash-after/partial) at every rename and remove call site of the real publish routine, from three initial states; stage faults of generate_all_circuit_binaries in child processes",
         "All 35 complete fault scripts of commit_staging_dir_impl and all stage-boundary error/abort runs of generation leave the output path holding exactly the previous or exactly the new set (or both copies on disk), report Ok iff the new set is live, and leave no staging directory after an error.",
         "rename treated as atomic; an erroring rename did nothing; crash inside the publish routine is an unwinding panic (the routine holds no guards); N=1 generation configs.", "§4 C23"),
 "C27": ("merkle", EX, "bounded-exhaustive enumeration of native proofs (all position vectors over 0..5 to depth 3/4, depths 0..17 with all single corruptions incl. +p byte aliases) against a reference fold; circuit agreement through CX; from_unsorted over all sibling triples of a 6-hash alphabet",
         "verify/verify_with_positions equal the reference on every enumerated proof; the leaf circuit accepts a canonical path iff the native verifier does; from_unsorted succeeds exactly for canonical paths of depth<=16 with positions = first sorted rank and its result verifies.",
         "non-canonical bytes are outside the circuit's domain and only checked natively.", "§4 C27"),
 "C30": ("gadgets", MC, "stateless exploration of the real gadget circuits: full (width,constant,x) grids for widths 1..6, boundary grids for 7..64, every hint deviation script up to d",
         "For every explored (width, constant, x) and every deviation script (d<=1; d<=2 thorough on widths <=8,32,33,63,64): satisfiable => x<2^w and out=(c<x); honest satisfiable <=> x<2^w; the +p alias at width 64 cannot flip the output; enforce_target_less_than_const accepts exactly x<bound.",
         "boundary alphabets for widths>=7; plonky2 gate evaluators.", "§4 C30, C31"),
 "C31": ("gadgets", MC, "stateless exploration of the real sort_digests4 circuit: all lists up to length 3/4 over 8 digests (5/6 over 4), every hint deviation up to d on short lists",
         "Every explored list sorts to the ascending lexicographic permutation; no deviation script (alias splits, flag flips) yields a different accepted output.",
         "lengths 8,33,64 only sampled.", "§4 C30, C31"),
 "C32": ("debugfmt", EX, "enumeration of 21 object kinds x 5 format flags x structured value patterns; needle search over every decimal/hex/byte-list rendering of every private value",
         "No rendering of any listed type under {:?},{:#?},{:x?},{:X?},{:#x?} contains any private value's bytes, limbs, words or felts in decimal or hex; public fields remain visible.",
         "textual encodings other than decimal/hex/byte lists are not searched; seeded random patterns are additional to the 6 structured ones.", "§4 C32"),
 "C33": ("scrub", EX, "exhaustive enumeration of all well-typed secret-handling call sequences up to length 4 (5 thorough) x 4 secret patterns under an allocator that scans every freed block",
         "No freed heap block (other than the two documented upstream hashing buffers) contains the secret or any distinctive limb, for every enumerated sequence; Secret::new zeroes the caller's buffer for valid and invalid input.",
         "single-threaded; stack copies and plonky2's buffers out of scope as the crate documents.", "§4 C33"),
 "C36": ("wrap_private", EX, "exhaustive enumeration of placements of leaf subsets into two private batches chained into the public wrapper (both real constraint builders under CX)",
         "For all 1044 placements of 1..4 of 6 compatible leaves into 2x2 slots (rest dummy) and outer padding M=2/3: outer non-zero slots sum to the real leaves' outputs; outer non-zero nullifiers = real nullifiers + H(H(u)) of dummy slots of real inners; all-dummy inners add nothing.",
         "recursion binding is C11; real two-layer proofs in C18's check.", "§4 C36"),

 "C14": ("provers", EX, "bounded-exhaustive enumeration of proof vectors (length 0..N+1 over an alphabet of genuine and tampered proofs) on the real PrivateBatchProver::commit / public admission preflight, each accepted commit's witness (hook H3) evaluated on the circuit by CX",
         "For every vector over 10 (quick) / 13 (thorough) real leaf proofs at N=2 (N=3 thorough) and over 8 real private-batch proofs at M=2: commit Ok => documented policy holds and the committed witness satisfies the wrapper constraints (every 7th also the production recursive circuit, some really proven); commit Err on a policy-conformant vector => no arrangement of the padded batch satisfies the circuit. Found and fixed: group sum 2^32 accepted by commit (known_findings.json).",
         "most vectors use the private-batch circuit without row blinding (commit's admission logic is config-independent); decisions compared as Ok/Err + circuit verdicts, not error text.", "§4 C14"),
 "C15": ("provers", MC, "choice tree over all environment answers of the shuffle RNG (hook H4 scripted RNG): every Fisher-Yates index script, rejected draws, every pattern of <=2 non-canonical preimage blocks per slot; executed by the real commit, slots read back through hook H3",
         "For N=2..4 (5 thorough) and every k: the committed batch is exactly the k supplied proofs plus N-k exact template copies; the map script -> slot order is a bijection onto the permutations (N!/(N-k)! arrangements each hit (N-k)! times); slot i carries the i-th canonical random block, non-canonical blocks are never committed; the public prover keeps the supplied order followed by templates for every ordered selection.",
         "uniformity of rand's ThreadRng/gen_range themselves; scripts assume rand 0.8.6's Lemire sampling (a changed consumption pattern with all oracles holding is a machinery error, not a violation).", "§4 C15"),
 "C19": ("pool", MC, "explicit-state breadth-first search over all operation histories of the real ProofPool (cloned live objects, virtual clock hook H5) in lock step with a reference model; every transition compared",
         "Every history of depth<=5 (quick) / <=9 (thorough, time-capped per level) over 24 operations x 13 proofs x 4 limit settings: push admits iff the documented rule chain in order (verification calls observed through the hook counter, so bucket-cap/duplicate rejections only after a successful verify), a rejected push changes only window start/count.",
         "pool verifier is a tiny free-PI circuit with the private-batch layout (the pool treats its verifier as a black box); ages above 3 half-windows merged in the canonical state (all thresholds <= 2).", "§4 C19-C22"),
 "C20": ("pool", MC, "same state-space search; invariants evaluated on every reached state from the observed view (hook verif_view) and against the model",
         "On every reached state: nullifier index = exactly the pooled nullifiers mapped to their bucket, no shared nullifier, no empty bucket, proof in its key's bucket, counts within limits, bucket_stats = recomputed counts/saturating volume/oldest age/last snapshot age.", "as C19", "§4 C19-C22"),
 "C21": ("pool", MC, "same state-space search; removal operations and snapshots compared with the model, every non-empty snapshot passed to the real public-batch preflight (hook H6)",
         "On every transition: proofs disappear only through settlement, expiry (strictly older than the cutoff) or bucket removal, exactly the targets, correct count/returned proofs; snapshots remove nothing, return the oldest min(len,batch) in admission order and pass the public-batch preflight.", "as C19; preflight verdicts memoised per distinct snapshot list", "§4 C19-C22"),
 "C22": ("pool", MC, "same state-space search with clock advances landing before, on and after every comparison threshold",
         "On every transition: at most `budget` verifier calls per window counting failed ones, the counter restarts only when now-start >= W, an exhausted budget rejects without calling the verifier.", "as C19", "§4 C19-C22"),
 "C24": ("pure", EX, "bounded-exhaustive enumeration: all vectors within Hamming distance 2 of valid serialisations over a 7-value alphabet, all lengths around each layout boundary, count grids, against reference layout predicates; felt parser vs u64 parser",
         "~0.9M (quick) / 2.5M (thorough) parser calls: no panic, Ok iff the reference layout predicate holds, parse(serialise(x)) = x, the two private-batch parsers agree on Ok/Err and value.", "alphabets and distance balls, not all vectors", "§4 C24"),
 "C25": ("pure", EX, "bounded-exhaustive enumeration of byte strings, felt vectors, digests, limbs and amounts against reference encoders",
         "All byte strings of length<=2, all over {0,1,2,ff} to length 7, cap boundary lengths; all felt vectors of length<=3 over 18 values; 4096 digests with limbs around p; limb alphabets around 2^32; 55 amounts: round trip, injectivity, over-cap rejection, decode accepts exactly images, digest accepted iff limbs<p, limb decoding iff <2^32, quantisation fails iff >u32.", "alphabets instead of all byte strings up to 1 MiB", "§4 C25, C26"),
 "C26": ("pure", EX, "bounded-exhaustive enumeration of compact-hash inputs (all limb tuples over 6 values at every length 0..25, cap boundary) and all 4096 child quadruples over 8 hashes (hook H8)",
         "Compact hash accepts exactly len<=1MiB, len%8=0, limbs<p; accepted inputs hash like one canonical felt per limb and never collide; hash_node errs (no panic) iff a child is non-canonical, is order independent and equals presorted hashing on sorted children.", "Poseidon2 permutation shared with the reference", "§4 C25, C26"),
 "C28": ("pure", EX, "full grid enumeration of CircuitConfig fields around every threshold at validate_circuit_config, every failing config within distance 2 of canonical at all six constructors (under a counting allocator), ~5M memprof flag sets",
         "validate accepts exactly the stated conjunction on 630k (7M thorough) configs; every constructor returns Err without panicking or allocating >1MiB on failing configs; every memprof flag set that validates builds a config passing the shared check.", "fields outside the policy held fixed", "§4 C28, C29"),
 "C29": ("pure", EX, "enumeration of counts {0,1,64,65,1000,2^32,2^63,MAX,...} at every entry point under a counting allocator (child process), try_pi_len grid vs u128, all 64x65 config files",
         "Every bad count is rejected with Err, no panic, <1MiB peak allocation and no output directory touched at all listed entry points; layout arithmetic never wraps; config files round-trip for every valid pair incl. the legacy key.", "valid counts only judged at the cheap entry points", "§4 C28, C29"),
 "C35": ("pure", EX, "enumeration of generated documents: all pairs of boundary parameters (state root, node count/size/total, indices, raw size by whitespace/extra field/escapes, structure defects) under a counting allocator",
         "3.3k documents: never panics; >8MiB rejected with <64KiB allocated (not parsed); over-cap fields rejected; everything accepted passes validate().", "acceptance of in-cap documents is counted, not demanded", "§4 C35"),
 "C05": ("leafprove", EX, "bounded-exhaustive enumeration of honest inputs (depth x position pattern x corner) and malformed path shapes on the real prover, pinned verifier, both parsers and CX",
         "Every enumerated honest input (all 4^d position patterns for d<=3 quick / <=4 thorough, 6 patterns for deeper trees up to 16, 8 amount/fee corners, 4 transfer counts) is accepted by the circuit with the documented public inputs and by commit; a deterministic subset is proven and verified by the keccak-pinned verifier and parsed back by both parsers; all 361 (siblings,positions) length pairs, depth 64/1000 and positions 4/5/255 give Err, never a panic.",
         "Real proving on a subset only; CX acceptance on all.", "§4 C05"),
}
NOT_YET = "check not built yet in this round (construction order DESIGN.md §10); not claimed"
def main():
    checks = []
    for pid in ALL:
        if pid not in CHECKS: continue
        eng, cat, tech, text, note, ref = CHECKS[pid]
        checks.append({
            "property_id": pid,
            "quick_cmd": f"./check {pid} quick",
            "thorough_cmd": f"./check {pid} thorough",
            "evidence_file": f"/verif/evidence/{pid}.json",
            "replay_cmd_template": "cat {path}",
            "engine": eng,
            "level_claimed": {"category": cat, "text": text, "design_ref": ref},
            "level_note": note,
            "technique": tech,
        })
    m = {
        "version": 1,
        "setup_cmd": "cd /verif/harness && CARGO_NET_OFFLINE=true cargo build --release --bins",
        "hooks": {
            "guard": "cargo feature verif-hooks (crates qp-zk-circuits-common, qp-wormhole-aggregator, qp-wormhole-circuit-builder)",
            "enable": "the harness crate /verif/harness depends on /repo's crates by path with features=[\"verif-hooks\"]; nothing else enables it (not in default features)",
            "baseline_off_cmd": "cd /repo && cargo nextest run --workspace --no-fail-fast --test-threads 8 --offline || cargo test --workspace --no-fail-fast --offline",
            "source_commits": open('/verif/hooks/commits.txt').read().split() if os.path.exists('/verif/hooks/commits.txt') else [],
            "add_only": True,
        },
        "engines": [
            {"name": "mcx", "path": "/verif/harness/src/mcx.rs", "serves_properties": ALL, "kind_free_text": "explorer core: products, distance balls, choice tree, evidence"},
            {"name": "CX", "path": "/verif/harness/src/cx.rs", "serves_properties": ["C01","C02","C03","C04","C05","C06","C07","C08","C09","C10","C11","C12","C13","C27","C30","C31","C36"], "kind_free_text": "stateless deviation-bounded explorer over the real circuit's generators + full gate/copy constraint evaluation"},
        ],
        "checks": checks,
        "notes": "All checks rebuild the harness (and through path dependencies /repo's crates, feature verif-hooks on) from /repo's working tree. exit 2 = machinery error.",
        "not_applicable": [{"property_id": p, "reason": NOT_YET} for p in ALL if p not in CHECKS],
    }
    json.dump(m, open('/verif/MANIFEST.json', 'w'), indent=1)
    print("checks:", len(checks), "not_applicable:", len(m["not_applicable"]))
main()
