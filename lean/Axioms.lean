/-
  C34, theorem half: list every theorem of the spec with the axioms it depends on.
  Output: one line `THM <name> :: <axiom> <axiom> ...` per theorem, `AXIOM <name>` per
  declared axiom in the WormholeSpec namespace.
-/
import Lean
import WormholeSpec
open Lean

#eval show CoreM Unit from do
  let env ← getEnv
  let names := env.constants.fold (init := #[]) fun acc n ci =>
    if (`WormholeSpec).isPrefixOf n && !n.isInternal then acc.push (n, ci) else acc
  for (n, ci) in names.qsort (fun a b => a.1.toString < b.1.toString) do
    match ci with
    | .thmInfo _ =>
      let ax ← collectAxioms n
      IO.println s!"THM {n} :: {String.intercalate " " (ax.toList.map toString)}"
    | .axiomInfo _ =>
      let m := match env.getModuleIdxFor? n with
        | some idx => toString (env.header.moduleNames[idx.toNat]!)
        | none => "?"
      IO.println s!"AXIOM {n} {m}"
    | _ => pure ()
