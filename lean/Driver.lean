/-
  C34 conformance driver: evaluates the spec's OWN executable definitions
  (`maskedChildPairs`, `groupExits`, `find? isRealB`, `inputExitTotal`, `slotsTotal`,
  `digestLE`) on private-batch cases exported by the harness and prints the results.
  One input line per case:  N  <21*N leaf public inputs>  <4*N circuit nullifier region>
  One output line per case: G <5*2N slot felts> H <found asset fee bh0..3 number> T <in> <out> S <sorted>
-/
import WormholeSpec
open WormholeSpec

instance (a b : Digest) : Decidable (digestLt a b) := by
  unfold digestLt; exact inferInstance
instance (a b : Digest) : Decidable (digestLE a b) := by
  unfold digestLE; exact inferInstance

/-- `List.Pairwise digestLE`, decided pair by pair with the spec's `digestLE`. -/
def pairwiseLE : List Digest → Bool
  | [] => true
  | a :: rest => rest.all (fun b => decide (digestLE a b)) && pairwiseLE rest

def dig (xs : List Nat) (i : Nat) : Digest :=
  ⟨xs.getD i 0, xs.getD (i+1) 0, xs.getD (i+2) 0, xs.getD (i+3) 0⟩

def leafAt (xs : List Nat) (o : Nat) : LeafPublic :=
  { assetId := xs.getD o 0, outputAmount1 := xs.getD (o+1) 0, outputAmount2 := xs.getD (o+2) 0,
    volumeFeeBps := xs.getD (o+3) 0, nullifier := dig xs (o+4), exitAccount1 := dig xs (o+8),
    exitAccount2 := dig xs (o+12), blockHash := dig xs (o+16), blockNumber := xs.getD (o+20) 0 }

def showD (d : Digest) : String := s!"{d.x0} {d.x1} {d.x2} {d.x3}"

def processLine (line : String) : String :=
  let xs : List Nat := (line.splitOn " ").filterMap String.toNat?
  match xs with
  | [] => ""
  | n :: rest =>
    let leaves : List LeafPublic := (List.range n).map (fun i => leafAt rest (21*i))
    let nulls : List Digest := (List.range n).map (fun i => dig rest (21*n + 4*i))
    let slots := groupExits (maskedChildPairs leaves)
    let g := String.intercalate " " (slots.map (fun s => s!"{s.sum} {showD s.account}"))
    let h := match leaves.find? isRealB with
      | some p => s!"1 {p.assetId} {p.volumeFeeBps} {showD p.blockHash} {p.blockNumber}"
      | none => "0 0 0 0 0 0 0 0"
    s!"G {g} H {h} T {inputExitTotal leaves} {slotsTotal slots} S {if pairwiseLE nulls then 1 else 0}"

def main (args : List String) : IO Unit := do
  let path := args.headD "cases.txt"
  let content ← IO.FS.readFile path
  let out ← IO.getStdout
  for line in content.splitOn "\n" do
    if line.length > 0 then
      out.putStrLn (processLine line)
